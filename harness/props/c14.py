"""C14 - compression is transparent for any conforming LAZ backend.

Model: Model/Laz.v - the compress decision (translated from LasWriter.__init__, open_las, LasData.write), the compressed bit,
the LasZip-record discipline over VLR lists, the layout of compressed files (header / VLR / EVLR codec of Model/Las.v around the
backend's payload), readers (seekable, non-seekable), cursor steps, appender - over an ABSTRACT backend; the theorems
(Props/C14.v) hold for every backend that honours the contract `conforming`.
Tie: harness/fake_lazrs is installed as `lazrs` (this process only), which makes laspy's LAZ glue executable; the model driver
(ocaml/c14/driver.ml) instantiates the backend with the same on-disk format, so whole compressed files are compared byte for byte.
Correspondence: decisions over destinations x do_compress x backends x extensions; the 256 format ids; VLR-list histories
(write / open / touch / user edits); bytes of chunked and one-shot compressed writes; seekable and non-seekable reads; point-source
cursor histories; append sessions.
Search (implementation only): LAZ vs LAS of the same data through every route of the property."""
import io
import os
import shutil
import struct
import tempfile

import numpy as np

from harness import fake_lazrs

fake_lazrs.install()

from harness import common, lasio, sessions  # noqa: E402

DRIVER = "c14"
ASSUMPTIONS = [
    "the LAZ backend honours the contract `conforming` of coq/Model/Laz.v (dec(enc rs) = rs from any position, chunked feeding = "
    "one-shot feeding, seek i then read = skipn i, the appender continues a stream, the destination ends where the stream ends, "
    "the serial variant constructs on any source and the parallel one on seekable sources); harness/fake_lazrs is one executable "
    "witness, the real lazrs/laszip codecs are not installed and not modelled",
    "a backend's stream may hold absolute file offsets (the chunk table offset): the model treats the backend as specialised to the "
    "data offset of the file at hand, which is the same for every file a single theorem speaks about",
    "the path suffix is taken from os.path.splitext / pathlib.Path.suffix (library code), its lower-casing is ASCII in the model",
    "VLR lists handed to the writer hold no record with the LasZip ids that is not a LasZipVlr object (what the reader produces)",
    "x -> x*scale+offset is monotone in binary64 for the positive scales used (hypothesis ap_ok of the theorems)",
]
KNOWN_EMPTY_NS = "empty-laz-evlrs-nonseekable"
CS_CHOICES = (1, 3, 5, 8)

_DATA = None
_TMP = None


class NonSeekable:
    """what tests/conftest.py calls NonSeekableStream: read / seekable / close only"""

    def __init__(self, data):
        self.inner = io.BytesIO(data)

    def read(self, n):
        return self.inner.read(n)

    def seekable(self):
        return False

    def close(self):
        pass


def B():
    import laspy
    return laspy.LazBackend


def backend_choices():
    b = B()
    return [("none", None, "PS"), ("serial", b.Lazrs, "S"), ("parallel", b.LazrsParallel, "P"),
            ("list-ps", [b.LazrsParallel, b.Lazrs], "PS"), ("tuple-sp", (b.Lazrs, b.LazrsParallel), "SP"), ("list-s", [b.Lazrs], "S")]


def kw(backend):
    return {} if backend is None else {"laz_backend": backend}


# ---------------------------------------------------------------------------------
# raw views of a file (independent of laspy's reader)
# ---------------------------------------------------------------------------------
def raw_vlrs(raw):
    hs = struct.unpack_from("<H", raw, 94)[0]
    n = struct.unpack_from("<I", raw, 100)[0]
    pos, out = hs, []
    for _ in range(n):
        uid = raw[pos + 2:pos + 18].split(b"\0")[0]
        rid, ln = struct.unpack_from("<HH", raw, pos + 18)
        desc = raw[pos + 22:pos + 54].split(b"\0")[0]
        out.append((uid, rid, desc, raw[pos + 54:pos + 54 + ln]))
        pos += 54 + ln
    return out


def is_lz(t):
    return t[0] == b"laszip encoded" and t[1] == 22204


def fmt_byte(raw):
    return raw[104]


def lzdata_for(h):
    v = fake_lazrs.LazVlr.new_for_compression(h.point_format.id, h.point_format.num_extra_bytes)
    return v.record_data()


# ---------------------------------------------------------------------------------
# chunk shapes: the same records handed to a writer / appender as a fresh contiguous array, as a strided or
# reversed view into a larger array (garbage between the records), as a slice at an offset of a larger array,
# through a fancy index, or as the 0-d one-point record that points[i] yields.  The bytes a writer has to put
# into the file are rec_bytes(record) in every case; compressed destinations must treat them like plain ones.
# ---------------------------------------------------------------------------------
SHAPES = ("plain", "plain", "strided", "reversed", "strided-reversed", "offset", "fancy", "zero-d")
GARBAGE, SCRIBBLE = 0xE7, 0x5C


def shaped(rec, shape):
    """(record of the same class / content as `rec` whose array has the given memory shape, backing array, shape used)"""
    arr = np.ascontiguousarray(rec.array).reshape(-1)
    k = len(arr)

    def filled(m):
        big = np.empty(m, arr.dtype)
        big.view(np.uint8)[:] = GARBAGE
        return big
    if shape == "zero-d" and k != 1:
        shape = "strided"
    if shape == "strided":
        big = filled(2 * k + 1)
        big[1::2] = arr
        view = big[1::2]
    elif shape == "reversed":
        big = arr[::-1].copy()
        view = big[::-1]
    elif shape == "strided-reversed":
        big = filled(3 * k + 2)
        big[1::3][:k] = arr[::-1]
        view = big[1::3][:k][::-1]
    elif shape == "offset":
        big = filled(k + 3)
        big[2:2 + k] = arr
        view = big[2:2 + k]
    elif shape == "fancy":
        big = filled(k + 2)
        big[1:1 + k] = arr
        view = big[list(range(1, 1 + k))] if k else big[0:0]
    elif shape == "zero-d":
        big = arr.copy()
        view = big[0]
    else:
        big = arr.copy()
        view = big
    if hasattr(rec, "scales"):
        out = type(rec)(view, rec.point_format, rec.scales, rec.offsets)
    else:
        out = type(rec)(view, rec.point_format)
    return out, big, shape


def scribble(backing):
    """the caller reuses its buffer after the call returned: nothing written so far may change"""
    try:
        backing.view(np.uint8)[:] = SCRIBBLE
    except Exception:  # noqa
        pass


# ---------------------------------------------------------------------------------
# data sets: the input spaces of C01 / C03-C06 with counts straddling the chunk size
# ---------------------------------------------------------------------------------
def make_data(rng):
    import laspy
    cs = rng.choice(CS_CHOICES)
    h = lasio.rand_header(rng, version=("1.4" if rng.random() < 0.4 else None))
    if rng.random() < 0.3:
        lasio.add_extra_dims(rng, h)
    n = rng.choice([0, 0, 1, max(cs - 1, 0), cs, cs + 1, 2 * cs, 2 * cs + 1, 3 * cs + 2])
    pts = lasio.rand_points(rng, h, n)
    evl = []
    if h.version.minor >= 4 and rng.random() < 0.6:
        evl = [lasio.rand_vlr(rng, 120) for _ in range(rng.choice([1, 2]))]
    # a partition of the points into chunks (empty ones included)
    cuts, pos = [], 0
    while pos < n:
        k = rng.choice([0, 1, 1, cs, cs + 1, n - pos])
        k = min(k, n - pos)
        cuts.append((pos, pos + k))
        pos += k
    if rng.random() < 0.3:
        cuts.insert(rng.randrange(len(cuts) + 1), (pos, pos))
    bsel = rng.choice(backend_choices())
    shapes = [rng.choice(SHAPES) for _ in cuts]
    shapes = [("strided" if (sh == "zero-d" and b - a != 1) else sh) for sh, (a, b) in zip(shapes, cuts)]
    return {"cs": cs, "h": h, "pts": pts, "evl": evl, "cuts": cuts, "shapes": shapes, "backend": bsel,
            "desc": {"chunk_size": cs, "version": str(h.version), "format": h.point_format.id, "points": n, "vlrs": len(h.vlrs),
                     "evlrs": len(evl), "extra_dims": len(list(h.point_format.extra_dimensions)),
                     "chunks": [b - a for a, b in cuts], "chunk_shapes": shapes, "backend": bsel[0]}}


def write_session(d, compress, chunked=True, backend="own"):
    """bytes a LasWriter session produces for the data set"""
    import laspy
    bk = d["backend"][1] if backend == "own" else backend
    bio = io.BytesIO()
    w = laspy.LasWriter(bio, d["h"], do_compress=compress, closefd=False, **(kw(bk) if compress else {}))
    if chunked:
        for (a, b), sh in zip(d["cuts"], d.get("shapes") or ["plain"] * len(d["cuts"])):
            rec, backing, _ = shaped(d["pts"][a:b], sh)
            w.write_points(rec)
            scribble(backing)      # the caller's buffer is reused right after the call
    elif len(d["pts"]):
        w.write_points(d["pts"])
    if d["evl"]:
        w.write_evlrs(laspy.vlrs.vlrlist.VLRList(list(d["evl"])))
    w.close()
    return bio.getvalue()


def datasets(ctx):
    global _DATA
    if _DATA is None:
        _DATA = []
        for _ in range(ctx.n(110, 1200)):
            d = make_data(ctx.rng)
            fake_lazrs.CHUNK_SIZE = d["cs"]
            try:
                d["las"] = write_session(d, False, False)
                d["las_chunked"] = write_session(d, False, True)
            except Exception as ex:  # noqa
                d["error_las"] = f"{type(ex).__name__}: {ex}"
            try:
                d["laz_chunked"] = write_session(d, True, True)
                d["laz_oneshot"] = write_session(d, True, False)
            except Exception as ex:  # noqa
                d["error"] = f"{type(ex).__name__}: {ex}"
            if "error_las" in d and "error" not in d:
                d["error"] = "the uncompressed session failed: " + d["error_las"]
            _DATA.append(d)
    return _DATA


def read_summary(las):
    """what the property compares of a read: records, counts and statistics (as bit patterns), VLRs, EVLRs"""
    h = las.header
    return {"points": lasio.rec_bytes(las.points), "count": int(h.point_count), "format": lasio.format_key(h.point_format),
            "maxs": [lasio.f64bits(x) for x in h.maxs], "mins": [lasio.f64bits(x) for x in h.mins],
            "scales": [lasio.f64bits(x) for x in h.scales], "offsets": [lasio.f64bits(x) for x in h.offsets],
            "returns": [int(x) for x in h.number_of_points_by_return],
            "vlrs": [lasio.vlr_tuple(v) for v in las.vlrs],
            "evlrs": None if las.evlrs is None else [lasio.vlr_tuple(v) for v in las.evlrs],
            "version": str(h.version), "uuid": h.uuid.bytes_le, "sysid": h.system_identifier, "software": h.generating_software,
            "source_id": h.file_source_id, "genc": h.global_encoding.value, "date": str(h.creation_date),
            "extra_hdr": bytes(h.extra_header_bytes)}


def diff_keys(a, b):
    return [k for k in a if a[k] != b.get(k)]


# ---------------------------------------------------------------------------------
# decisions
# ---------------------------------------------------------------------------------
NAMES = ["a.las", "a.laz", "a.LAZ", "a.LaZ", "a.lAz", "a.laz.las", "a.las.laz", "a", "a.lazx", "a.la", ".laz", "a.LAS", "laz",
         "a.laż", "a.ＬＡＺ", "dir.laz/b.las", "dir.las/b.LAz"]


def tiny_las(rng):
    import laspy
    h = laspy.LasHeader(point_format=rng.choice([0, 3, 6]), version="1.4")
    las = laspy.LasData(h)
    las.points = laspy.ScaleAwarePointRecord.zeros(3, header=h)
    las.X = [1, 2, 3]
    return las


def decision_cases(ctx):
    """every route x destination kind x do_compress x backend selection; returns (canon, model command, observed compressed?)"""
    import laspy
    global _TMP
    rng = ctx.rng
    _TMP = tempfile.mkdtemp(prefix="verif_c14_", dir="/var/tmp")
    os.makedirs(os.path.join(_TMP, "dir.laz"), exist_ok=True)
    os.makedirs(os.path.join(_TMP, "dir.las"), exist_ok=True)
    out = []
    b = B()
    bsel = [("none", None), ("serial", b.Lazrs), ("list", [b.LazrsParallel, b.Lazrs])]
    for route in ("open", "lasdata", "writer"):
        dests = [("path", nm) for nm in NAMES] + [("pathlib", nm) for nm in NAMES[:6]] + [("stream", None), ("file", "f.laz"), ("file", "f.las")]
        if route == "writer":
            dests = [("stream", None), ("file", "f.laz")]
        for kind, nm in dests:
            for dc in (None, True, False):
                for bname, bk in bsel:
                    las = tiny_las(rng)
                    path = os.path.join(_TMP, nm) if nm else None
                    is_path = kind in ("path", "pathlib")
                    suffix = os.path.splitext(nm)[1] if is_path else ""
                    try:
                        if kind == "stream":
                            dest = io.BytesIO()
                        elif kind == "file":
                            dest = open(path, "wb+")
                        elif kind == "pathlib":
                            import pathlib
                            dest = pathlib.Path(path)
                        else:
                            dest = path
                        if route == "open":
                            with laspy.open(dest, mode="w", header=las.header, do_compress=dc, closefd=is_path, **kw(bk)) as w:
                                w.write_points(las.points)
                        elif route == "lasdata":
                            las.write(dest, do_compress=dc, **kw(bk))
                        else:
                            w = laspy.LasWriter(dest, las.header, do_compress=dc, closefd=False, **kw(bk))
                            w.write_points(las.points)
                            w.close()
                        if kind == "stream":
                            raw = dest.getvalue()
                        else:
                            if kind == "file":
                                dest.close()
                            with open(path, "rb") as f:
                                raw = f.read()
                        obs = "T" if fmt_byte(raw) & 0x80 else "F"
                        nlz = sum(is_lz(t) for t in raw_vlrs(raw))
                    except Exception as ex:  # noqa
                        obs, nlz = "raised:" + common.exc_kind(ex), -1
                    canon = (route, kind, nm, dc, bname)
                    codes = common.zl([ord(c) for c in suffix])
                    cmd = f"decide {route} {'T' if is_path else 'F'} F {codes} {'N' if dc is None else ('T' if dc else 'F')} {'F' if bk is None else 'T'}"
                    out.append((canon, cmd, obs, nlz, suffix, is_path))
    shutil.rmtree(_TMP, ignore_errors=True)
    return out


_DEC = None


def decisions(ctx):
    global _DEC
    if _DEC is None:
        fake_lazrs.CHUNK_SIZE = 2
        _DEC = decision_cases(ctx)
    return _DEC


# ---------------------------------------------------------------------------------
# VLR-list histories
# ---------------------------------------------------------------------------------
def vlr_histories(ctx):
    """random histories of write / open / touch / user edits on laspy; returns per history (init vlrs, op tokens, observed states)"""
    import laspy
    rng = ctx.rng
    out = []
    fake_lazrs.CHUNK_SIZE = 2
    for _ in range(ctx.n(70, 600)):
        h = lasio.rand_header(rng, version=rng.choice(["1.2", "1.4"]), nvlrs=rng.choice([0, 1, 2]))
        lz = lzdata_for(h)
        held = h                      # the header object the user holds
        reader = None
        last = None                   # bytes of the last file written
        toks, states, desc = [], [], []
        init = lasio.vlrs_tok(h.vlrs)
        for _ in range(rng.randrange(1, 8)):
            r = rng.random()
            try:
                if r < 0.45 or last is None:
                    c = rng.random() < 0.6
                    n = rng.choice([0, 0, 1, 3])
                    bio = io.BytesIO()
                    w = laspy.LasWriter(bio, held, do_compress=c, closefd=False)
                    pts = lasio.rand_points(rng, held, n)
                    if n:
                        w.write_points(pts)
                    w.close()
                    last = bio.getvalue()
                    toks.append(f"W{'T' if c else 'F'}:{n}:{common.hexb(lz)}")
                    desc.append(f"write({'laz' if c else 'las'},{n})")
                elif r < 0.7:
                    reader = laspy.open(io.BytesIO(last))
                    held = reader.header
                    toks.append("O")
                    desc.append("open")
                elif r < 0.88:
                    if reader is None:
                        continue
                    if rng.random() < 0.5:
                        reader.read_points(1)
                    else:
                        reader.read()
                    toks.append("T")
                    desc.append("touch")
                else:
                    v = lasio.rand_vlr(rng, 20)
                    held.vlrs.append(v)
                    toks.append("A" + lasio.vlrs_tok([v]))
                    desc.append("add")
            except Exception as ex:  # noqa
                states.append("raised:" + type(ex).__name__ + ":" + str(ex)[:60])
                break
            states.append(lasio.vlrs_tok(held.vlrs) + ";" + (lasio.vlrs_tok(raw_vlrs(last)) if last is not None else "-"))
        out.append({"init": init, "toks": toks[:len(states)], "states": states, "desc": desc[:len(states)],
                    "last": last, "held": held})
    return out


_HIST = None


def histories(ctx):
    global _HIST
    if _HIST is None:
        _HIST = vlr_histories(ctx)
    return _HIST


# ---------------------------------------------------------------------------------
# reader / cursor / appender runs on the implementation
# ---------------------------------------------------------------------------------
def gen_ops(rng, n, cs):
    """in-range point-source histories: ('R', k) read k records, ('S', i) seek to record i"""
    ops, c, last = [], 0, None
    for _ in range(rng.randrange(1, 9)):
        if rng.random() < 0.65:
            k = rng.choice([0, 1, cs, cs + 1, n - c, rng.randrange(0, n - c + 1)])
            if last is not None and rng.random() < 0.35:
                k = last              # the same size again: a reader that recycles its buffers would hand out the same one
            k = max(0, min(k, n - c))
            last = k
            ops.append(("R", k))
            c += k
        elif n:
            i = rng.choice([0, n - 1, cs - 1 if cs - 1 < n else 0, cs if cs < n else 0, rng.randrange(n)])
            ops.append(("S", i))
            c = i
    return ops


def run_point_source(raw, backend, ops):
    """outputs of a point-source history, as they are when handed out and - every buffer kept alive - as they are
    after the whole history (the model's outputs are values: both must be what the model says)"""
    import laspy
    r = laspy.open(io.BytesIO(raw), **kw(backend))
    src = r.point_source
    outs, kept = [], []
    for op, v in ops:
        try:
            if op == "R":
                buf = src.read_n_points(v)
                kept.append((len(outs), buf))
                outs.append("o" + common.hexb(bytes(buf)))
            else:
                src.seek(v)
                outs.append("ox")
        except Exception as ex:  # noqa
            outs.append("e" + common.exc_kind(ex))
    finals = list(outs)
    for j, buf in kept:
        finals[j] = "o" + common.hexb(bytes(buf))
    return outs, finals


def run_reader(raw, backend, ops):
    """the same history through the public LasReader (read_points / seek)"""
    import laspy
    outs = []
    with laspy.open(io.BytesIO(raw), **kw(backend)) as r:
        for op, v in ops:
            try:
                if op == "R":
                    outs.append(lasio.rec_bytes(r.read_points(v)))
                else:
                    outs.append(("seek", r.seek(v)))
            except Exception as ex:  # noqa
                outs.append("err:" + common.exc_kind(ex))
        outs.append(("vlrs", [lasio.vlr_tuple(v) for v in r.header.vlrs]))
    return outs


# ---------------------------------------------------------------------------------
# kept pieces: everything a reader hands out (read_points results, the chunks of an iterator, the LasData of read())
# stays what it was when handed out, whatever the reader is asked to do later - and a caller writing into a piece it
# was given does not change what the reader returns later
# ---------------------------------------------------------------------------------
def gen_keep_ops(rng, n, cs, seekable=True):
    """('R', k) read_points(k), k<0 = the rest | ('S', i) seek(i) | ('I', k, m) m chunks (None = all) of chunk_iterator(k)
    | ('A',) read() | ('W', j) the caller overwrites kept piece j"""
    ops = []
    ks = [rng.choice([1, 1, 2, cs, cs + 1, max(1, n // 2)])]
    ks += [ks[0], ks[0], rng.choice([0, 1, cs, cs + 1, n, 7])]
    for _ in range(rng.randrange(2, 10)):
        r = rng.random()
        if r < 0.42:
            ops.append(("R", rng.choice(ks + [-1] if rng.random() < 0.15 else ks)))
        elif r < 0.62:
            if seekable:
                ops.append(("S", rng.choice([0, 0, n - 1, cs, cs - 1, rng.randrange(-1, n + 2)])))
        elif r < 0.78:
            ops.append(("I", max(1, rng.choice(ks)), rng.choice([None, 1, 2, 3])))
        elif r < 0.88:
            ops.append(("A",))
        else:
            ops.append(("W", rng.randrange(0, 6)))
    # the header's VLR list is looked at after the history: the LasZip record may be visible only while the lazy point
    # source of a non-empty compressed file does not exist yet, so the history ends by touching it
    ops.append(("R", 0))
    return ops


def _scribble_rec(rec):
    """True when the caller could write into the piece"""
    arr = rec.array
    if arr.size == 0:
        return False
    try:
        arr.view(np.uint8)[...] = SCRIBBLE
        return True
    except Exception:  # noqa
        return False


def run_keep(raw, backend, ops, seekable=True):
    """runs the history through the public LasReader keeping every piece; returns the outcomes per op, per piece the
    bytes at hand-out and at the end (after the reader was closed), the pieces seen to change under a later operation,
    and the summaries of the LasData objects at hand-out and at the end"""
    import laspy
    src = io.BytesIO(raw) if seekable else NonSeekable(raw)
    outs, kept, whole, changed = [], [], [], []
    r = laspy.open(src, closefd=True, **kw(backend))

    def keep(rec, i):
        b = lasio.rec_bytes(rec)
        kept.append({"obj": rec, "snap": b, "expect": b, "op": i, "scribbled": False})

    def check(after):
        for j, p in enumerate(kept):
            cur = lasio.rec_bytes(p["obj"])
            if cur != p["expect"]:
                changed.append({"piece": j, "handed_out_by_op": p["op"], "changed_by_op": after,
                                "was": common.hexb(p["expect"][:12]), "is": common.hexb(cur[:12])})
                p["expect"] = cur
        for w in whole:
            cur = read_summary(w["obj"])
            if cur != w["expect"]:
                changed.append({"lasdata_of_op": w["op"], "changed_by_op": after, "what": diff_keys(w["expect"], cur)})
                w["expect"] = cur
    for i, op in enumerate(ops):
        try:
            if op[0] == "R":
                rec = r.read_points(op[1])
                keep(rec, i)
                outs.append(("read", len(rec)))
            elif op[0] == "S":
                outs.append(("seek", r.seek(op[1])))
            elif op[0] == "I":
                it = r.chunk_iterator(op[1])
                got = 0
                for rec in it:
                    keep(rec, i)
                    got += 1
                    if op[2] is not None and got >= op[2]:
                        break
                outs.append(("chunks", got))
            elif op[0] == "A":
                las = r.read()
                keep(las.points, i)
                sm = read_summary(las)
                whole.append({"obj": las, "snap": sm, "expect": sm, "op": i})
                outs.append(("lasdata", len(las.points)))
            elif op[0] == "W":
                if kept:
                    p = kept[op[1] % len(kept)]
                    ok = _scribble_rec(p["obj"])
                    p["expect"] = lasio.rec_bytes(p["obj"])
                    for w in whole:
                        w["expect"] = read_summary(w["obj"])
                    outs.append(("overwrite", op[1] % len(kept), ok))
                else:
                    outs.append(("overwrite", None))
        except Exception as ex:  # noqa
            outs.append("err:" + common.exc_kind(ex))
        check(i)
    outs.append(("vlrs", [lasio.vlr_tuple(v) for v in r.header.vlrs]))
    try:
        r.close()
    except Exception as ex:  # noqa
        outs.append("close-err:" + common.exc_kind(ex))
    check("close")
    return {"outs": outs, "snaps": [p["snap"] for p in kept], "finals": [lasio.rec_bytes(p["obj"]) for p in kept],
            "piece_ops": [p["op"] for p in kept], "changed": changed,
            "whole_snaps": [w["snap"] for w in whole], "whole_finals": [read_summary(w["obj"]) for w in whole]}


def expected_pieces(ref_points, psize, n, ops):
    """what the pieces of a history are, from the records of the file alone (the cursor rule of C05: clamp to what is left)"""
    c, out = 0, []

    def take(k):
        nonlocal c
        left = max(n - c, 0)
        k = left if k < 0 else min(k, left)
        out.append(ref_points[c * psize:(c + k) * psize])
        c += k
        return k
    for op in ops:
        if op[0] == "R":
            take(op[1])
        elif op[0] == "S":
            if 0 <= op[1] < n:
                c = op[1]
        elif op[0] == "I":
            got = 0
            while True:
                if n - c <= 0:
                    break
                take(op[1])
                got += 1
                if op[2] is not None and got >= op[2]:
                    break
        elif op[0] == "A":
            take(-1)
    return out


def append_session(raw, h, chunks, backend, shapes=None):
    import laspy
    bio = io.BytesIO(raw)
    with laspy.open(bio, mode="a", closefd=False, **kw(backend)) as a:
        for c, sh in zip(chunks, shapes or ["plain"] * len(chunks)):
            rec, backing, _ = shaped(c, sh)
            a.append_points(rec)
            scribble(backing)
    return bio.getvalue()


def pick_shapes(rng, chunks):
    return [shaped(c, rng.choice(SHAPES))[2] for c in chunks]


def gen_append(rng, d):
    h = d["h"]
    cs = d["cs"]
    return [lasio.rand_points(rng, h, rng.choice([0, 1, 1, cs, cs + 1])) for _ in range(rng.randrange(0, 4))]


# ---------------------------------------------------------------------------------
# correspondence
# ---------------------------------------------------------------------------------
def correspond(ctx):
    import laspy
    ctx.extra["rule"] = (
        "data sets = random headers of every version/format (30% with extra dimensions, stale statistics, extra header/VLR bytes, 0-5 "
        "VLRs), point counts {0,1,cs-1,cs,cs+1,2cs,2cs+1,3cs+2} for backend chunk sizes cs in {1,3,5,8}, random partitions into chunks "
        "(empty ones included), +-EVLRs (1.4), backend given as none / serial / parallel / list / tuple. Compared with the model: the "
        "compress decision over {laspy.open, LasData.write, LasWriter} x {17 path names, pathlib, stream, file object} x do_compress x "
        "backend; the 256 format ids; 1-7 step VLR-list histories (write las/laz, open, touch, user append); bytes of chunked and "
        "one-shot compressed sessions; seekable and non-seekable reads; point-source read/seek histories (every buffer handed out is "
        "kept alive and compared again after the history); append sessions. Chunks reach writers and appenders - compressing and plain - "
        "as fresh arrays, strided / reversed / strided-reversed views with garbage between the records, offset slices, fancy-index "
        "copies and 0-d one-point records, and the caller's buffer is overwritten right after each call. Search only: histories of "
        "read_points / seek / partial and full chunk_iterator / read() / caller overwriting a kept piece on the public reader of the "
        "compressed and the uncompressed file (seekable and non-seekable), every piece and LasData kept until after close and compared "
        "with its value at hand-out, with the slice of the records and with the other file. "
        "non-trivial = compressed data with at least one point or a decision/bit/history case; distinct by inputs")
    dis = []
    cmds, tags = [], []

    def q(cmd, tag):
        cmds.append(cmd)
        tags.append(tag)

    # (1) decisions
    dec = decisions(ctx)
    for i, (canon, cmd, obs, nlz, suffix, is_path) in enumerate(dec):
        q(cmd, ("dec", i))
    # (2) bits
    from laspy._compression import format as cf
    for f in range(256):
        q(f"bits {f}", ("bits", f))
    # (3) VLR-list histories
    hist = histories(ctx)
    for i, hh in enumerate(hist):
        if hh["toks"]:
            q(f"vrun {hh['init']} " + " ".join(hh["toks"]), ("hist", i))
    # (4..7) files
    ds = datasets(ctx)
    rng = ctx.rng
    for i, d in enumerate(ds):
        h = d["h"]
        cs = d["cs"]
        fake_lazrs.CHUNK_SIZE = cs
        ha = lasio.assoc_tok(lasio.header_assoc(h, compressed=False))
        vt, et = lasio.vlrs_tok(h.vlrs), lasio.vlrs_tok(d["evl"])
        ps = h.point_format.size
        q(f"chunk {cs}", ("nop", i))
        if "error" in d:
            # the implementation refused / failed a session the generator only builds from acceptable parts: the model decides
            q(f"lazsession {ha} {vt} {h.point_format.id} {ps} {et} "
              + " ".join(common.hexb(lasio.rec_bytes(d['pts'][a:b])) for a, b in d["cuts"]), ("session_err", i))
            continue
        q(f"lazfile {ha} {vt} {h.point_format.id} {ps} {common.hexb(lasio.rec_bytes(d['pts']))} {et}", ("file", i))
        q(f"lazsession {ha} {vt} {h.point_format.id} {ps} {et} "
          + " ".join(common.hexb(lasio.rec_bytes(d['pts'][a:b])) for a, b in d["cuts"]), ("session", i))
        bname, bk, btok = d["backend"]
        q(f"lazread {btok} {common.hexb(d['laz_chunked'])}", ("read", i))
        try:
            d["read"] = laspy.read(io.BytesIO(d["laz_chunked"]), **kw(bk))
        except Exception as ex:  # noqa
            d["read"] = ex
        # non-seekable
        q(f"lazread_ns {btok} {common.hexb(d['laz_chunked'])}", ("read_ns", i))
        try:
            d["read_ns"] = laspy.read(NonSeekable(d["laz_chunked"]), closefd=False, **kw(bk))
        except Exception as ex:  # noqa
            d["read_ns"] = ex
        # cursor at point-source level
        n = len(d["pts"])
        if n and "S" in btok or n and btok:
            ops = gen_ops(rng, n, cs)
            d["ops"] = ops
            q(f"cursor {btok} {common.hexb(d['laz_chunked'])} " + " ".join(f"{o}{v}" for o, v in ops), ("cursor", i))
            try:
                d["cursor"], d["cursor_kept"] = run_point_source(d["laz_chunked"], bk, ops)
            except Exception as ex:  # noqa
                d["cursor"] = d["cursor_kept"] = ["raised:" + common.exc_kind(ex)]
        # append
        chunks = gen_append(rng, d)
        d["app_chunks"] = chunks
        d["app_shapes"] = pick_shapes(rng, chunks)
        par = btok[0] == "P"
        q(f"lazappend {'T' if par else 'F'} {ps} {common.hexb(d['laz_chunked'])} "
          + " ".join(common.hexb(lasio.rec_bytes(c)) for c in chunks), ("append", i))
        try:
            d["appended"] = append_session(d["laz_chunked"], h, chunks, bk, d["app_shapes"])
        except Exception as ex:  # noqa
            d["appended"] = ex
        try:
            d["appended_las"] = append_session(d["las"], h, chunks, None, d["app_shapes"])
        except Exception as ex:  # noqa
            d["appended_las"] = ex
    outs = common.run_model(cmds, name="c14")

    def bad(kind, inp, model, impl):
        dis.append({"kind": kind, "input": inp, "model": str(model)[:160], "impl": str(impl)[:160]})

    for (tag, i), mo in zip(tags, outs):
        if tag == "nop":
            continue
        ctx.traces += 1
        if tag == "dec":
            canon, cmd, obs, nlz, suffix, is_path = dec[i]
            ctx.case(("dec",) + canon, nontrivial=True, sample={"decision": canon, "compressed": obs} if i % 97 == 0 else None)
            ctx.count("decision:" + canon[0] + ":" + canon[1])
            m = mo.split(" ")
            if m[0] != obs:
                bad("compress decision", {"route": canon[0], "dest": canon[1], "name": canon[2], "do_compress": canon[3], "backend": canon[4]},
                    f"compressed={m[0]} (rule={m[1]}, ext_is_laz={m[2]})", f"compressed={obs}")
            elif m[0] != m[1] and not (canon[0] == "lasdata" and is_path):
                bad("decision differs from the documented rule", {"case": canon}, mo, obs)
        elif tag == "bits":
            ctx.case(("bits", i), nontrivial=True)
            ctx.count("format id sweep")
            exp = f"{'T' if cf.is_point_format_compressed(i) else 'F'} {cf.compressed_id_to_uncompressed(i)} {cf.uncompressed_id_to_compressed(i)}"
            if mo != exp:
                bad("compressed-bit functions", {"id": i}, mo, exp)
        elif tag == "hist":
            hh = hist[i]
            ctx.case(("hist", hh["init"], tuple(hh["toks"])), nontrivial=True, sample={"vlr_history": hh["desc"]} if i % 40 == 0 else None)
            for t in hh["desc"]:
                ctx.count("vlr-history:" + t.split("(")[0])
            if mo.split(" ") != hh["states"] and not (mo == "-" and not hh["states"]):
                k = next((j for j, (a, b) in enumerate(zip(mo.split(" "), hh["states"])) if a != b), 0)
                bad("LasZip record discipline", {"history": hh["desc"], "step": k, "init_vlrs": hh["init"][:60]},
                    summarize_state(mo.split(" ")[k] if k < len(mo.split(" ")) else "-"), summarize_state(hh["states"][k] if k < len(hh["states"]) else "-"))
        else:
            d = ds[i]
            desc = d["desc"]
            if tag == "file":
                ctx.case(("file", d["laz_oneshot"]), nontrivial=desc["points"] > 0, sample=desc if i % 20 == 0 else None)
                ctx.count(f"points-vs-chunk:{'0' if desc['points'] == 0 else ('<' if desc['points'] < d['cs'] else ('=' if desc['points'] == d['cs'] else '>'))}")
                ctx.count("backend:" + desc["backend"])
                if mo != "ok " + common.hexb(d["laz_oneshot"]):
                    bad("compressed file bytes (one-shot)", desc, where_differs(mo, d["laz_oneshot"]), f"{len(d['laz_oneshot'])} bytes")
            elif tag == "session_err":
                ctx.case(("session_err", repr(desc)), nontrivial=True)
                if mo.startswith("ok"):
                    bad("compressed session fails in the implementation", desc, "accepted: " + mo[:60], d["error"])
            elif tag == "session":
                ctx.case(("session", d["laz_chunked"], tuple(desc["chunks"])), nontrivial=len([c for c in desc["chunks"] if c]) >= 2)
                if mo != "ok " + common.hexb(d["laz_chunked"]):
                    bad("compressed file bytes (chunked session)", desc, where_differs(mo, d["laz_chunked"]), f"{len(d['laz_chunked'])} bytes")
            elif tag in ("read", "read_ns"):
                got = d[tag]
                ctx.case((tag, d["laz_chunked"], desc["backend"]), nontrivial=desc["points"] > 0)
                ctx.count("read:" + ("seekable" if tag == "read" else "non-seekable") + (":evlrs" if desc["evlrs"] else ""))
                known = tag == "read_ns" and desc["points"] == 0 and desc["evlrs"] > 0
                cmp_read(bad, tag, desc, mo, got, KNOWN_EMPTY_NS if known else None)
            elif tag == "cursor":
                ctx.case(("cursor", d["laz_chunked"], tuple(d["ops"])), nontrivial=True)
                ctx.count("cursor-history")
                m = mo.split(" ")
                exp = list(d["cursor"])
                mm = [("ox" if t == "ox" else t) for t in (m[1].split(",") if len(m) > 1 and m[1] != "-" else [])]
                # the model prints seek results as empty record lists
                ops = d["ops"]
                mm = [("ox" if ops[j][0] == "S" and t == "ox" else t) for j, t in enumerate(mm)]
                if m[0] != "ok" or mm != exp or m[2] != m[1] or m[3] != "T":
                    bad("point-source history", {**desc, "ops": ops}, mo[:200], ",".join(exp)[:200])
                elif mm != list(d["cursor_kept"]):
                    k = next((j for j, (a, b) in enumerate(zip(mm, d["cursor_kept"])) if a != b), 0)
                    bad("point-source history: a buffer handed out earlier changed under later operations", {**desc, "ops": ops, "step": k},
                        f"step {k} ({ops[k]}) yields {mm[k][:80]}", f"the buffer of step {k}, kept by the caller, holds {d['cursor_kept'][k][:80]} after the history")
            elif tag == "append":
                ctx.case(("append", d["laz_chunked"], tuple(len(c) for c in d["app_chunks"])), nontrivial=any(len(c) for c in d["app_chunks"]))
                ctx.count("append-session")
                got = d["appended"]
                if isinstance(got, Exception):
                    bad("append session", desc, mo[:80], f"raised {type(got).__name__}: {got}")
                elif mo != "ok " + common.hexb(got):
                    bad("append session bytes", {**desc, "appended": [len(c) for c in d["app_chunks"]], "appended_shapes": d["app_shapes"]},
                        where_differs(mo, got), f"{len(got)} bytes")
    return dis


def summarize_state(tok):
    held, _, filev = tok.partition(";")

    def names(t):
        return [f"{u.decode('latin1')}/{r}" for u, r, _, _ in lasio.parse_vlrs(t)] if t not in ("-", "") and not t.startswith("raised") else t
    return f"held={names(held)} file={names(filev)}"


def where_differs(mo, raw):
    if not mo.startswith("ok "):
        return mo[:80]
    m = common.unhex(mo[3:])
    k = next((j for j, (a, b) in enumerate(zip(m, raw)) if a != b), min(len(m), len(raw)))
    return f"{len(m)} bytes, first difference at byte {k}"


def cmp_read(bad, tag, desc, mo, got, known_kind):
    m = mo.split(" ")
    if isinstance(got, Exception):
        if m[0] == "ok":
            bad(known_kind or f"{tag} of a compressed file", desc, "ok", f"raised {type(got).__name__}: {got}")
        return
    if m[0] != "ok":
        bad(f"{tag} of a compressed file", desc, mo[:80], f"{len(got.points)} points")
        return
    fields, vl, ev, fmt, comp, psize, pts = m[1:8]
    h = got.header
    problems = []
    if common.unhex(pts) != lasio.rec_bytes(got.points):
        problems.append("points")
    if vl != lasio.vlrs_tok(got.vlrs):
        problems.append("vlrs")
    iev = "none" if got.evlrs is None else "some:" + lasio.vlrs_tok(got.evlrs)
    if ev != iev:
        problems.append(f"evlrs ({ev[:40]} vs {iev[:40]})")
    if int(fmt) != h.point_format.id or int(psize) != h.point_format.size or (comp == "T") != bool(h.are_points_compressed):
        problems.append("format/size/compressed")
    mf = lasio.parse_assoc(fields)
    ia = lasio.header_assoc(h)
    for k, v in ia.items():
        if k in ("header_size", "number_of_vlrs", "extra_vlr_bytes", "extra_header_bytes"):
            continue
        if k in mf and mf[k] != v and not (k.startswith("number_of_points_by_return") and h.version.minor < 4 and int(k[27:-1]) >= 5):
            problems.append(f"field {k}: {mf[k]} vs {v}")
    if problems:
        bad(f"{tag} of a compressed file", desc, "; ".join(problems)[:150], "see left")


def run_session_both(sess, compress, backend):
    """a C04 writer session (chunks incl. empty / foreign-format ones, write_evlrs, close at any position) on a
    compressing or plain LasWriter: outcomes per op and the final bytes"""
    import laspy
    bio = io.BytesIO()
    try:
        w = laspy.LasWriter(bio, sess["header"], do_compress=compress, closefd=False, **(kw(backend) if compress else {}))
    except Exception as ex:  # noqa
        return ["open-err:" + common.exc_kind(ex)], None
    outs = []
    for op, sh in zip(sess["ops"], sess.get("shapes") or [None] * len(sess["ops"])):
        try:
            if op[0] == "P":
                rec, backing, _ = shaped(op[1], sh or "plain")
                w.write_points(rec)
                scribble(backing)
            elif op[0] == "E":
                w.write_evlrs(op[1])
            else:
                w.close()
            outs.append("ok")
        except Exception as ex:  # noqa
            outs.append("err:" + common.exc_kind(ex))
    return outs, bio.getvalue()


def mixed_append(rng, raw, h, backend, chunks, shapes=None):
    """a C06 append session: same-format records, scale-aware records with other scales/offsets, foreign formats"""
    import laspy
    bio = io.BytesIO(raw)
    outs = []
    with laspy.open(bio, mode="a", closefd=False, **kw(backend)) as a:
        for c, sh in zip(chunks, shapes or ["plain"] * len(chunks)):
            try:
                rec, backing, _ = shaped(c, sh)
                a.append_points(rec)
                scribble(backing)
                outs.append("ok")
            except Exception as ex:  # noqa
                outs.append("err:" + common.exc_kind(ex))
    return outs, bio.getvalue()


def gen_mixed_chunks(rng, h, cs):
    import laspy
    out = []
    for _ in range(rng.randrange(1, 4)):
        r = rng.random()
        if r < 0.5:
            out.append(lasio.rand_points(rng, h, rng.choice([0, 1, cs, cs + 1])))
        elif r < 0.8:
            rec0 = lasio.rand_points(rng, h, rng.choice([1, 2, cs + 1]), pattern="small")
            sc = np.array(h.scales) * rng.choice([1.0, 10.0, 0.5])
            of = np.array(h.offsets) + rng.choice([0.0, 1.0, -2.5])
            out.append(laspy.ScaleAwarePointRecord(rec0.array, rec0.point_format, sc, of))
        else:
            out.append(sessions.wrong_format_points(rng, h, rng.choice([0, 1, 2])))
    return out


# ---------------------------------------------------------------------------------
# search: the property stated on the implementation
# ---------------------------------------------------------------------------------
def py_rule(dc, is_path, suffix, backend_given):
    if dc is not None:
        return bool(dc)
    if is_path:
        return suffix.lower() == ".laz"
    return backend_given


def search(ctx, seeds):
    import laspy
    failing, seen = [], set()

    def add(kind, inp, why):
        if kind not in seen:
            seen.add(kind)
            failing.append({"kind": kind, "input": inp, "observed": str(why)[:300]})

    # (a) the decision rule, the compressed bit, exactly one LasZip record
    for canon, cmd, obs, nlz, suffix, is_path in decisions(ctx):
        route, kind, nm, dc, bname = canon
        inp = {"route": route, "dest": kind, "name": nm, "do_compress": dc, "backend": bname}
        if obs.startswith("raised"):
            add("write refused: " + obs, inp, obs)
            continue
        # LasData.write's path form documents no do_compress ("will be ignored"): it is the rule with do_compress=None
        eff_dc = None if (route == "lasdata" and is_path) else dc
        want = py_rule(eff_dc, is_path, suffix, bname != "none")
        if (obs == "T") != want:
            add(f"compress decision: {route}/{kind}/{'explicit' if dc is not None else 'implicit'}", inp,
                f"compressed={obs == 'T'} but the rule (explicit do_compress, else .laz case-insensitively for a path, else backend given) says {want}")
        if nlz != (1 if obs == "T" else 0):
            add("LasZip records in the written file", inp, f"{nlz} LasZip record(s) in a file whose compressed bit is {obs}")
    from laspy._compression import format as cf
    for f in range(64):
        c = cf.uncompressed_id_to_compressed(f)
        if not cf.is_point_format_compressed(c) or cf.compressed_id_to_uncompressed(c) != f or cf.is_point_format_compressed(f):
            add("compressed bit", {"id": f}, f"to_compressed={c}, is_compressed={cf.is_point_format_compressed(c)}, back={cf.compressed_id_to_uncompressed(c)}")

    # (b) VLR-list histories: counts of LasZip records
    for hh in histories(ctx):
        ops_seen = []
        lazy = False
        for t, st, ds_ in zip(hh["toks"], hh["states"], hh["desc"]):
            ops_seen.append(ds_)
            if st.startswith("raised"):
                add("VLR history raised", {"history": list(ops_seen)}, st)
                break
            held, _, filev = st.partition(";")
            nh = sum(is_lz(v) for v in lasio.parse_vlrs(held))
            nf = sum(is_lz(v) for v in lasio.parse_vlrs(filev)) if filev != "-" else 0
            if t[0] == "W":
                c = t[1] == "T"
                if nf != (1 if c else 0):
                    add("LasZip record " + ("duplicated/missing in a compressed copy" if c else "leaked into an uncompressed copy"),
                        {"history": list(ops_seen)}, f"{nf} LasZip record(s) in the file written by the last step")
            if t[0] == "O":
                lazy = True
            if t[0] == "T":
                lazy = False
                if nh:
                    add("LasZip record shown after reading", {"history": list(ops_seen)}, f"{nh} LasZip record(s) in the header's VLR list")
            if t[0] == "O" and nh:
                # allowed only while the point source of a non-empty compressed file does not exist yet
                raw = hh.get("last")
        # user's own records are never lost
    # (c) LAZ vs LAS of the same data
    rng = ctx.rng
    for d in datasets(ctx):
        desc = d["desc"]
        if "error" in d:
            add("compressed write failed" if "error_las" not in d else "chunked write failed", desc, d["error"])
            continue
        fake_lazrs.CHUNK_SIZE = d["cs"]
        h = d["h"]
        bname, bk, btok = d["backend"]
        laz, las_raw = d["laz_chunked"], d["las"]
        if d["las_chunked"] != las_raw:
            add("chunked uncompressed write differs from one-shot", desc, where_differs("ok " + common.hexb(d["las_chunked"]), las_raw))
        # the file itself
        if not fmt_byte(laz) & 0x80 or fmt_byte(laz) & 0x40 or (fmt_byte(laz) & 0x3F) != h.point_format.id:
            add("point-format byte of a compressed file", desc, f"byte 104 = {fmt_byte(laz):#x}")
        nl = sum(is_lz(t) for t in raw_vlrs(laz))
        if nl != 1:
            add("LasZip records in a compressed file", desc, f"{nl} LasZip record(s)")
        if d["laz_oneshot"] != laz:
            add("chunked compressed write differs from one-shot", desc, where_differs("ok " + common.hexb(laz), d["laz_oneshot"]))
        try:
            ref = read_summary(laspy.read(io.BytesIO(las_raw)))
        except Exception as ex:  # noqa
            continue
        # whole-file reads, every backend selection (the LasData objects are kept and looked at again at the end)
        alive = []
        for bn, bsel, _ in backend_choices():
            try:
                obj = laspy.read(io.BytesIO(laz), **kw(bsel))
                got = read_summary(obj)
                alive.append((bn, obj, got))
            except Exception as ex:  # noqa
                add(f"compressed read failed ({bn})", desc, f"{type(ex).__name__}: {ex}")
                continue
            dk = diff_keys(ref, got)
            if dk:
                add("compressed read differs from uncompressed: " + ",".join(dk), {**desc, "read_backend": bn}, {k: (str(ref[k])[:60], str(got[k])[:60]) for k in dk[:3]})
            if any(is_lz(v) for v in got["vlrs"]):
                add("LasZip record shown after reading", desc, "laspy.read(...).vlrs holds the LasZip record")
        # non-seekable: a list whose first entry cannot construct must fall back; EVLRs come from behind the chunk table
        for bn, bsel, tok in backend_choices():
            if "S" not in tok:
                continue
            try:
                got = read_summary(laspy.read(NonSeekable(laz), closefd=False, **kw(bsel)))
            except Exception as ex:  # noqa
                if desc["points"] == 0 and desc["evlrs"] > 0:
                    add(KNOWN_EMPTY_NS, {**desc, "read_backend": bn}, f"{type(ex).__name__}: {ex}")
                else:
                    add(f"non-seekable compressed read failed ({bn})", desc, f"{type(ex).__name__}: {ex}")
                continue
            dk = diff_keys(ref, got)
            if dk:
                add("non-seekable compressed read differs: " + ",".join(dk), {**desc, "read_backend": bn}, {k: (str(ref[k])[:60], str(got[k])[:60]) for k in dk[:3]})
        # chunked reading and seek-and-read through the public reader: same history on both files
        n = desc["points"]
        ops = gen_ops(rng, n, d["cs"]) + [("R", -1)]
        ops = [(o, (v if v >= 0 else 10 ** 6)) for o, v in ops]
        try:
            a = run_reader(laz, bk, ops)
            b = run_reader(las_raw, None, ops)
            if a != b:
                k = next((j for j, (x, y) in enumerate(zip(a, b)) if x != y), 0)
                add("reader history differs between compressed and uncompressed", {**desc, "ops": ops[:k + 1]},
                    f"step {k}: {str(a[k])[:60]} vs {str(b[k])[:60]}")
        except Exception as ex:  # noqa
            add("reader history failed", {**desc, "ops": ops}, f"{type(ex).__name__}: {ex}")
        try:
            with laspy.open(io.BytesIO(laz), **kw(bk)) as r:
                acc = b"".join(lasio.rec_bytes(c) for c in r.chunk_iterator(rng.choice([1, d["cs"], d["cs"] + 1, 7])))
            if acc != ref["points"]:
                add("chunk iterator over a compressed file", desc, f"{len(acc)} bytes vs {len(ref['points'])}")
        except Exception as ex:  # noqa
            add("chunk iterator over a compressed file failed", desc, f"{type(ex).__name__}: {ex}")
        # kept pieces: the same history on both files, every piece kept alive until after the reader is closed
        psize = h.point_format.size
        for seekable in ((True, False) if rng.random() < 0.5 else (True,)):
            if not seekable and desc["points"] == 0 and desc["evlrs"] > 0:
                continue    # the open known finding (reported above under its own kind)
            kbk = bk if (seekable or "S" in btok) else B().Lazrs
            kops = gen_keep_ops(rng, n, d["cs"], seekable)
            kin = {**desc, "seekable_source": seekable, "ops": kops}
            ctx.case(("keep", laz, seekable, tuple(kops)), nontrivial=n > 0)
            ctx.count("kept-pieces history" + ("" if seekable else " (non-seekable)"))
            for o in kops:
                ctx.count("kept-pieces op:" + o[0])
            try:
                ka = run_keep(laz, kbk, kops, seekable)
                kb = run_keep(las_raw, None, kops, seekable)
            except Exception as ex:  # noqa
                add("kept-pieces history failed", kin, f"{type(ex).__name__}: {ex}")
                continue
            exp = expected_pieces(ref["points"], psize, n, kops)
            for side, kr in (("compressed", ka), ("uncompressed", kb)):
                if kr["changed"]:
                    c0 = kr["changed"][0]
                    upto = c0["changed_by_op"] + 1 if isinstance(c0["changed_by_op"], int) else len(kops)
                    add(f"a piece handed out by the reader of a {side} file changed under a later reader operation",
                        {**kin, "ops": kops[:upto], "closed_after": c0["changed_by_op"] == "close"}, c0)
                elif kr["snaps"] != exp:
                    k = next((j for j, (x, y) in enumerate(zip(kr["snaps"], exp)) if x != y), min(len(exp), len(kr["snaps"])))
                    add(f"a piece handed out by the reader of a {side} file is not the slice of the file's records", kin,
                        f"piece {k} of {len(kr['snaps'])} (expected {len(exp)} pieces), handed out by op {kr['piece_ops'][k] if k < len(kr['piece_ops']) else '-'}")
            if ka["outs"] != kb["outs"]:
                k = next((j for j, (x, y) in enumerate(zip(ka["outs"], kb["outs"])) if x != y), 0)
                add("kept-pieces history: outcomes differ between compressed and uncompressed", {**kin, "ops": kops[:k + 1]},
                    f"step {k}: {str(ka['outs'][k])[:80]} vs {str(kb['outs'][k])[:80]}")
            elif ka["finals"] != kb["finals"] or ka["snaps"] != kb["snaps"]:
                k = next((j for j, (x, y) in enumerate(zip(ka["finals"], kb["finals"])) if x != y), 0)
                add("kept pieces differ between compressed and uncompressed", kin,
                    f"piece {k} (handed out by op {ka['piece_ops'][k]}): {common.hexb(ka['finals'][k][:12])}.. vs {common.hexb(kb['finals'][k][:12])}..")
            for wa, wb in list(zip(ka["whole_snaps"], kb["whole_snaps"])) + list(zip(ka["whole_finals"], kb["whole_finals"])):
                dk = diff_keys(wb, wa)
                if dk:
                    add("LasData of reader.read() differs between compressed and uncompressed: " + ",".join(dk), kin,
                        {k: (str(wb[k])[:60], str(wa[k])[:60]) for k in dk[:3]})
        # append
        if "appended" in d:
            ap, apl = d["appended"], d["appended_las"]
            if isinstance(ap, Exception):
                if not isinstance(apl, Exception):
                    add("append to a compressed file failed", desc, f"{type(ap).__name__}: {ap}")
            elif not isinstance(apl, Exception):
                try:
                    ra, rb = read_summary(laspy.read(io.BytesIO(ap))), read_summary(laspy.read(io.BytesIO(apl)))
                    dk = diff_keys(rb, ra)
                    if dk:
                        add("append: compressed differs from uncompressed: " + ",".join(dk), {**desc, "appended": [len(c) for c in d["app_chunks"]]},
                            {k: (str(rb[k])[:60], str(ra[k])[:60]) for k in dk[:3]})
                    if sum(is_lz(t) for t in raw_vlrs(ap)) != 1:
                        add("LasZip records after append", desc, "not exactly one")
                    # the appended file is the file of the concatenation
                    allpts = laspy.PackedPointRecord(np.concatenate([d["pts"].array] + [c.array for c in d["app_chunks"]]), h.point_format)
                    d2 = dict(d, pts=allpts, cuts=[(0, len(allpts))])
                    whole = write_session(d2, True, False)
                    if whole != ap:
                        add("append: compressed file differs from the one-shot file of the concatenation", desc, where_differs("ok " + common.hexb(ap), whole))
                except Exception as ex:  # noqa
                    add("reading an appended compressed file failed", desc, f"{type(ex).__name__}: {ex}")
        # writing what was read again: compressed -> exactly one record, uncompressed -> none, also from a header taken early
        try:
            got = laspy.read(io.BytesIO(laz), **kw(bk))
            for comp in (True, False):
                bio = io.BytesIO()
                got.write(bio, do_compress=comp)
                k = sum(is_lz(t) for t in raw_vlrs(bio.getvalue()))
                if k != (1 if comp else 0):
                    add("LasZip record " + ("duplicated/missing in a compressed copy" if comp else "leaked into an uncompressed copy"),
                        {**desc, "route": "write of what laspy.read returned"}, f"{k} LasZip record(s)")
                back = read_summary(laspy.read(io.BytesIO(bio.getvalue())))
                dk = [x for x in diff_keys(ref, back)]
                if dk:
                    add("re-written copy differs: " + ",".join(dk), {**desc, "compressed_copy": comp}, "")
            early = laspy.open(io.BytesIO(laz), **kw(bk)).header    # before the lazy point source exists
            for comp in (True, False):
                bio = io.BytesIO()
                w = laspy.LasWriter(bio, early, do_compress=comp, closefd=False)
                if len(d["pts"]):
                    w.write_points(d["pts"])
                w.close()
                k = sum(is_lz(t) for t in raw_vlrs(bio.getvalue()))
                if k != (1 if comp else 0):
                    add("LasZip record " + ("duplicated/missing in a compressed copy" if comp else "leaked into an uncompressed copy"),
                        {**desc, "route": "header taken from a LAZ reader before its point source exists"}, f"{k} LasZip record(s)")
        except Exception as ex:  # noqa
            add("re-writing a compressed file failed", desc, f"{type(ex).__name__}: {ex}")
        for bn, obj, was in alive:
            dk = diff_keys(was, read_summary(obj))
            if dk:
                add("what laspy.read returned for a compressed file changed under later reads / writes: " + ",".join(dk),
                    {**desc, "read_backend": bn}, "the LasData was only kept by the caller")
    # (d) the writer sessions of C04 (refusals included) and the append sessions of C06 (rescaled and foreign records
    #     included), compressed against uncompressed: same outcomes, same read-back
    for _ in range(ctx.n(60, 600)):
        cs = rng.choice(CS_CHOICES)
        fake_lazrs.CHUNK_SIZE = cs
        sess = sessions.gen_writer_session(rng, ctx.thorough())
        sess["shapes"] = [(shaped(o[1], rng.choice(SHAPES))[2] if o[0] == "P" else None) for o in sess["ops"]]
        bk = rng.choice(backend_choices())
        oz, rz_ = run_session_both(sess, True, bk[1])
        ou, ru_ = run_session_both(sess, False, None)
        sd = {"chunk_size": cs, "version": str(sess["header"].version), "format": sess["header"].point_format.id, "backend": bk[0],
              "ops": [(o[0] + (str(len(o[1])) + ("" if o[0] != "P" or o[2] else "!fmt")) if o[0] != "C" else "C") for o in sess["ops"]],
              "shapes": sess["shapes"]}
        ctx.case(("wsession", repr(sd)), nontrivial=True)
        ctx.count("writer-session(C04)")
        for o in oz:
            ctx.count("writer-session-outcome:" + o)
        if oz != ou:
            add("writer session outcomes differ between compressed and uncompressed", sd, f"{oz} vs {ou}")
        elif rz_ is not None and ru_ is not None and oz and oz[-1] == "ok":
            try:
                a, b = read_summary(laspy.read(io.BytesIO(rz_))), read_summary(laspy.read(io.BytesIO(ru_)))
                dk = diff_keys(b, a)
                if dk:
                    add("writer session read-back differs: " + ",".join(dk), sd, {k: (str(b[k])[:60], str(a[k])[:60]) for k in dk[:3]})
            except Exception as ex:  # noqa
                add("writer session read-back failed", sd, f"{type(ex).__name__}: {ex}")
    for d in datasets(ctx)[:ctx.n(60, 600)]:
        if "error" in d:
            continue
        fake_lazrs.CHUNK_SIZE = d["cs"]
        chunks = gen_mixed_chunks(rng, d["h"], d["cs"])
        mshapes = pick_shapes(rng, chunks)
        sd = {**d["desc"], "appended": [f"{type(c).__name__[:5]}{len(c)}" for c in chunks], "appended_shapes": mshapes}
        ctx.case(("mixed-append", repr(sd)), nontrivial=True)
        ctx.count("append-session(C06 mix)")
        try:
            oz, rz_ = mixed_append(rng, d["laz_chunked"], d["h"], d["backend"][1], chunks, mshapes)
            ou, ru_ = mixed_append(rng, d["las"], d["h"], None, chunks, mshapes)
        except Exception as ex:  # noqa
            add("mixed append session failed", sd, f"{type(ex).__name__}: {ex}")
            continue
        for o in oz:
            ctx.count("mixed-append-outcome:" + o)
        if oz != ou:
            add("append outcomes differ between compressed and uncompressed", sd, f"{oz} vs {ou}")
            continue
        try:
            a, b = read_summary(laspy.read(io.BytesIO(rz_))), read_summary(laspy.read(io.BytesIO(ru_)))
            dk = diff_keys(b, a)
            if dk:
                add("mixed append read-back differs: " + ",".join(dk), sd, {k: (str(b[k])[:60], str(a[k])[:60]) for k in dk[:3]})
        except Exception as ex:  # noqa
            add("mixed append read-back failed", sd, f"{type(ex).__name__}: {ex}")
    return failing[:10]


def replay(ctx, data):
    fi = data.get("failing_input", data)
    inp = fi.get("input", {}) if isinstance(fi, dict) else {}
    if isinstance(inp, dict) and "ops" in inp and "seekable_source" in inp:
        # a kept-pieces history: it does not depend on the particular records, a file of the described size is enough
        import laspy
        rng = ctx.rng
        fake_lazrs.CHUNK_SIZE = int(inp.get("chunk_size", 3))
        h = laspy.LasHeader(version=inp.get("version", "1.2"), point_format=int(inp.get("format", 0)))
        n = int(inp.get("points", 0))
        pts = lasio.rand_points(rng, h, n, pattern="random")
        d = {"h": h, "pts": pts, "evl": [], "cuts": [(0, n)], "backend": ("serial", B().Lazrs, "S")}
        laz, las_raw = write_session(d, True, False), write_session(d, False, False)
        ops = [tuple(o) for o in inp["ops"]]
        bk = {n_: b_ for n_, b_, _ in backend_choices()}.get(inp.get("backend"), None)
        if not inp["seekable_source"] and inp.get("backend") == "parallel":
            bk = B().Lazrs
        ka, kb = run_keep(laz, bk, ops, inp["seekable_source"]), run_keep(las_raw, None, ops, inp["seekable_source"])
        exp = expected_pieces(lasio.rec_bytes(pts), h.point_format.size, n, ops)
        bad = bool(ka["changed"] or kb["changed"] or ka["outs"] != kb["outs"] or ka["finals"] != kb["finals"] or ka["snaps"] != exp
                   or ka["whole_finals"] != kb["whole_finals"])
        print(f"replay of a kept-pieces history on a fresh {n}-point file of format {h.point_format.id} (chunk size {fake_lazrs.CHUNK_SIZE}): ops={ops}")
        print("  pieces changed under later operations (compressed):", ka["changed"][:2])
        print("  pieces changed under later operations (uncompressed):", kb["changed"][:2])
        print("  pieces at the end equal between the files:", ka["finals"] == kb["finals"], "| equal to the slices when handed out:", ka["snaps"] == exp)
        print("REPRODUCED" if bad else "not reproduced on this source tree")
        return 1 if bad else 0
    print("replay: re-run ./check C14 with the same VERIF_SEED; the failing input is described in the file:")
    print(str(fi)[:600])
    return 0
