"""C14 - compression is transparent for any conforming LAZ backend.

Model: Model/Laz.v - the compress decision (translated from LasWriter.__init__, open_las, LasData.write), the compressed bit,
the LasZip-record discipline over VLR lists, the layout of compressed files (header / VLR / EVLR codec of Model/Las.v around the
backend's payload), readers (seekable, non-seekable), cursor steps, appender - over an ABSTRACT backend; the theorems
(Props/C14.v) hold for every backend that honours the contract `conforming`.
Tie: harness/fake_lazrs is installed as `lazrs` (this process only), which makes laspy's LAZ glue executable; the model driver
(ocaml/c14/driver.ml) instantiates the backend with the same on-disk format, so whole compressed files are compared byte for byte.
Correspondence: decisions over destinations x do_compress x backends x extensions; the 256 format ids; VLR-list histories
(write / open / touch / user edits); bytes of chunked and one-shot compressed writes; seekable and non-seekable reads; point-source
cursor histories; append sessions; selective reads (the stand-in backend is made to HONOUR the decompression selection it is
handed for formats 6-10, as lazrs does: what is not selected comes back as zeros) against Model/LazSelect.v; the values of the Flag
class DecompressionSelection; compressed files written with encoding_errors / non-ASCII header strings.
Search (implementation only): LAZ vs LAS of the same data through every route of the property, every optional parameter of the
readers (decompression_selection in every form) and of the writers / appenders (encoding_errors, closefd, laz_backend forms).
The FORMS of laz_backend (absent, enum member, a backend OBJECT that is not an enum member, list / tuple / set, iterator, generator)
are swept completely over every entry point that takes the argument (form_cases / form_verdict), compressed against uncompressed
of the same data; the stand-in logs which backend variants the glue constructs (VARIANT_LOG) and the model (Model/LazForm.v over
gen_*_backends of Gen/GenC14.v) says which ones the normalised selection visits."""
import inspect
import io
import os
import random
import shutil
import struct
import tempfile

import numpy as np

from harness import fake_lazrs

fake_lazrs.install()

from harness import common, lasio, sessions  # noqa: E402

DRIVER = "c14"
ASSUMPTIONS = [
    "the LAZ backend honours the contract `conforming` of coq/Model/Laz.v (dec(enc rs) = rs from any position, chunked feeding = "
    "one-shot feeding, seek i then read = skipn i, the appender continues a stream, the destination ends where the stream ends, "
    "the serial variant constructs on any source and the parallel one on seekable sources); harness/fake_lazrs is one executable "
    "witness, the real lazrs/laszip codecs are not installed and not modelled",
    "a backend's stream may hold absolute file offsets (the chunk table offset): the model treats the backend as specialised to the "
    "data offset of the file at hand, which is the same for every file a single theorem speaks about",
    "the path suffix is taken from os.path.splitext / pathlib.Path.suffix (library code), its lower-casing is ASCII in the model",
    "the default backend selection is the one of an installation with lazrs and without laszip: both lazrs variants, the parallel one "
    "first (gen_default_backends, read from _DEFAULT_BACKENDS / the LazBackend enum); a selection names backends whose is_available() holds",
    "VLR lists handed to the writer hold no record with the LasZip ids that is not a LasZipVlr object (what the reader produces)",
    "x -> x*scale+offset is monotone in binary64 for the positive scales used (hypothesis ap_ok of the theorems)",
    "a backend honours the decompression selection it is handed as lazrs does: for point formats 6-10 a layer that was not asked for "
    "comes back as zeros (x, y, return counts and scanner channel always come back), formats 0-5 ignore the selection; the layer of "
    "every dimension is the LASzip point-14 layout (layer_table of coq/Model/LazSelect.v, byte ranges of backend_keep_mask in "
    "harness/props/c14.py, which wraps harness/fake_lazrs for this process only); the constants SELECTIVE_DECOMPRESS_* are those of lazrs",
]
KNOWN_EMPTY_NS = "empty-laz-evlrs-nonseekable"
CS_CHOICES = (1, 3, 5, 8)

_DATA = None
_TMP = None


class NonSeekable:
    """what tests/conftest.py calls NonSeekableStream: read / seekable / close only"""

    def __init__(self, data):
        self.inner = io.BytesIO(data)

    def read(self, n):
        return self.inner.read(n)

    def seekable(self):
        return False

    def close(self):
        pass


def B():
    import laspy
    return laspy.LazBackend


class Fresh:
    """a form of the laz_backend argument that is used up by one call (an iterator, a generator): made anew for every call"""

    def __init__(self, make):
        self.make = make


_OWN = {}


def own_backend(parallel):
    """a conforming backend object of the caller's own: an ILazBackend that is NOT a member of the LazBackend enum (the
    property speaks of 'any conforming LAZ backend'); it honours the contract by delegating to the lazrs glue"""
    if parallel not in _OWN:
        from laspy._compression.lazbackend import ILazBackend

        class OwnBackend(ILazBackend):
            def __init__(self, par):
                self._inner = B().LazrsParallel if par else B().Lazrs

            def __repr__(self):
                return f"OwnBackend({self._inner.name})"

            def is_available(self):
                return True

            @property
            def supports_append(self):
                return True

            def create_appender(self, dest, header):
                return self._inner.create_appender(dest, header)

            def create_reader(self, source, header, decompression_selection=None):
                return self._inner.create_reader(source, header, decompression_selection=decompression_selection)

            def create_writer(self, dest, header):
                return self._inner.create_writer(dest, header)
        _OWN[parallel] = OwnBackend(parallel)
    return _OWN[parallel]


def backend_choices():
    """(name, value, variants in the order they are tried: P = parallel, S = serial) - every FORM the argument laz_backend
    may take: absent, one enum member, one backend OBJECT that is not an enum member (an ILazBackend of the caller's own,
    laspy's own LazrsBackend instance), list / tuple / set of either or both, an iterator, a generator"""
    from laspy._compression.lazrsbackend import LazrsBackend
    b = B()
    os_, op_ = own_backend(False), own_backend(True)
    return [("none", None, "PS"), ("serial", b.Lazrs, "S"), ("parallel", b.LazrsParallel, "P"),
            ("list-ps", [b.LazrsParallel, b.Lazrs], "PS"), ("tuple-sp", (b.Lazrs, b.LazrsParallel), "SP"), ("list-s", [b.Lazrs], "S"),
            ("own-serial", os_, "S"), ("own-parallel", op_, "P"), ("lazrsbackend-serial", LazrsBackend(parallel=False), "S"),
            ("list-own-ps", [op_, os_], "PS"), ("tuple-own-enum-sp", (os_, b.LazrsParallel), "SP"), ("set-s", {b.Lazrs}, "S"),
            ("iterator-ps", Fresh(lambda: iter([b.LazrsParallel, b.Lazrs])), "PS"),
            ("generator-own-s", Fresh(lambda: (x for x in (os_,))), "S"),
            ("generator-sp", Fresh(lambda: (x for x in (b.Lazrs, op_))), "SP")]


BASE_FORMS = ("none", "serial", "parallel", "list-ps", "tuple-sp", "list-s")


def kw(backend):
    if isinstance(backend, Fresh):
        backend = backend.make()
    return {} if backend is None else {"laz_backend": backend}


# ---------------------------------------------------------------------------------
# raw views of a file (independent of laspy's reader)
# ---------------------------------------------------------------------------------
def raw_vlrs(raw):
    hs = struct.unpack_from("<H", raw, 94)[0]
    n = struct.unpack_from("<I", raw, 100)[0]
    pos, out = hs, []
    for _ in range(n):
        uid = raw[pos + 2:pos + 18].split(b"\0")[0]
        rid, ln = struct.unpack_from("<HH", raw, pos + 18)
        desc = raw[pos + 22:pos + 54].split(b"\0")[0]
        out.append((uid, rid, desc, raw[pos + 54:pos + 54 + ln]))
        pos += 54 + ln
    return out


def is_lz(t):
    return t[0] == b"laszip encoded" and t[1] == 22204


def fmt_byte(raw):
    return raw[104]


def lzdata_for(h):
    v = fake_lazrs.LazVlr.new_for_compression(h.point_format.id, h.point_format.num_extra_bytes)
    return v.record_data()


# ---------------------------------------------------------------------------------
# chunk shapes: the same records handed to a writer / appender as a fresh contiguous array, as a strided or
# reversed view into a larger array (garbage between the records), as a slice at an offset of a larger array,
# through a fancy index, or as the 0-d one-point record that points[i] yields.  The bytes a writer has to put
# into the file are rec_bytes(record) in every case; compressed destinations must treat them like plain ones.
# ---------------------------------------------------------------------------------
SHAPES = ("plain", "plain", "strided", "reversed", "strided-reversed", "offset", "fancy", "zero-d")
GARBAGE, SCRIBBLE = 0xE7, 0x5C


def shaped(rec, shape):
    """(record of the same class / content as `rec` whose array has the given memory shape, backing array, shape used)"""
    arr = np.ascontiguousarray(rec.array).reshape(-1)
    k = len(arr)

    def filled(m):
        big = np.empty(m, arr.dtype)
        big.view(np.uint8)[:] = GARBAGE
        return big
    if shape == "zero-d" and k != 1:
        shape = "strided"
    if shape == "strided":
        big = filled(2 * k + 1)
        big[1::2] = arr
        view = big[1::2]
    elif shape == "reversed":
        big = arr[::-1].copy()
        view = big[::-1]
    elif shape == "strided-reversed":
        big = filled(3 * k + 2)
        big[1::3][:k] = arr[::-1]
        view = big[1::3][:k][::-1]
    elif shape == "offset":
        big = filled(k + 3)
        big[2:2 + k] = arr
        view = big[2:2 + k]
    elif shape == "fancy":
        big = filled(k + 2)
        big[1:1 + k] = arr
        view = big[list(range(1, 1 + k))] if k else big[0:0]
    elif shape == "zero-d":
        big = arr.copy()
        view = big[0]
    else:
        big = arr.copy()
        view = big
    if hasattr(rec, "scales"):
        out = type(rec)(view, rec.point_format, rec.scales, rec.offsets)
    else:
        out = type(rec)(view, rec.point_format)
    return out, big, shape


def scribble(backing):
    """the caller reuses its buffer after the call returned: nothing written so far may change"""
    try:
        backing.view(np.uint8)[:] = SCRIBBLE
    except Exception:  # noqa
        pass


# ---------------------------------------------------------------------------------
# data sets: the input spaces of C01 / C03-C06 with counts straddling the chunk size
# ---------------------------------------------------------------------------------
def make_data(rng):
    import laspy
    cs = rng.choice(CS_CHOICES)
    h = lasio.rand_header(rng, version=("1.4" if rng.random() < 0.4 else None))
    if rng.random() < 0.3:
        lasio.add_extra_dims(rng, h)
    n = rng.choice([0, 0, 1, max(cs - 1, 0), cs, cs + 1, 2 * cs, 2 * cs + 1, 3 * cs + 2])
    pts = lasio.rand_points(rng, h, n)
    evl = []
    if h.version.minor >= 4 and rng.random() < 0.6:
        evl = [lasio.rand_vlr(rng, 120) for _ in range(rng.choice([1, 2]))]
    # a partition of the points into chunks (empty ones included)
    cuts, pos = [], 0
    while pos < n:
        k = rng.choice([0, 1, 1, cs, cs + 1, n - pos])
        k = min(k, n - pos)
        cuts.append((pos, pos + k))
        pos += k
    if rng.random() < 0.3:
        cuts.insert(rng.randrange(len(cuts) + 1), (pos, pos))
    bsel = rng.choice(backend_choices())
    shapes = [rng.choice(SHAPES) for _ in cuts]
    shapes = [("strided" if (sh == "zero-d" and b - a != 1) else sh) for sh, (a, b) in zip(shapes, cuts)]
    return {"cs": cs, "h": h, "pts": pts, "evl": evl, "cuts": cuts, "shapes": shapes, "backend": bsel,
            "desc": {"chunk_size": cs, "version": str(h.version), "format": h.point_format.id, "points": n, "vlrs": len(h.vlrs),
                     "evlrs": len(evl), "extra_dims": len(list(h.point_format.extra_dimensions)),
                     "chunks": [b - a for a, b in cuts], "chunk_shapes": shapes, "backend": bsel[0]}}


def write_session(d, compress, chunked=True, backend="own"):
    """bytes a LasWriter session produces for the data set"""
    import laspy
    bk = d["backend"][1] if backend == "own" else backend
    bio = io.BytesIO()
    w = laspy.LasWriter(bio, d["h"], do_compress=compress, closefd=False, **(kw(bk) if compress else {}))
    if chunked:
        for (a, b), sh in zip(d["cuts"], d.get("shapes") or ["plain"] * len(d["cuts"])):
            rec, backing, _ = shaped(d["pts"][a:b], sh)
            w.write_points(rec)
            scribble(backing)      # the caller's buffer is reused right after the call
    elif len(d["pts"]):
        w.write_points(d["pts"])
    if d["evl"]:
        w.write_evlrs(laspy.vlrs.vlrlist.VLRList(list(d["evl"])))
    w.close()
    return bio.getvalue()


def datasets(ctx):
    global _DATA
    if _DATA is None:
        _DATA = []
        for _ in range(ctx.n(110, 1200)):
            d = make_data(ctx.rng)
            fake_lazrs.CHUNK_SIZE = d["cs"]
            try:
                d["las"] = write_session(d, False, False)
                d["las_chunked"] = write_session(d, False, True)
            except Exception as ex:  # noqa
                d["error_las"] = f"{type(ex).__name__}: {ex}"
            try:
                d["laz_chunked"] = write_session(d, True, True)
                d["laz_oneshot"] = write_session(d, True, False)
            except Exception as ex:  # noqa
                d["error"] = f"{type(ex).__name__}: {ex}"
            if "error_las" in d and "error" not in d:
                d["error"] = "the uncompressed session failed: " + d["error_las"]
            _DATA.append(d)
    return _DATA


def read_summary(las):
    """what the property compares of a read: records, counts and statistics (as bit patterns), VLRs, EVLRs"""
    h = las.header
    return {"points": lasio.rec_bytes(las.points), "count": int(h.point_count), "format": lasio.format_key(h.point_format),
            "maxs": [lasio.f64bits(x) for x in h.maxs], "mins": [lasio.f64bits(x) for x in h.mins],
            "scales": [lasio.f64bits(x) for x in h.scales], "offsets": [lasio.f64bits(x) for x in h.offsets],
            "returns": [int(x) for x in h.number_of_points_by_return],
            "vlrs": [lasio.vlr_tuple(v) for v in las.vlrs],
            "evlrs": None if las.evlrs is None else [lasio.vlr_tuple(v) for v in las.evlrs],
            "version": str(h.version), "uuid": h.uuid.bytes_le, "sysid": h.system_identifier, "software": h.generating_software,
            "source_id": h.file_source_id, "genc": h.global_encoding.value, "date": str(h.creation_date),
            "extra_hdr": bytes(h.extra_header_bytes)}


def diff_keys(a, b):
    return [k for k in a if a[k] != b.get(k)]


def show_diff(a, b, keys):
    """the differing entries of two read summaries, byte strings by the place of their first difference"""
    out = {}
    for k in keys[:3]:
        x, y = a.get(k), b.get(k)
        if isinstance(x, (bytes, bytearray)) and isinstance(y, (bytes, bytearray)):
            j = next((i for i, (p, q) in enumerate(zip(x, y)) if p != q), min(len(x), len(y)))
            out[k] = f"{len(x)} vs {len(y)} bytes, first difference at byte {j}: {x[j:j + 8].hex()} vs {y[j:j + 8].hex()}"
        else:
            out[k] = (str(x)[:60], str(y)[:60])
    return out


# ---------------------------------------------------------------------------------
# decisions
# ---------------------------------------------------------------------------------
NAMES = ["a.las", "a.laz", "a.LAZ", "a.LaZ", "a.lAz", "a.laz.las", "a.las.laz", "a", "a.lazx", "a.la", ".laz", "a.LAS", "laz",
         "a.laż", "a.ＬＡＺ", "dir.laz/b.las", "dir.las/b.LAz"]


def tiny_las(rng):
    import laspy
    h = laspy.LasHeader(point_format=rng.choice([0, 3, 6]), version="1.4")
    las = laspy.LasData(h)
    las.points = laspy.ScaleAwarePointRecord.zeros(3, header=h)
    las.X = [1, 2, 3]
    return las


def decision_cases(ctx):
    """every route x destination kind x do_compress x backend selection; returns (canon, model command, observed compressed?)"""
    import laspy
    global _TMP
    rng = ctx.rng
    _TMP = tempfile.mkdtemp(prefix="verif_c14_", dir="/var/tmp")
    os.makedirs(os.path.join(_TMP, "dir.laz"), exist_ok=True)
    os.makedirs(os.path.join(_TMP, "dir.las"), exist_ok=True)
    out = []
    b = B()
    base = [("none", None), ("serial", b.Lazrs), ("list", [b.LazrsParallel, b.Lazrs])]
    others = [(nm, bk) for nm, bk, _ in backend_choices() if nm not in ("none", "serial", "list-ps")]
    for route in ("open", "lasdata", "writer"):
        dests = [("path", nm) for nm in NAMES] + [("pathlib", nm) for nm in NAMES[:6]] + [("stream", None), ("file", "f.laz"), ("file", "f.las")]
        if route == "writer":
            dests = [("stream", None), ("file", "f.laz")]
        for kind, nm in dests:
            for dc in (None, True, False):
                # every form of the argument decides like "a backend was given": the three usual ones everywhere, two more of
                # the other forms (bare own object, set, iterator, generator ...) per destination
                for bname, bk in base + rng.sample(others, 2):
                    las = tiny_las(rng)
                    path = os.path.join(_TMP, nm) if nm else None
                    is_path = kind in ("path", "pathlib")
                    suffix = os.path.splitext(nm)[1] if is_path else ""
                    try:
                        if kind == "stream":
                            dest = io.BytesIO()
                        elif kind == "file":
                            dest = open(path, "wb+")
                        elif kind == "pathlib":
                            import pathlib
                            dest = pathlib.Path(path)
                        else:
                            dest = path
                        if route == "open":
                            with laspy.open(dest, mode="w", header=las.header, do_compress=dc, closefd=is_path, **kw(bk)) as w:
                                w.write_points(las.points)
                        elif route == "lasdata":
                            las.write(dest, do_compress=dc, **kw(bk))
                        else:
                            w = laspy.LasWriter(dest, las.header, do_compress=dc, closefd=False, **kw(bk))
                            w.write_points(las.points)
                            w.close()
                        if kind == "stream":
                            raw = dest.getvalue()
                        else:
                            if kind == "file":
                                dest.close()
                            with open(path, "rb") as f:
                                raw = f.read()
                        obs = "T" if fmt_byte(raw) & 0x80 else "F"
                        nlz = sum(is_lz(t) for t in raw_vlrs(raw))
                    except Exception as ex:  # noqa
                        obs, nlz = "raised:" + common.exc_kind(ex), -1
                    canon = (route, kind, nm, dc, bname)
                    codes = common.zl([ord(c) for c in suffix])
                    cmd = f"decide {route} {'T' if is_path else 'F'} F {codes} {'N' if dc is None else ('T' if dc else 'F')} {'F' if bk is None else 'T'}"
                    out.append((canon, cmd, obs, nlz, suffix, is_path))
    shutil.rmtree(_TMP, ignore_errors=True)
    return out


_DEC = None


def decisions(ctx):
    global _DEC
    if _DEC is None:
        fake_lazrs.CHUNK_SIZE = 2
        _DEC = decision_cases(ctx)
    return _DEC


# ---------------------------------------------------------------------------------
# VLR-list histories
# ---------------------------------------------------------------------------------
def vlr_histories(ctx):
    """random histories of write / open / touch / user edits on laspy; returns per history (init vlrs, op tokens, observed states)"""
    import laspy
    rng = ctx.rng
    out = []
    fake_lazrs.CHUNK_SIZE = 2
    for _ in range(ctx.n(70, 600)):
        h = lasio.rand_header(rng, version=rng.choice(["1.2", "1.4"]), nvlrs=rng.choice([0, 1, 2]))
        lz = lzdata_for(h)
        held = h                      # the header object the user holds
        reader = None
        last = None                   # bytes of the last file written
        toks, states, desc = [], [], []
        init = lasio.vlrs_tok(h.vlrs)
        for _ in range(rng.randrange(1, 8)):
            r = rng.random()
            try:
                if r < 0.45 or last is None:
                    c = rng.random() < 0.6
                    n = rng.choice([0, 0, 1, 3])
                    bio = io.BytesIO()
                    w = laspy.LasWriter(bio, held, do_compress=c, closefd=False)
                    pts = lasio.rand_points(rng, held, n)
                    if n:
                        w.write_points(pts)
                    w.close()
                    last = bio.getvalue()
                    toks.append(f"W{'T' if c else 'F'}:{n}:{common.hexb(lz)}")
                    desc.append(f"write({'laz' if c else 'las'},{n})")
                elif r < 0.7:
                    reader = laspy.open(io.BytesIO(last))
                    held = reader.header
                    toks.append("O")
                    desc.append("open")
                elif r < 0.88:
                    if reader is None:
                        continue
                    if rng.random() < 0.5:
                        reader.read_points(1)
                    else:
                        reader.read()
                    toks.append("T")
                    desc.append("touch")
                else:
                    v = lasio.rand_vlr(rng, 20)
                    held.vlrs.append(v)
                    toks.append("A" + lasio.vlrs_tok([v]))
                    desc.append("add")
            except Exception as ex:  # noqa
                states.append("raised:" + type(ex).__name__ + ":" + str(ex)[:60])
                break
            states.append(lasio.vlrs_tok(held.vlrs) + ";" + (lasio.vlrs_tok(raw_vlrs(last)) if last is not None else "-"))
        out.append({"init": init, "toks": toks[:len(states)], "states": states, "desc": desc[:len(states)],
                    "last": last, "held": held})
    return out


_HIST = None


def histories(ctx):
    global _HIST
    if _HIST is None:
        _HIST = vlr_histories(ctx)
    return _HIST


# ---------------------------------------------------------------------------------
# reader / cursor / appender runs on the implementation
# ---------------------------------------------------------------------------------
def gen_ops(rng, n, cs):
    """in-range point-source histories: ('R', k) read k records, ('S', i) seek to record i"""
    ops, c, last = [], 0, None
    for _ in range(rng.randrange(1, 9)):
        if rng.random() < 0.65:
            k = rng.choice([0, 1, cs, cs + 1, n - c, rng.randrange(0, n - c + 1)])
            if last is not None and rng.random() < 0.35:
                k = last              # the same size again: a reader that recycles its buffers would hand out the same one
            k = max(0, min(k, n - c))
            last = k
            ops.append(("R", k))
            c += k
        elif n:
            i = rng.choice([0, n - 1, cs - 1 if cs - 1 < n else 0, cs if cs < n else 0, rng.randrange(n)])
            ops.append(("S", i))
            c = i
    return ops


def run_point_source(raw, backend, ops):
    """outputs of a point-source history, as they are when handed out and - every buffer kept alive - as they are
    after the whole history (the model's outputs are values: both must be what the model says)"""
    import laspy
    r = laspy.open(io.BytesIO(raw), **kw(backend))
    src = r.point_source
    outs, kept = [], []
    for op, v in ops:
        try:
            if op == "R":
                buf = src.read_n_points(v)
                kept.append((len(outs), buf))
                outs.append("o" + common.hexb(bytes(buf)))
            else:
                src.seek(v)
                outs.append("ox")
        except Exception as ex:  # noqa
            outs.append("e" + common.exc_kind(ex))
    finals = list(outs)
    for j, buf in kept:
        finals[j] = "o" + common.hexb(bytes(buf))
    return outs, finals


def run_reader(raw, backend, ops):
    """the same history through the public LasReader (read_points / seek)"""
    import laspy
    outs = []
    with laspy.open(io.BytesIO(raw), **kw(backend)) as r:
        for op, v in ops:
            try:
                if op == "R":
                    outs.append(lasio.rec_bytes(r.read_points(v)))
                else:
                    outs.append(("seek", r.seek(v)))
            except Exception as ex:  # noqa
                outs.append("err:" + common.exc_kind(ex))
        outs.append(("vlrs", [lasio.vlr_tuple(v) for v in r.header.vlrs]))
    return outs


# ---------------------------------------------------------------------------------
# kept pieces: everything a reader hands out (read_points results, the chunks of an iterator, the LasData of read())
# stays what it was when handed out, whatever the reader is asked to do later - and a caller writing into a piece it
# was given does not change what the reader returns later
# ---------------------------------------------------------------------------------
def gen_keep_ops(rng, n, cs, seekable=True):
    """('R', k) read_points(k), k<0 = the rest | ('S', i) seek(i) | ('I', k, m) m chunks (None = all) of chunk_iterator(k)
    | ('A',) read() | ('W', j) the caller overwrites kept piece j"""
    ops = []
    ks = [rng.choice([1, 1, 2, cs, cs + 1, max(1, n // 2)])]
    ks += [ks[0], ks[0], rng.choice([0, 1, cs, cs + 1, n, 7])]
    for _ in range(rng.randrange(2, 10)):
        r = rng.random()
        if r < 0.42:
            ops.append(("R", rng.choice(ks + [-1] if rng.random() < 0.15 else ks)))
        elif r < 0.62:
            if seekable:
                ops.append(("S", rng.choice([0, 0, n - 1, cs, cs - 1, rng.randrange(-1, n + 2)])))
        elif r < 0.78:
            ops.append(("I", max(1, rng.choice(ks)), rng.choice([None, 1, 2, 3])))
        elif r < 0.88:
            ops.append(("A",))
        else:
            ops.append(("W", rng.randrange(0, 6)))
    # the header's VLR list is looked at after the history: the LasZip record may be visible only while the lazy point
    # source of a non-empty compressed file does not exist yet, so the history ends by touching it
    ops.append(("R", 0))
    return ops


def _scribble_rec(rec):
    """True when the caller could write into the piece"""
    arr = rec.array
    if arr.size == 0:
        return False
    try:
        arr.view(np.uint8)[...] = SCRIBBLE
        return True
    except Exception:  # noqa
        return False


def run_keep(raw, backend, ops, seekable=True):
    """runs the history through the public LasReader keeping every piece; returns the outcomes per op, per piece the
    bytes at hand-out and at the end (after the reader was closed), the pieces seen to change under a later operation,
    and the summaries of the LasData objects at hand-out and at the end"""
    import laspy
    src = io.BytesIO(raw) if seekable else NonSeekable(raw)
    outs, kept, whole, changed = [], [], [], []
    r = laspy.open(src, closefd=True, **kw(backend))

    def keep(rec, i):
        b = lasio.rec_bytes(rec)
        kept.append({"obj": rec, "snap": b, "expect": b, "op": i, "scribbled": False})

    def check(after):
        for j, p in enumerate(kept):
            cur = lasio.rec_bytes(p["obj"])
            if cur != p["expect"]:
                changed.append({"piece": j, "handed_out_by_op": p["op"], "changed_by_op": after,
                                "was": common.hexb(p["expect"][:12]), "is": common.hexb(cur[:12])})
                p["expect"] = cur
        for w in whole:
            cur = read_summary(w["obj"])
            if cur != w["expect"]:
                changed.append({"lasdata_of_op": w["op"], "changed_by_op": after, "what": diff_keys(w["expect"], cur)})
                w["expect"] = cur
    for i, op in enumerate(ops):
        try:
            if op[0] == "R":
                rec = r.read_points(op[1])
                keep(rec, i)
                outs.append(("read", len(rec)))
            elif op[0] == "S":
                outs.append(("seek", r.seek(op[1])))
            elif op[0] == "I":
                it = r.chunk_iterator(op[1])
                got = 0
                for rec in it:
                    keep(rec, i)
                    got += 1
                    if op[2] is not None and got >= op[2]:
                        break
                outs.append(("chunks", got))
            elif op[0] == "A":
                las = r.read()
                keep(las.points, i)
                sm = read_summary(las)
                whole.append({"obj": las, "snap": sm, "expect": sm, "op": i})
                outs.append(("lasdata", len(las.points)))
            elif op[0] == "W":
                if kept:
                    p = kept[op[1] % len(kept)]
                    ok = _scribble_rec(p["obj"])
                    p["expect"] = lasio.rec_bytes(p["obj"])
                    for w in whole:
                        w["expect"] = read_summary(w["obj"])
                    outs.append(("overwrite", op[1] % len(kept), ok))
                else:
                    outs.append(("overwrite", None))
        except Exception as ex:  # noqa
            outs.append("err:" + common.exc_kind(ex))
        check(i)
    outs.append(("vlrs", [lasio.vlr_tuple(v) for v in r.header.vlrs]))
    try:
        r.close()
    except Exception as ex:  # noqa
        outs.append("close-err:" + common.exc_kind(ex))
    check("close")
    return {"outs": outs, "snaps": [p["snap"] for p in kept], "finals": [lasio.rec_bytes(p["obj"]) for p in kept],
            "piece_ops": [p["op"] for p in kept], "changed": changed,
            "whole_snaps": [w["snap"] for w in whole], "whole_finals": [read_summary(w["obj"]) for w in whole]}


def expected_pieces(ref_points, psize, n, ops):
    """what the pieces of a history are, from the records of the file alone (the cursor rule of C05: clamp to what is left)"""
    c, out = 0, []

    def take(k):
        nonlocal c
        left = max(n - c, 0)
        k = left if k < 0 else min(k, left)
        out.append(ref_points[c * psize:(c + k) * psize])
        c += k
        return k
    for op in ops:
        if op[0] == "R":
            take(op[1])
        elif op[0] == "S":
            if 0 <= op[1] < n:
                c = op[1]
        elif op[0] == "I":
            got = 0
            while True:
                if n - c <= 0:
                    break
                take(op[1])
                got += 1
                if op[2] is not None and got >= op[2]:
                    break
        elif op[0] == "A":
            take(-1)
    return out


def append_session(raw, h, chunks, backend, shapes=None):
    import laspy
    bio = io.BytesIO(raw)
    with laspy.open(bio, mode="a", closefd=False, **kw(backend)) as a:
        for c, sh in zip(chunks, shapes or ["plain"] * len(chunks)):
            rec, backing, _ = shaped(c, sh)
            a.append_points(rec)
            scribble(backing)
    return bio.getvalue()


def pick_shapes(rng, chunks):
    return [shaped(c, rng.choice(SHAPES))[2] for c in chunks]


def gen_append(rng, d):
    h = d["h"]
    cs = d["cs"]
    return [lasio.rand_points(rng, h, rng.choice([0, 1, 1, cs, cs + 1])) for _ in range(rng.randrange(0, 4))]


# ---------------------------------------------------------------------------------
# the backend honours the decompression selection: harness/fake_lazrs validates the selection and then decompresses
# everything; lazrs (and laszip) decompress, for the layered point formats 6-10, only the layers they are asked for and
# leave the rest zero.  This layer (installed for this process only, on top of the shared stand-in) does the same, from
# the byte layout of a point-14 record in the LAS 1.4 specification.  Formats 0-5 ignore the selection.
# ---------------------------------------------------------------------------------
SEL_LOG = []          # the (backend side) selection value every decompressor was constructed with, in order
_P14 = [(8, 12, "Z"), (12, 14, "INTENSITY"), (16, 17, "CLASSIFICATION"), (17, 18, "USER_DATA"), (18, 20, "SCAN_ANGLE"),
        (20, 22, "POINT_SOURCE_ID"), (22, 30, "GPS_TIME")]
_P14_TAIL = {6: [], 7: [(30, 36, "RGB")], 8: [(30, 36, "RGB"), (36, 38, "NIR")], 9: [(30, 59, "WAVEPACKET")],
             10: [(30, 36, "RGB"), (36, 38, "NIR"), (38, 67, "WAVEPACKET")]}
LAZRS_NAMES = ["Z", "CLASSIFICATION", "FLAGS", "INTENSITY", "SCAN_ANGLE", "USER_DATA", "POINT_SOURCE_ID", "GPS_TIME", "RGB", "NIR",
               "WAVEPACKET", "ALL_EXTRA_BYTES"]


def backend_keep_mask(fmt, item_size, value):
    """per byte of a record: the bits a backend asked for `value` (its own constants) decompresses; None = everything"""
    if fmt < 6 or fmt > 10:
        return None

    def on(name):
        return bool(value & getattr(fake_lazrs, "SELECTIVE_DECOMPRESS_" + name))
    m = np.full(item_size, 0xFF, np.uint8)
    for a, b, name in _P14 + _P14_TAIL[fmt]:
        if not on(name):
            m[a:b] = 0
    if not on("FLAGS"):
        m[15] = 0x30          # the scanner channel travels with x, y and the return counts
    if not on("ALL_EXTRA_BYTES"):
        m[fake_lazrs.POINT_SIZES[fmt]:] = 0
    return None if int(m.min()) == 0xFF else m


def _apply_keep(mask, dest):
    if mask is None:
        return
    a = np.frombuffer(fake_lazrs._writable_view(dest), dtype=np.uint8)
    if len(a):
        v = a.reshape(-1, len(mask))
        np.bitwise_and(v, mask, out=v)


def honour_selection():
    if getattr(fake_lazrs, "_c14_honours_selection", False):
        return

    def wrap(base):
        class Honouring(base):
            def __init__(self, source, record_data, selection=None):
                super().__init__(source, record_data, selection)
                v = fake_lazrs.SELECTIVE_DECOMPRESS_ALL if selection is None else int(selection.value)
                SEL_LOG.append(v)
                self._c14_keep = backend_keep_mask(self._vlr._point_format_id, self._vlr.item_size(), v)

            def decompress_many(self, dest):
                super().decompress_many(dest)
                _apply_keep(self._c14_keep, dest)
        Honouring.__name__, Honouring.__qualname__ = base.__name__, base.__qualname__
        return Honouring
    fake_lazrs.LasZipDecompressor = wrap(fake_lazrs.LasZipDecompressor)
    fake_lazrs.ParLasZipDecompressor = wrap(fake_lazrs.ParLasZipDecompressor)
    plain = fake_lazrs.decompress_points_with_chunk_table

    def decompress_points_with_chunk_table(compressed_points_data, laszip_vlr_record_data, decompressed_points, chunk_table,
                                           selection=None):
        plain(compressed_points_data, laszip_vlr_record_data, decompressed_points, chunk_table, selection)
        vlr = fake_lazrs._vlr_of(laszip_vlr_record_data)
        v = fake_lazrs.SELECTIVE_DECOMPRESS_ALL if selection is None else int(selection.value)
        _apply_keep(backend_keep_mask(vlr._point_format_id, vlr.item_size(), v), decompressed_points)
    fake_lazrs.decompress_points_with_chunk_table = decompress_points_with_chunk_table
    fake_lazrs._c14_honours_selection = True


honour_selection()

# what a selection means, by DIMENSION NAME (the oracle's side: no byte offsets)
SEL_DIMS = {"Z": ["Z"], "CLASSIFICATION": ["classification"], "INTENSITY": ["intensity"], "SCAN_ANGLE": ["scan_angle"],
            "USER_DATA": ["user_data"], "POINT_SOURCE_ID": ["point_source_id"], "GPS_TIME": ["gps_time"],
            "RGB": ["red", "green", "blue"], "NIR": ["nir"],
            "WAVEPACKET": ["wavepacket_index", "wavepacket_offset", "wavepacket_size", "return_point_wave_location", "x_t", "y_t", "z_t"]}


def DS():
    import laspy
    return laspy.DecompressionSelection


def member_bits():
    """name -> value of every member of the Flag class (aliases included), read from the class itself"""
    return {n: int(m) for n, m in DS().__members__.items()}


def full_selection():
    v = 0
    for x in member_bits().values():
        v |= x
    return v


def expected_selected(points, value):
    """the records of the UNCOMPRESSED file as a read of the compressed file with the selection `value` (laspy's
    constants) has to return them: the dimensions of every member that is not set are zero, for formats 6-10"""
    pf = points.point_format
    arr = np.ascontiguousarray(points.array).copy()
    if pf.id < 6 or not len(arr):
        return arr.tobytes()
    names = list(arr.dtype.names)
    nextra = len(list(pf.extra_dimensions))
    std, extra = names[:len(names) - nextra], names[len(names) - nextra:]
    bits = member_bits()
    for name, dims in SEL_DIMS.items():
        if not value & bits[name]:
            for dname in dims:
                if dname in std:
                    arr[dname] = 0
    if not value & bits["FLAGS"]:
        arr["classification_flags"] &= 0x30
    if not value & bits["ALL_EXTRA_BYTES"]:
        for dname in extra:
            arr[dname] = 0
    return arr.tobytes()


def expected_lazrs_value(value):
    """what the backend has to be handed for the selection `value`: the constant of the same NAME for every member set"""
    v = 0
    for name, bit in member_bits().items():
        if value & bit:
            v |= getattr(fake_lazrs, "SELECTIVE_DECOMPRESS_" + name)
    return v


# extra dimensions of the selective data sets; the names include standard dimensions of OTHER formats (an extra dimension
# "nir" of a format-6 file is extra bytes: it follows ALL_EXTRA_BYTES, not NIR)
CLASH_NAMES = {6: ["nir", "red", "wavepacket_index"], 7: ["nir", "x_t"], 8: ["wavepacket_size", "z_t"], 9: ["red", "nir"], 10: [],
               0: ["gps_time", "nir"], 1: ["red"], 2: ["gps_time"], 3: ["nir"], 4: ["red"], 5: ["nir"]}
SEL_ROUTES = ("read", "open-read", "open-chunks", "open-seek", "LasReader", "open-read_points")


def gen_sel_data(rng, thorough=False):
    fmt = rng.choice([6, 6, 7, 8, 9, 10, 6, 7, 8, 9, 10, rng.randrange(0, 6)])
    cs = rng.choice(CS_CHOICES)
    types = []
    for _ in range(rng.choice([0, 1, 1, 2, 3])):
        types.append(rng.choice(["u1", "u2", "i4", "f4", "f8", "u8", "3u1", "2i2", "3f8", "5u1"]))
    names = []
    for j, _ in enumerate(types):
        names.append(rng.choice(CLASH_NAMES[fmt]) if CLASH_NAMES[fmt] and rng.random() < 0.3 else f"e{j}")
    names = [nm if names.index(nm) == j else f"{nm}{j}" for j, nm in enumerate(names)]
    n = rng.choice([1, 2, cs, cs + 1, 2 * cs + 1, 3 * cs + 2])
    version = "1.4" if fmt >= 6 or rng.random() < 0.5 else rng.choice([v for v in ("1.2", "1.3") if fmt in lasio.COMPAT[v]] or ["1.4"])
    return {"case": "selection", "chunk_size": cs, "version": version, "format": fmt, "extra_types": types, "extra_names": names,
            "points": n, "pattern": rng.choice(["random", "random", "ones"]), "data_seed": rng.randrange(1 << 30)}


def build_sel_data(dd):
    """(header, points, LAS bytes, LAZ bytes) of a selective data set description"""
    import laspy
    fake_lazrs.CHUNK_SIZE = int(dd["chunk_size"])
    h = laspy.LasHeader(version=dd["version"], point_format=int(dd["format"]))
    used = []
    for nm, t in zip(dd["extra_names"], dd["extra_types"]):
        try:
            h.add_extra_dim(laspy.ExtraBytesParams(nm, t))
            used.append(nm)
        except Exception:  # noqa - a name laspy refuses for this format: a neutral one instead
            h.add_extra_dim(laspy.ExtraBytesParams("x" + nm, t))
            used.append("x" + nm)
    pts = lasio.rand_points(random.Random(int(dd["data_seed"])), h, int(dd["points"]), pattern=dd["pattern"])
    d = {"h": h, "pts": pts, "evl": [], "cuts": [(0, len(pts))], "backend": ("serial", B().Lazrs, "S")}
    return h, pts, write_session(d, False, False), write_session(d, True, False, backend=B().Lazrs)


def selection_forms(rng, thorough=False):
    """(label, class of the form, object passed - NOTHING = parameter omitted, value the form MEANS).  The meaning is
    computed from the member table, never through all(): an all() that lacks a member makes the passed object differ from
    what the form means."""
    ds, bits, full = DS(), member_bits(), full_selection()
    base = bits["XY_RETURNS_CHANNEL"]
    forms = [("default", "default", NOTHING, full), ("None", "default", None, full), ("all()", "all", ds.all(), full),
             ("base()", "base", ds.base(), base),
             ("all().skip_all_extra_bytes()", "all-but-one", ds.all().skip_all_extra_bytes(), full & ~bits["ALL_EXTRA_BYTES"]),
             ("base().decompress_all_extra_bytes()", "base-plus-one", ds.base().decompress_all_extra_bytes(), base | bits["ALL_EXTRA_BYTES"])]
    names = list(bits)
    for nm in (names if thorough else rng.sample(names, 2)):
        forms.append((f"all().skip_{nm.lower()}()", "all-but-one", getattr(ds.all(), "skip_" + nm.lower())(), full & ~bits[nm]))
    for nm in (names if thorough else rng.sample(names, 2)):
        forms.append((f"base().decompress_{nm.lower()}()", "base-plus-one", getattr(ds.base(), "decompress_" + nm.lower())(), base | bits[nm]))
    for _ in range(4 if thorough else 1):
        pick = rng.sample(names, rng.randrange(1, len(names)))
        obj, v = ds.base(), base
        for nm in pick:
            obj = obj | ds[nm]
            v |= bits[nm]
        forms.append(("|".join(["base()"] + pick), "hand-made", obj, v))
    v = rng.randrange(0, full + 1)
    forms.append((f"DecompressionSelection({v})", "hand-made", ds(v), v))
    # every member OR-ed by hand: what all() is documented to be
    obj = ds(0)
    for nm in names:
        obj = obj | ds[nm]
    forms.append(("every member OR-ed", "all", obj, full))
    return forms


class _Nothing:
    def __repr__(self):
        return "<omitted>"


NOTHING = _Nothing()


def read_route(raw, route, selobj, seekable, backend, cs, n, pos=None):
    """the records of a file (file order) read through one route with the selection object passed (NOTHING = omitted)"""
    import laspy
    src = io.BytesIO(raw) if seekable else NonSeekable(raw)
    kwargs = dict(kw(backend))
    if selobj is not NOTHING:
        kwargs["decompression_selection"] = selobj
    if route == "read":
        return lasio.rec_bytes(laspy.read(src, closefd=False, **kwargs).points)
    if route == "LasReader":
        r = laspy.LasReader(src, closefd=False, **kwargs)
        return lasio.rec_bytes(r.read().points)
    with laspy.open(src, closefd=False, **kwargs) as r:
        if route == "open-read":
            return lasio.rec_bytes(r.read().points)
        if route == "open-chunks":
            return b"".join(lasio.rec_bytes(c) for c in r.chunk_iterator(max(1, (pos or 0) % (cs + 2) + 1)))
        if route == "open-read_points":
            k = max(1, (pos or 0) % (n + 1))
            return lasio.rec_bytes(r.read_points(k)) + lasio.rec_bytes(r.read_points(n))
        i = (pos or 0) % max(n, 1)                      # open-seek: the tail first, then the head
        r.seek(i)
        tail = lasio.rec_bytes(r.read_points(n))
        r.seek(0)
        return lasio.rec_bytes(r.read_points(i)) + tail


def routes_for(rng, seekable, thorough):
    rs = [r for r in SEL_ROUTES if seekable or r != "open-seek"]
    return rs if thorough else ["read"] + rng.sample(rs[1:], 1)


_SELD = None


def sel_datasets(ctx):
    """selective data sets with everything the correspondence and the search need: per data set the cases
    (form, route, source kind, backend) and what the implementation returned for each"""
    global _SELD
    if _SELD is not None:
        return _SELD
    import laspy
    rng = ctx.rng
    _SELD = []
    for _ in range(ctx.n(36, 400)):
        dd = gen_sel_data(rng, ctx.thorough())
        try:
            h, pts, las_raw, laz = build_sel_data(dd)
        except Exception as ex:  # noqa
            _SELD.append({"dd": dd, "error": f"{type(ex).__name__}: {ex}", "cases": []})
            continue
        dd = dict(dd, extra_names=[d.name for d in h.point_format.extra_dimensions])
        ent = {"dd": dd, "h": h, "pts": pts, "las": las_raw, "laz": laz, "cases": []}
        for label, cls, obj, means in selection_forms(rng, ctx.thorough()):
            seekable = rng.random() < 0.75
            bname, bk, btok = rng.choice([b for b in backend_choices() if seekable or "S" in b[2]])
            for route in routes_for(rng, seekable, ctx.thorough()):
                pos = rng.randrange(0, 1000)
                c = {"form": label, "form_class": cls, "obj": obj, "means": means, "route": route, "seekable": seekable,
                     "backend": bname, "bk": bk, "btok": btok, "pos": pos}
                del SEL_LOG[:]
                try:
                    c["got"] = read_route(laz, route, obj, seekable, bk, dd["chunk_size"], dd["points"], pos)
                except Exception as ex:  # noqa
                    c["got"] = ex
                c["handed"] = list(SEL_LOG)
                try:
                    c["plain"] = read_route(las_raw, route, obj, seekable, None, dd["chunk_size"], dd["points"], pos)
                except Exception as ex:  # noqa
                    c["plain"] = ex
                ent["cases"].append(c)
        _SELD.append(ent)
    return _SELD


def sel_case_input(dd, c):
    return {**dd, "selection": c["form"], "selection_value_passed": None if c["obj"] in (None, NOTHING) else int(c["obj"]),
            "selection_means": c["means"], "route": c["route"], "seekable_source": c["seekable"], "backend": c["backend"], "pos": c["pos"]}


def flag_class_problems():
    """the Flag class itself, swept: all() is the OR of every member; the defaults of the entry points are that value;
    skip_ / decompress_ / is_set_ of every member; to_lazrs() maps every member to the backend constant of the same name"""
    import laspy
    ds, bits, full = DS(), member_bits(), full_selection()
    out = []
    if int(ds.all()) != full:
        out.append(("DecompressionSelection.all() is not the OR of every member", {"members": bits},
                    f"all() = {int(ds.all()):#x}, the OR of the members = {full:#x}; not in all(): "
                    f"{[n for n, b in bits.items() if not int(ds.all()) & b]}"))
    if int(ds.base()) != bits["XY_RETURNS_CHANNEL"] or int(ds.xy_returns_channel()) != bits["XY_RETURNS_CHANNEL"]:
        out.append(("DecompressionSelection.base() is not XY_RETURNS_CHANNEL", {"members": bits}, f"base() = {int(ds.base()):#x}"))
    for nm, fn in (("laspy.open", laspy.open), ("laspy.read", laspy.read), ("LasReader", laspy.LasReader.__init__)):
        p = inspect.signature(fn).parameters.get("decompression_selection")
        if p is None or p.default is inspect.Parameter.empty or int(p.default) != full:
            out.append(("default decompression selection of an entry point is not every field", {"entry_point": nm, "members": bits},
                        f"default = {None if p is None else p.default!r}, every member = {full:#x}"))
    for nm, b in bits.items():
        low = nm.lower()
        try:
            sk, de = getattr(ds(full), "skip_" + low)(), getattr(ds(bits['XY_RETURNS_CHANNEL']), "decompress_" + low)()
            ok = (int(sk) == full & ~b and int(de) == bits["XY_RETURNS_CHANNEL"] | b and getattr(ds(full), "is_set_" + low)() is True
                  and getattr(sk, "is_set_" + low)() is False and ds(full).is_set(ds[nm]) and not sk.is_set(ds[nm]))
            why = f"skip -> {int(sk):#x}, decompress -> {int(de):#x}"
        except Exception as ex:  # noqa
            ok, why = False, f"{type(ex).__name__}: {ex}"
        if not ok:
            out.append(("skip_/decompress_/is_set_ method of a selection member", {"member": nm, "value": b}, why))
        want = getattr(fake_lazrs, "SELECTIVE_DECOMPRESS_" + nm, None)
        try:
            got = int(ds(b).to_lazrs().value)
        except Exception as ex:  # noqa
            got = f"{type(ex).__name__}: {ex}"
        if got != want:
            out.append(("to_lazrs() of a selection member", {"member": nm, "value": b}, f"{got} instead of SELECTIVE_DECOMPRESS_{nm} = {want}"))
    try:
        got = int(ds.all().to_lazrs().value)
    except Exception as ex:  # noqa
        got = f"{type(ex).__name__}: {ex}"
    want = 0
    for nm in LAZRS_NAMES:
        want |= getattr(fake_lazrs, "SELECTIVE_DECOMPRESS_" + nm)
    if got != want:
        out.append(("all().to_lazrs() does not select every layer of the backend", {"members": bits},
                    f"{got if not isinstance(got, int) else hex(got)} instead of {want:#x}; layers left out: "
                    f"{[nm for nm in LAZRS_NAMES if isinstance(got, int) and not got & getattr(fake_lazrs, 'SELECTIVE_DECOMPRESS_' + nm)]}"))
    return out


# ---------------------------------------------------------------------------------
# every optional parameter of the writing entry points, compressed against uncompressed destination of the same data:
# encoding_errors with header strings / VLR / EVLR descriptions that are not ASCII (as str and as bytes), closefd,
# the forms of laz_backend, through laspy.open(mode="w"), LasWriter, LasData.write and laspy.open(mode="a")
# ---------------------------------------------------------------------------------
NONASCII_TEXT = ["é", "Zürich", "naïve café", "日本", "€uro", "xé" * 10, "ß" * 32,
                 "a" * 31 + "é", "é" + "a" * 40, "plain ascii"]
ENC_ERRORS = ["strict", "ignore", "replace", "ignore", "replace", "backslashreplace", "xmlcharrefreplace"]


def gen_param_case(rng, thorough=False):
    version, fmt = rng.choice(lasio.ALL_PAIRS)
    # (an appender meets non-ASCII text as BYTES: the strings of a file some other software wrote)
    route = rng.choice(["open", "open", "writer", "writer", "lasdata", "append", "append"])
    places = ["system_identifier", "generating_software", "vlr"] + (["evlr"] if version == "1.4" else [])
    strings = {}
    if rng.random() < 0.85:
        for pl in rng.sample(places, rng.randrange(1, len(places) + 1)):
            strings[pl] = rng.choice(NONASCII_TEXT)
    dest = rng.choice(["bytesio", "bytesio", "fileobj"] + (["path"] if route != "writer" else []))
    cs = rng.choice(CS_CHOICES)
    closefd = rng.random() < (0.9 if dest == "path" else 0.5)    # a file name with closefd=False is refused by open() itself
    return {"case": "params", "route": route, "dest": dest, "version": version, "format": fmt,
            "extra_dims": rng.choice([0, 0, 1, 2]), "points": rng.choice([0, 1, cs, cs + 1]), "chunk_size": cs,
            "appended": rng.choice([0, 1, cs + 1]), "encoding_errors": rng.choice(ENC_ERRORS), "closefd": closefd,
            "backend": rng.choice([b[0] for b in backend_choices()]), "backend_as_iterator": rng.random() < 0.15,
            "strings": strings, "as_bytes": rng.random() < (0.7 if route == "append" else 0.25), "evlr_plain": version == "1.4" and rng.random() < 0.3,
            "data_seed": rng.randrange(1 << 30)}


def build_param_data(pd):
    import laspy
    h = laspy.LasHeader(version=pd["version"], point_format=int(pd["format"]))
    rng = random.Random(int(pd["data_seed"]))
    if pd["extra_dims"]:
        lasio.add_extra_dims(rng, h, int(pd["extra_dims"]))
    conv = (lambda t: t.encode("latin-1", "replace")) if pd["as_bytes"] else (lambda t: t)
    st = pd["strings"]
    if "system_identifier" in st:
        h.system_identifier = conv(st["system_identifier"])
    if "generating_software" in st:
        h.generating_software = conv(st["generating_software"])
    h.vlrs.append(laspy.VLR("Uc14", 7, "plain", b"\x01\x02"))
    if "vlr" in st:
        h.vlrs.append(laspy.VLR("Uc14", 8, conv(st["vlr"]), b"\x05"))
    evl = []
    if "evlr" in st:
        evl.append(laspy.VLR("Ec14", 9, conv(st["evlr"]), b"\x03\x04"))
    if pd.get("evlr_plain"):
        evl.append(laspy.VLR("Ec14", 10, "plain evlr", b"\x06"))
    pts = lasio.rand_points(rng, h, int(pd["points"]))
    more = lasio.rand_points(rng, h, int(pd["appended"]))
    return h, evl, pts, more


def run_param_case(pd, compress, tmp):
    """one session of the described kind on a compressed or a plain destination: at which stage it failed (and how), whether
    the destination was left closed, the bytes produced, what they read back as"""
    import laspy
    fake_lazrs.CHUNK_SIZE = int(pd["chunk_size"])
    h, evl, pts, more = build_param_data(pd)
    bk = {b[0]: b[1] for b in backend_choices()}[pd["backend"]]
    if pd.get("backend_as_iterator") and isinstance(bk, (list, tuple)):
        bk = iter(list(bk))
    errors, closefd, route, kind = pd["encoding_errors"], bool(pd["closefd"]), pd["route"], pd["dest"]
    out = {"stage": "setup", "outcome": "ok", "closed": None, "raw": None}
    path = os.path.join(tmp, ("c" if compress else "u") + ("f.laz" if compress else "f.las"))
    vl = laspy.vlrs.vlrlist.VLRList
    dest = None
    try:
        if route == "append":
            # the file appended to: the same data, strings written leniently so that it exists in both forms
            bio = io.BytesIO()
            w = laspy.LasWriter(bio, h, do_compress=compress, closefd=False, encoding_errors="replace")
            if len(pts):
                w.write_points(pts)
            if evl:
                w.write_evlrs(vl(list(evl)))
            w.close()
            base = bio.getvalue()
        if kind == "bytesio":
            dest = lasio.KeepStream(base if route == "append" else b"")
        else:
            if route == "append":
                with open(path, "wb") as f:
                    f.write(base)
            dest = path if kind == "path" else open(path, "rb+" if route == "append" else "wb+")
        # a path decides by its extension; everything else is told
        dc = None if kind == "path" else compress
        out["stage"] = "open"
        if route == "open":
            s = laspy.open(dest, mode="w", header=h, do_compress=dc, closefd=closefd, encoding_errors=errors, **kw(bk))
        elif route == "writer":
            s = laspy.LasWriter(dest, h, do_compress=dc, closefd=closefd, encoding_errors=errors, **kw(bk))
        elif route == "append":
            s = laspy.open(dest, mode="a", closefd=closefd, encoding_errors=errors, **(kw(bk) if compress else {}))
        else:
            s = None
            las = laspy.LasData(h)
            las.points = pts
            if evl:
                las.evlrs = vl(list(evl))
            out["stage"] = "write"
            if kind == "path":
                las.write(dest, **kw(bk))
            else:
                las.write(dest, do_compress=dc, **kw(bk))
        if s is not None:
            try:
                out["stage"] = "points"
                if route == "append":
                    if len(more):
                        s.append_points(more)
                else:
                    if len(pts):
                        s.write_points(pts)
                    if evl:
                        out["stage"] = "evlrs"
                        s.write_evlrs(vl(list(evl)))
                out["stage"] = "close"
            finally:
                s.close()
        out["stage"] = "done"
    except Exception as ex:  # noqa
        out["outcome"] = "raised " + type(ex).__name__
        out["message"] = str(ex)[:120]
    try:
        if kind == "bytesio":
            out["closed"] = bool(dest.closed) if dest is not None else None
            out["raw"] = dest.getvalue() if dest is not None else None
        else:
            if kind == "fileobj" and dest is not None:
                out["closed"] = bool(dest.closed)
                if not dest.closed:
                    dest.close()
            if os.path.exists(path):
                with open(path, "rb") as f:
                    out["raw"] = f.read()
    except Exception as ex:  # noqa
        out["raw_error"] = f"{type(ex).__name__}: {ex}"
    out["read"] = None
    if out["outcome"] == "ok" and out["raw"] is not None:
        try:
            out["read"] = read_summary(laspy.read(io.BytesIO(out["raw"])))
        except Exception as ex:  # noqa
            out["read"] = {"unreadable": f"{type(ex).__name__}: {ex}"}
    return out


def param_verdict(pd, tmp):
    """(kind, observed) when the compressed destination does not behave like the uncompressed one, else None; plus both runs"""
    z, u = run_param_case(pd, True, tmp), run_param_case(pd, False, tmp)
    what = "encoding_errors=" + repr(pd["encoding_errors"]) if pd["strings"] else "ASCII strings"
    if (z["outcome"], z["stage"]) != (u["outcome"], u["stage"]):
        return (f"{pd['route']} session: the compressed destination fails where the uncompressed one does not (or the reverse)",
                f"compressed: {z['outcome']} at stage {z['stage']} ({z.get('message', '')}); uncompressed: {u['outcome']} at stage "
                f"{u['stage']} ({u.get('message', '')}); {what}"), z, u
    if z["closed"] != u["closed"]:
        return (f"{pd['route']} session: closefd treated differently for the compressed destination",
                f"destination closed afterwards: compressed {z['closed']}, uncompressed {u['closed']} (closefd={pd['closefd']}, outcome {z['outcome']})"), z, u
    if z["read"] is not None and u["read"] is not None:
        if "unreadable" in z["read"] or "unreadable" in u["read"]:
            if ("unreadable" in z["read"]) != ("unreadable" in u["read"]):
                return (f"{pd['route']} session: the file written cannot be read back",
                        f"compressed: {str(z['read'])[:100]}; uncompressed: {str(u['read'])[:100]}"), z, u
        else:
            dk = diff_keys(u["read"], z["read"])
            if dk:
                return (f"{pd['route']} session: read-back differs between compressed and uncompressed: " + ",".join(dk),
                        str({k: (str(u['read'][k])[:60], str(z['read'][k])[:60]) for k in dk[:3]}) + "; " + what), z, u
    return None, z, u


def read_params_run(raw, backend, closefd, read_evlrs, route, seekable=True):
    """optional parameters of the reading entry points: what the source is left like, what the reader shows before and
    after the points were read, what is returned"""
    import laspy
    src = io.BytesIO(raw) if seekable else NonSeekable(raw)
    out = {}
    try:
        if route == "read":
            las = laspy.read(src, closefd=closefd, **kw(backend))
        elif route == "LasReader":
            r = laspy.LasReader(src, closefd=closefd, read_evlrs=read_evlrs, **kw(backend))
            out["evlrs_at_open"] = None if r.evlrs is None else [lasio.vlr_tuple(v) for v in r.evlrs]
            las = r.read()
            out["evlrs_after_read"] = None if r.evlrs is None else [lasio.vlr_tuple(v) for v in r.evlrs]
            r.close()
        else:
            with laspy.open(src, closefd=closefd, read_evlrs=read_evlrs, **kw(backend)) as r:
                out["evlrs_at_open"] = None if r.evlrs is None else [lasio.vlr_tuple(v) for v in r.evlrs]
                out["count"] = int(r.header.point_count)
                las = r.read()
                out["evlrs_after_read"] = None if r.evlrs is None else [lasio.vlr_tuple(v) for v in r.evlrs]
        out["summary"] = read_summary(las)
        out["outcome"] = "ok"
    except Exception as ex:  # noqa
        out["outcome"] = "raised " + type(ex).__name__ + ": " + str(ex)[:80]
    out["source_closed"] = bool(src.closed) if seekable else None
    return out


_PARAMS = None


def param_cases(ctx):
    global _PARAMS
    if _PARAMS is None:
        _PARAMS = []
        tmp = tempfile.mkdtemp(prefix="verif_c14_p_", dir="/var/tmp")
        try:
            for _ in range(ctx.n(160, 1500)):
                pd = gen_param_case(ctx.rng, ctx.thorough())
                try:
                    verdict, z, u = param_verdict(pd, tmp)
                except Exception as ex:  # noqa
                    verdict, z, u = ("parameter session could not be run", f"{type(ex).__name__}: {ex}"), None, None
                _PARAMS.append({"pd": pd, "verdict": verdict, "z": z, "u": u})
        finally:
            shutil.rmtree(tmp, ignore_errors=True)
    return _PARAMS


# ---------------------------------------------------------------------------------
# the FORMS of the argument laz_backend: every entry point that takes it (laspy.read, laspy.open r / w / a, LasReader,
# LasWriter, LasAppender, LasData.write) x every form (backend_choices) x compressed against uncompressed source /
# destination of the same data.  A complete sweep (not sampled): the stand-in records which backend variants each
# entry point constructed (VARIANT_LOG), the model says which ones the normalised selection tries.
# ---------------------------------------------------------------------------------
VARIANT_LOG = []        # ("r" | "w" | "a", "P" | "S") for every decompressor / compressor / appender the glue tried to construct
FORM_KIND = {"none": "D", "serial": "1", "parallel": "1", "own-serial": "1", "own-parallel": "1", "lazrsbackend-serial": "1"}
READ_ENTRIES = ("laspy.read", "laspy.open(r)", "LasReader")
WRITE_ENTRIES = ("laspy.open(w)", "LasWriter", "LasData.write", "laspy.open(w,path)", "LasData.write(path)")
APPEND_ENTRIES = ("laspy.open(a)", "LasAppender", "laspy.open(a,path)")


FORM_CLASS = {"none": "absent", "serial": "one enum member", "parallel": "one enum member", "own-serial": "one backend object, not an enum member",
              "own-parallel": "one backend object, not an enum member", "lazrsbackend-serial": "one backend object, not an enum member",
              "iterator-ps": "iterator / generator", "generator-own-s": "iterator / generator", "generator-sp": "iterator / generator"}


def form_class(name):
    return FORM_CLASS.get(name, "list / tuple / set")


def form_token(name, tok):
    """the form as the model is told it: D (absent), 1<variant> (one bare backend), M<variants> (an iterable)"""
    k = FORM_KIND.get(name, "M")
    return "D" if k == "D" else k + tok


def log_variants():
    if getattr(fake_lazrs, "_c14_logs_variants", False):
        return

    def wrap(base, what, variant):
        class Logging(base):
            def __init__(self, *a, **k):
                VARIANT_LOG.append((what, variant))
                super().__init__(*a, **k)
        Logging.__name__, Logging.__qualname__ = base.__name__, base.__qualname__
        return Logging
    for nm, what, variant in (("LasZipDecompressor", "r", "S"), ("ParLasZipDecompressor", "r", "P"), ("LasZipCompressor", "w", "S"),
                              ("ParLasZipCompressor", "w", "P"), ("LasZipAppender", "a", "S"), ("ParLasZipAppender", "a", "P")):
        setattr(fake_lazrs, nm, wrap(getattr(fake_lazrs, nm), what, variant))
    fake_lazrs._c14_logs_variants = True


log_variants()


def form_data(which, cs):
    """two small data sets straddling the chunk size: a legacy format, and a 1.4 file with an EVLR and a user VLR"""
    import laspy
    rng = random.Random(1400 + which)
    if which == 0:
        h = laspy.LasHeader(version="1.2", point_format=3)
        n, evl = cs + 1, []
    else:
        h = laspy.LasHeader(version="1.4", point_format=6)
        n, evl = 2 * cs + 1, [laspy.VLR("Ec14", 9, "an evlr", b"E" * 33)]
    h.vlrs.append(laspy.VLR("Uc14", 7, "user record", b"abc"))
    return h, lasio.rand_points(rng, h, n), lasio.rand_points(rng, h, cs), evl


def form_run(entry, bsel, compress, h, pts, more, evl, seekable, tmp):
    """one use of one entry point with laz_backend in the given form, on a compressed or an uncompressed source / destination of
    the same data: outcome, what is read back, which backend variants were constructed on the way"""
    import laspy
    vl = laspy.vlrs.vlrlist.VLRList
    d = {"h": h, "pts": pts, "evl": evl, "cuts": [(0, len(pts))]}
    out = {"outcome": "ok", "summary": None}
    del VARIANT_LOG[:]
    try:
        if entry in READ_ENTRIES:
            raw = write_session(d, compress, False, backend=B().Lazrs)
            del VARIANT_LOG[:]
            src = io.BytesIO(raw) if seekable else NonSeekable(raw)
            if entry == "laspy.read":
                las = laspy.read(src, closefd=False, **kw(bsel))
            elif entry == "laspy.open(r)":
                with laspy.open(src, closefd=False, **kw(bsel)) as r:
                    if seekable:
                        r.read_points(1)
                        r.seek(0)
                    las = r.read()
            else:
                r = laspy.LasReader(src, closefd=False, **kw(bsel))
                las = r.read()
                r.close()
            out["raw"] = raw
            out["summary"] = read_summary(las)
        else:
            path = os.path.join(tmp, "f.laz" if compress else "f.las")
            if entry in WRITE_ENTRIES:
                dest = path if "path" in entry else io.BytesIO()
                dc = {} if "path" in entry else {"do_compress": compress}
                if entry.startswith("laspy.open"):
                    with laspy.open(dest, mode="w", header=h, closefd="path" in entry, **dc, **kw(bsel)) as w:
                        w.write_points(pts)
                        if evl:
                            w.write_evlrs(vl(list(evl)))
                elif entry == "LasWriter":
                    w = laspy.LasWriter(dest, h, closefd=False, **dc, **kw(bsel))
                    w.write_points(pts)
                    if evl:
                        w.write_evlrs(vl(list(evl)))
                    w.close()
                else:
                    las = laspy.LasData(h)
                    las.points = pts
                    if evl:
                        las.evlrs = vl(list(evl))
                    las.write(dest, **dc, **kw(bsel))
            else:
                raw = write_session(d, compress, False, backend=B().Lazrs)
                del VARIANT_LOG[:]
                if "path" in entry:
                    with open(path, "wb") as f:
                        f.write(raw)
                    dest = path
                else:
                    dest = io.BytesIO(raw)
                if entry.startswith("laspy.open"):
                    with laspy.open(dest, mode="a", closefd="path" in entry, **kw(bsel)) as a:
                        a.append_points(more)
                else:
                    from laspy.lasappender import LasAppender
                    a = LasAppender(dest, closefd=False, **kw(bsel))
                    a.append_points(more)
                    a.close()
            if "path" in entry:
                with open(path, "rb") as f:
                    raw = f.read()
            else:
                raw = dest.getvalue()
            out["tried"] = "".join(v for _, v in VARIANT_LOG)
            out["raw"] = raw
            out["compressed_bit"] = bool(fmt_byte(raw) & 0x80)
            out["laszip_records"] = sum(is_lz(t) for t in raw_vlrs(raw))
            out["summary"] = read_summary(laspy.read(io.BytesIO(raw)))
    except Exception as ex:  # noqa
        out["outcome"] = f"raised {type(ex).__name__}: {str(ex)[:100]}"
    out.setdefault("tried", "".join(v for _, v in VARIANT_LOG))
    del VARIANT_LOG[:]
    return out


_FORMS = None


def form_cases(ctx):
    global _FORMS
    if _FORMS is None:
        _FORMS = []
        tmp = tempfile.mkdtemp(prefix="verif_c14_f_", dir="/var/tmp")
        try:
            for which in (0, 1):
                cs = (3, 5)[which]
                fake_lazrs.CHUNK_SIZE = cs
                h, pts, more, evl = form_data(which, cs)
                want = {"read": np.concatenate([pts.array]).tobytes(), "append": np.concatenate([pts.array, more.array]).tobytes()}
                for entry in READ_ENTRIES + WRITE_ENTRIES + APPEND_ENTRIES:
                    for name, bsel, tok in backend_choices():
                        for seekable in ((True, False) if entry in READ_ENTRIES else (True,)):
                            if not seekable and "S" not in tok:
                                continue          # a parallel-only selection may refuse a source that cannot seek (the contract)
                            inp = {"case": "backend-form", "entry": entry, "form": name, "variants": tok, "data": which, "chunk_size": cs,
                                   "version": str(h.version), "format": h.point_format.id, "points": len(pts), "evlrs": len(evl),
                                   "appended": len(more) if entry in APPEND_ENTRIES else 0, "seekable_source": seekable}
                            try:
                                z = form_run(entry, bsel, True, h, pts, more, evl, seekable, tmp)
                                u = form_run(entry, bsel, False, h, pts, more, evl, seekable, tmp)
                            except Exception as ex:  # noqa
                                z = u = {"outcome": f"could not be run: {type(ex).__name__}: {ex}", "summary": None, "tried": ""}
                            _FORMS.append({"inp": inp, "z": z, "u": u, "tok": form_token(name, tok),
                                           "expect_points": want["append" if entry in APPEND_ENTRIES else "read"]})
        finally:
            shutil.rmtree(tmp, ignore_errors=True)
    return _FORMS


def form_verdict(c):
    """(kind, observed) when the entry point, handed laz_backend in this form, does not treat the compressed source / destination
    like the uncompressed one of the same data"""
    inp, z, u = c["inp"], c["z"], c["u"]
    what = f"{inp['entry']} with laz_backend given as {form_class(inp['form'])}"
    side = "source" if inp["entry"] in READ_ENTRIES else "destination"
    if z["outcome"] != u["outcome"]:
        return (f"forms of laz_backend: {what}: the compressed {side} fails where the uncompressed one does not (or the reverse)",
                f"compressed: {z['outcome']}; uncompressed: {u['outcome']}")
    if z["summary"] is None or u["summary"] is None:
        return (f"forms of laz_backend: {what}: refused for both kinds of {side}", f"{z['outcome']}")
    dk = diff_keys(u["summary"], z["summary"])
    if dk:
        return (f"forms of laz_backend: {what}: read-back differs between compressed and uncompressed: " + ",".join(dk[:4]),
                show_diff(u["summary"], z["summary"], dk))
    if z["summary"]["points"] != c["expect_points"]:
        return (f"forms of laz_backend: {what}: the records read back are not the records written", f"{len(z['summary']['points'])} bytes")
    if side == "destination":
        if not z["compressed_bit"] or z["laszip_records"] != 1 or u["compressed_bit"] or u["laszip_records"] != 0:
            return (f"forms of laz_backend: {what}: compressed bit / LasZip record of the file produced",
                    f"compressed destination: bit {z['compressed_bit']}, {z['laszip_records']} LasZip record(s); uncompressed: bit "
                    f"{u['compressed_bit']}, {u['laszip_records']} record(s)")
    if u["tried"]:
        return (f"forms of laz_backend: {what}: a LAZ backend was constructed for an uncompressed {side}", u["tried"])
    if inp["form"] != "none" and not (z["tried"] and inp["variants"].startswith(z["tried"])):
        return (f"forms of laz_backend: {what}: the backends constructed are not the ones selected, in the order given",
                f"selected variants (P = parallel, S = serial): {inp['variants']}; constructed: {z['tried'] or '-'}")
    return None


# ---------------------------------------------------------------------------------
# correspondence
# ---------------------------------------------------------------------------------
def correspond(ctx):
    import laspy
    ctx.extra["rule"] = (
        "data sets = random headers of every version/format (30% with extra dimensions, stale statistics, extra header/VLR bytes, 0-5 "
        "VLRs), point counts {0,1,cs-1,cs,cs+1,2cs,2cs+1,3cs+2} for backend chunk sizes cs in {1,3,5,8}, random partitions into chunks "
        "(empty ones included), +-EVLRs (1.4), backend given as none / serial / parallel / list / tuple. Compared with the model: the "
        "compress decision over {laspy.open, LasData.write, LasWriter} x {17 path names, pathlib, stream, file object} x do_compress x "
        "backend; the 256 format ids; 1-7 step VLR-list histories (write las/laz, open, touch, user append); bytes of chunked and "
        "one-shot compressed sessions; seekable and non-seekable reads; point-source read/seek histories (every buffer handed out is "
        "kept alive and compared again after the history); append sessions. Chunks reach writers and appenders - compressing and plain - "
        "as fresh arrays, strided / reversed / strided-reversed views with garbage between the records, offset slices, fancy-index "
        "copies and 0-d one-point records, and the caller's buffer is overwritten right after each call. Search only: histories of "
        "read_points / seek / partial and full chunk_iterator / read() / caller overwriting a kept piece on the public reader of the "
        "compressed and the uncompressed file (seekable and non-seekable), every piece and LasData kept until after close and compared "
        "with its value at hand-out, with the slice of the records and with the other file. "
        "Selective reads: files of formats 6-10 (and some 0-5) with 0-3 extra dimensions (names clashing with standard dimensions of "
        "other formats included), read with the selection omitted / None / all() / base() / all().skip_x() / base().decompress_x() / "
        "hand-made ORs / DecompressionSelection(v) through laspy.read, laspy.open + read / read_points / chunk_iterator / seek, "
        "LasReader, seekable and not, every backend form - the stand-in backend zeroes what it is not asked for, as lazrs does; the "
        "model masks the records with to_lazrs of the value passed (Model/LazSelect.v), the oracle zeroes the dimensions by name from "
        "what the form MEANS; the Flag class is swept (all() = OR of the members, defaults of the entry points, skip_/decompress_/"
        "is_set_ of every member, to_lazrs of every member and of sampled values). Parameter sessions: laspy.open('w') / LasWriter / "
        "LasData.write / laspy.open('a') x BytesIO / file object / path x encoding_errors in {strict, ignore, replace, "
        "backslashreplace, xmlcharrefreplace} x header strings, VLR and EVLR descriptions that are not ASCII (str and bytes) x closefd "
        "x laz_backend as member / list / tuple / iterator, compressed against uncompressed: same stage and kind of failure, same "
        "closed state of the destination, same read-back. Forms of laz_backend (complete sweep): every entry point that takes it "
        "(laspy.read, laspy.open r/w/a, LasReader, LasWriter, LasAppender, LasData.write, stream and path) x every form (absent, enum "
        "member, a backend OBJECT that is not an enum member - own ILazBackend, LazrsBackend instance -, list / tuple / set of either, "
        "iterator, generator) x seekable / non-seekable source x compressed against uncompressed of the same data; the backend variants "
        "constructed on the way (in order) are compared with what the model's normalised selection visits. "
        "non-trivial = compressed data with at least one point or a decision/bit/history case; distinct by inputs")
    dis = []
    cmds, tags = [], []

    def q(cmd, tag):
        cmds.append(cmd)
        tags.append(tag)

    # (1) decisions
    dec = decisions(ctx)
    for i, (canon, cmd, obs, nlz, suffix, is_path) in enumerate(dec):
        q(cmd, ("dec", i))
    # (2) bits
    from laspy._compression import format as cf
    for f in range(256):
        q(f"bits {f}", ("bits", f))
    # (3) VLR-list histories
    hist = histories(ctx)
    for i, hh in enumerate(hist):
        if hh["toks"]:
            q(f"vrun {hh['init']} " + " ".join(hh["toks"]), ("hist", i))
    # (4..7) files
    ds = datasets(ctx)
    rng = ctx.rng
    for i, d in enumerate(ds):
        h = d["h"]
        cs = d["cs"]
        fake_lazrs.CHUNK_SIZE = cs
        ha = lasio.assoc_tok(lasio.header_assoc(h, compressed=False))
        vt, et = lasio.vlrs_tok(h.vlrs), lasio.vlrs_tok(d["evl"])
        ps = h.point_format.size
        q(f"chunk {cs}", ("nop", i))
        if "error" in d:
            # the implementation refused / failed a session the generator only builds from acceptable parts: the model decides
            q(f"lazsession {ha} {vt} {h.point_format.id} {ps} {et} "
              + " ".join(common.hexb(lasio.rec_bytes(d['pts'][a:b])) for a, b in d["cuts"]), ("session_err", i))
            continue
        q(f"lazfile {ha} {vt} {h.point_format.id} {ps} {common.hexb(lasio.rec_bytes(d['pts']))} {et}", ("file", i))
        q(f"lazsession {ha} {vt} {h.point_format.id} {ps} {et} "
          + " ".join(common.hexb(lasio.rec_bytes(d['pts'][a:b])) for a, b in d["cuts"]), ("session", i))
        bname, bk, btok = d["backend"]
        q(f"lazread {btok} {common.hexb(d['laz_chunked'])}", ("read", i))
        try:
            d["read"] = laspy.read(io.BytesIO(d["laz_chunked"]), **kw(bk))
        except Exception as ex:  # noqa
            d["read"] = ex
        # non-seekable
        q(f"lazread_ns {btok} {common.hexb(d['laz_chunked'])}", ("read_ns", i))
        try:
            d["read_ns"] = laspy.read(NonSeekable(d["laz_chunked"]), closefd=False, **kw(bk))
        except Exception as ex:  # noqa
            d["read_ns"] = ex
        # cursor at point-source level
        n = len(d["pts"])
        if n and "S" in btok or n and btok:
            ops = gen_ops(rng, n, cs)
            d["ops"] = ops
            q(f"cursor {btok} {common.hexb(d['laz_chunked'])} " + " ".join(f"{o}{v}" for o, v in ops), ("cursor", i))
            try:
                d["cursor"], d["cursor_kept"] = run_point_source(d["laz_chunked"], bk, ops)
            except Exception as ex:  # noqa
                d["cursor"] = d["cursor_kept"] = ["raised:" + common.exc_kind(ex)]
        # append
        chunks = gen_append(rng, d)
        d["app_chunks"] = chunks
        d["app_shapes"] = pick_shapes(rng, chunks)
        par = btok[0] == "P"
        q(f"lazappend {'T' if par else 'F'} {ps} {common.hexb(d['laz_chunked'])} "
          + " ".join(common.hexb(lasio.rec_bytes(c)) for c in chunks), ("append", i))
        try:
            d["appended"] = append_session(d["laz_chunked"], h, chunks, bk, d["app_shapes"])
        except Exception as ex:  # noqa
            d["appended"] = ex
        try:
            d["appended_las"] = append_session(d["las"], h, chunks, None, d["app_shapes"])
        except Exception as ex:  # noqa
            d["appended_las"] = ex
    # (8) the Flag class: values, defaults, to_lazrs
    q("selinfo", ("selinfo", 0))
    full = full_selection()
    sweep = sorted(set([0, full] + list(member_bits().values()) + [full & ~b for b in member_bits().values()]
                       + ([v for v in range(full + 1)] if ctx.thorough() else [rng.randrange(full + 1) for _ in range(300)])))
    q("tolazrs " + " ".join(str(v) for v in sweep), ("tolazrs", 0))
    # (9) selective reads: the model applies to_lazrs of the value the implementation was handed to the records of the file
    seld = sel_datasets(ctx)
    selq = {}
    for i, e in enumerate(seld):
        if "error" in e:
            continue
        q(f"chunk {e['dd']['chunk_size']}", ("nop", i))
        for j, c in enumerate(e["cases"]):
            tok = "N" if c["obj"] is None or c["obj"] is NOTHING else str(int(c["obj"]))
            key = (i, tok, c["seekable"], c["btok"])
            if key not in selq:
                selq[key] = []
                q(f"{'lazread_sel' if c['seekable'] else 'lazread_ns_sel'} {tok} {c['btok']} {common.hexb(e['laz'])}", ("selread", key))
            selq[key].append(j)
    # (10) compressed files written with encoding_errors / non-ASCII strings: the file of the header as it was encoded
    pcs = param_cases(ctx)
    for i, pc_ in enumerate(pcs):
        pd, z, u = pc_["pd"], pc_["z"], pc_["u"]
        if pc_["verdict"] or not z or pd["route"] not in ("open", "writer") or z["outcome"] != "ok" or not z["raw"] or not u["raw"]:
            continue
        try:
            ul = laspy.read(io.BytesIO(u["raw"]))
            hu = ul.header
            ha = lasio.assoc_tok(lasio.header_assoc(hu, compressed=False))
            et = lasio.vlrs_tok(ul.evlrs) if ul.evlrs else "-"
            q(f"chunk {pd['chunk_size']}", ("nop", i))
            q(f"lazfile {ha} {lasio.vlrs_tok(hu.vlrs)} {hu.point_format.id} {hu.point_format.size} "
              f"{common.hexb(lasio.rec_bytes(ul.points))} {et}", ("pfile", i))
        except Exception as ex:  # noqa
            ctx.notes.append(f"parameter session {i}: the uncompressed file could not be turned into a model input: {type(ex).__name__}: {ex}")
    # (11) the forms of laz_backend: what the normalised selection visits / tries, against the backend variants the glue constructed
    fcs = form_cases(ctx)
    for i, c in enumerate(fcs):
        if c["z"].get("raw") and c["z"]["outcome"] == "ok" and fmt_byte(c["z"]["raw"]) & 0x80:
            q(f"chunk {c['inp']['chunk_size']}", ("nop", i))
            q(f"forms {c['tok']} {'T' if c['inp']['seekable_source'] else 'F'} {common.hexb(c['z']['raw'])}", ("forms", i))
    outs = common.run_model(cmds, name="c14")

    def bad(kind, inp, model, impl):
        dis.append({"kind": kind, "input": inp, "model": str(model)[:160], "impl": str(impl)[:160]})

    for (tag, i), mo in zip(tags, outs):
        if tag == "nop":
            continue
        ctx.traces += 1
        if tag == "dec":
            canon, cmd, obs, nlz, suffix, is_path = dec[i]
            ctx.case(("dec",) + canon, nontrivial=True, sample={"decision": canon, "compressed": obs} if i % 97 == 0 else None)
            ctx.count("decision:" + canon[0] + ":" + canon[1])
            m = mo.split(" ")
            if m[0] != obs:
                bad("compress decision", {"route": canon[0], "dest": canon[1], "name": canon[2], "do_compress": canon[3], "backend": canon[4]},
                    f"compressed={m[0]} (rule={m[1]}, ext_is_laz={m[2]})", f"compressed={obs}")
            elif m[0] != m[1] and not (canon[0] == "lasdata" and is_path):
                bad("decision differs from the documented rule", {"case": canon}, mo, obs)
        elif tag == "bits":
            ctx.case(("bits", i), nontrivial=True)
            ctx.count("format id sweep")
            exp = f"{'T' if cf.is_point_format_compressed(i) else 'F'} {cf.compressed_id_to_uncompressed(i)} {cf.uncompressed_id_to_compressed(i)}"
            if mo != exp:
                bad("compressed-bit functions", {"id": i}, mo, exp)
        elif tag == "hist":
            hh = hist[i]
            ctx.case(("hist", hh["init"], tuple(hh["toks"])), nontrivial=True, sample={"vlr_history": hh["desc"]} if i % 40 == 0 else None)
            for t in hh["desc"]:
                ctx.count("vlr-history:" + t.split("(")[0])
            if mo.split(" ") != hh["states"] and not (mo == "-" and not hh["states"]):
                k = next((j for j, (a, b) in enumerate(zip(mo.split(" "), hh["states"])) if a != b), 0)
                bad("LasZip record discipline", {"history": hh["desc"], "step": k, "init_vlrs": hh["init"][:60]},
                    summarize_state(mo.split(" ")[k] if k < len(mo.split(" ")) else "-"), summarize_state(hh["states"][k] if k < len(hh["states"]) else "-"))
        elif tag == "selinfo":
            ctx.case(("selinfo",), nontrivial=True)
            ctx.count("flag class: values")
            dsc = DS()
            try:
                dfl = [int(inspect.signature(fn).parameters["decompression_selection"].default)
                       for fn in (laspy.open, laspy.read, laspy.LasReader.__init__)]
                impl = f"{int(dsc.all())} {full} {len(dsc.__members__)} {int(dsc.all().to_lazrs().value)} T " + ",".join(map(str, dfl))
            except Exception as ex:  # noqa
                impl = f"raised {type(ex).__name__}: {ex}"
            if mo != impl:
                bad("values of the DecompressionSelection class (all, OR of the members, member count, all().to_lazrs(), every layer "
                    "reached, defaults of open / read / LasReader)", {"members": member_bits()}, mo, impl)
        elif tag == "tolazrs":
            dsc = DS()
            mv = mo.split(",")
            for v, m in zip(sweep, mv):
                ctx.case(("tolazrs", v), nontrivial=True)
                try:
                    iv = str(int(dsc(v).to_lazrs().value))
                except Exception as ex:  # noqa
                    iv = "raised " + type(ex).__name__
                if m != iv:
                    bad("to_lazrs()", {"selection_value": v}, m, iv)
                    break
            ctx.count("flag class: to_lazrs sweep", len(sweep))
        elif tag == "selread":
            e = seld[i[0]]
            m = mo.split(" ")
            for j in selq[i]:
                c = e["cases"][j]
                ctx.case(("selread", e["laz"], c["form"], c["route"], c["seekable"], c["backend"], c["pos"]), nontrivial=e["dd"]["format"] >= 6,
                         sample=sel_case_input(e["dd"], c) if (i[0] % 12 == 0 and j == 0) else None)
                ctx.count("selective read:" + c["form_class"] + ":" + ("layered" if e["dd"]["format"] >= 6 else "formats 0-5"))
                ctx.count("selective read route:" + c["route"] + ("" if c["seekable"] else " (non-seekable)"))
                got = c["got"]
                if isinstance(got, Exception):
                    if m[0] == "ok":
                        bad("selective read of a compressed file", sel_case_input(e["dd"], c), "ok", f"raised {type(got).__name__}: {got}")
                elif m[0] != "ok":
                    bad("selective read of a compressed file", sel_case_input(e["dd"], c), mo[:80], f"{len(got)} bytes")
                elif common.unhex(m[7]) != got:
                    mb = common.unhex(m[7])
                    k = next((x for x, (a, b) in enumerate(zip(mb, got)) if a != b), min(len(mb), len(got)))
                    ps = e["h"].point_format.size
                    bad("selective read of a compressed file: records differ", sel_case_input(e["dd"], c),
                        f"record {k // ps} byte {k % ps}: {mb[k] if k < len(mb) else None}", f"{got[k] if k < len(got) else None}")
        elif tag == "forms":
            c = fcs[i]
            inp = c["inp"]
            ctx.case(("forms", inp["entry"], inp["form"], inp["data"], inp["seekable_source"]), nontrivial=True)
            ctx.count("backend variants constructed:" + inp["entry"] + ":" + c["tok"] + ("" if inp["seekable_source"] else ":non-seekable"))
            m = mo.split(" ")
            if len(m) != 7:
                bad("forms of laz_backend: model", inp, mo[:120], c["z"]["tried"])
                continue
            # readers: every variant the loop tried; writers / appenders: the one that was constructed (the first of the selection)
            want = m[3] if inp["entry"] in READ_ENTRIES else (m[4] if inp["entry"] in WRITE_ENTRIES else m[2][:1])
            if c["z"]["tried"] != want:
                bad("forms of laz_backend: backend variants constructed, in order", inp,
                    f"{want} (the selection normalises to reader {m[0]}, writer {m[1]}, appender {m[2]})", c["z"]["tried"] or "-")
        elif tag == "pfile":
            pc_ = pcs[i]
            ctx.case(("pfile", repr(pc_["pd"])), nontrivial=bool(pc_["pd"]["strings"]))
            ctx.count("compressed file of an encoded header:" + pc_["pd"]["encoding_errors"])
            if mo != "ok " + common.hexb(pc_["z"]["raw"]):
                bad("compressed file bytes (written with encoding_errors)", pc_["pd"], where_differs(mo, pc_["z"]["raw"]), f"{len(pc_['z']['raw'])} bytes")
        else:
            d = ds[i]
            desc = d["desc"]
            if tag == "file":
                ctx.case(("file", d["laz_oneshot"]), nontrivial=desc["points"] > 0, sample=desc if i % 20 == 0 else None)
                ctx.count(f"points-vs-chunk:{'0' if desc['points'] == 0 else ('<' if desc['points'] < d['cs'] else ('=' if desc['points'] == d['cs'] else '>'))}")
                ctx.count("backend:" + desc["backend"])
                if mo != "ok " + common.hexb(d["laz_oneshot"]):
                    bad("compressed file bytes (one-shot)", desc, where_differs(mo, d["laz_oneshot"]), f"{len(d['laz_oneshot'])} bytes")
            elif tag == "session_err":
                ctx.case(("session_err", repr(desc)), nontrivial=True)
                if mo.startswith("ok"):
                    bad("compressed session fails in the implementation", desc, "accepted: " + mo[:60], d["error"])
            elif tag == "session":
                ctx.case(("session", d["laz_chunked"], tuple(desc["chunks"])), nontrivial=len([c for c in desc["chunks"] if c]) >= 2)
                if mo != "ok " + common.hexb(d["laz_chunked"]):
                    bad("compressed file bytes (chunked session)", desc, where_differs(mo, d["laz_chunked"]), f"{len(d['laz_chunked'])} bytes")
            elif tag in ("read", "read_ns"):
                got = d[tag]
                ctx.case((tag, d["laz_chunked"], desc["backend"]), nontrivial=desc["points"] > 0)
                ctx.count("read:" + ("seekable" if tag == "read" else "non-seekable") + (":evlrs" if desc["evlrs"] else ""))
                known = tag == "read_ns" and desc["points"] == 0 and desc["evlrs"] > 0
                cmp_read(bad, tag, desc, mo, got, KNOWN_EMPTY_NS if known else None)
            elif tag == "cursor":
                ctx.case(("cursor", d["laz_chunked"], tuple(d["ops"])), nontrivial=True)
                ctx.count("cursor-history")
                m = mo.split(" ")
                exp = list(d["cursor"])
                mm = [("ox" if t == "ox" else t) for t in (m[1].split(",") if len(m) > 1 and m[1] != "-" else [])]
                # the model prints seek results as empty record lists
                ops = d["ops"]
                mm = [("ox" if ops[j][0] == "S" and t == "ox" else t) for j, t in enumerate(mm)]
                if m[0] != "ok" or mm != exp or m[2] != m[1] or m[3] != "T":
                    bad("point-source history", {**desc, "ops": ops}, mo[:200], ",".join(exp)[:200])
                elif mm != list(d["cursor_kept"]):
                    k = next((j for j, (a, b) in enumerate(zip(mm, d["cursor_kept"])) if a != b), 0)
                    bad("point-source history: a buffer handed out earlier changed under later operations", {**desc, "ops": ops, "step": k},
                        f"step {k} ({ops[k]}) yields {mm[k][:80]}", f"the buffer of step {k}, kept by the caller, holds {d['cursor_kept'][k][:80]} after the history")
            elif tag == "append":
                ctx.case(("append", d["laz_chunked"], tuple(len(c) for c in d["app_chunks"])), nontrivial=any(len(c) for c in d["app_chunks"]))
                ctx.count("append-session")
                got = d["appended"]
                if isinstance(got, Exception):
                    bad("append session", desc, mo[:80], f"raised {type(got).__name__}: {got}")
                elif mo != "ok " + common.hexb(got):
                    bad("append session bytes", {**desc, "appended": [len(c) for c in d["app_chunks"]], "appended_shapes": d["app_shapes"]},
                        where_differs(mo, got), f"{len(got)} bytes")
    return dis


def summarize_state(tok):
    held, _, filev = tok.partition(";")

    def names(t):
        return [f"{u.decode('latin1')}/{r}" for u, r, _, _ in lasio.parse_vlrs(t)] if t not in ("-", "") and not t.startswith("raised") else t
    return f"held={names(held)} file={names(filev)}"


def where_differs(mo, raw):
    if not mo.startswith("ok "):
        return mo[:80]
    m = common.unhex(mo[3:])
    k = next((j for j, (a, b) in enumerate(zip(m, raw)) if a != b), min(len(m), len(raw)))
    return f"{len(m)} bytes, first difference at byte {k}"


def cmp_read(bad, tag, desc, mo, got, known_kind):
    m = mo.split(" ")
    if isinstance(got, Exception):
        if m[0] == "ok":
            bad(known_kind or f"{tag} of a compressed file", desc, "ok", f"raised {type(got).__name__}: {got}")
        return
    if m[0] != "ok":
        bad(f"{tag} of a compressed file", desc, mo[:80], f"{len(got.points)} points")
        return
    fields, vl, ev, fmt, comp, psize, pts = m[1:8]
    h = got.header
    problems = []
    if common.unhex(pts) != lasio.rec_bytes(got.points):
        problems.append("points")
    if vl != lasio.vlrs_tok(got.vlrs):
        problems.append("vlrs")
    iev = "none" if got.evlrs is None else "some:" + lasio.vlrs_tok(got.evlrs)
    if ev != iev:
        problems.append(f"evlrs ({ev[:40]} vs {iev[:40]})")
    if int(fmt) != h.point_format.id or int(psize) != h.point_format.size or (comp == "T") != bool(h.are_points_compressed):
        problems.append("format/size/compressed")
    mf = lasio.parse_assoc(fields)
    ia = lasio.header_assoc(h)
    for k, v in ia.items():
        if k in ("header_size", "number_of_vlrs", "extra_vlr_bytes", "extra_header_bytes"):
            continue
        if k in mf and mf[k] != v and not (k.startswith("number_of_points_by_return") and h.version.minor < 4 and int(k[27:-1]) >= 5):
            problems.append(f"field {k}: {mf[k]} vs {v}")
    if problems:
        bad(f"{tag} of a compressed file", desc, "; ".join(problems)[:150], "see left")


def run_session_both(sess, compress, backend):
    """a C04 writer session (chunks incl. empty / foreign-format ones, write_evlrs, close at any position) on a
    compressing or plain LasWriter: outcomes per op and the final bytes"""
    import laspy
    bio = io.BytesIO()
    try:
        w = laspy.LasWriter(bio, sess["header"], do_compress=compress, closefd=False, **(kw(backend) if compress else {}))
    except Exception as ex:  # noqa
        return ["open-err:" + common.exc_kind(ex)], None
    outs = []
    for op, sh in zip(sess["ops"], sess.get("shapes") or [None] * len(sess["ops"])):
        try:
            if op[0] == "P":
                rec, backing, _ = shaped(op[1], sh or "plain")
                w.write_points(rec)
                scribble(backing)
            elif op[0] == "E":
                w.write_evlrs(op[1])
            else:
                w.close()
            outs.append("ok")
        except Exception as ex:  # noqa
            outs.append("err:" + common.exc_kind(ex))
    return outs, bio.getvalue()


def mixed_append(rng, raw, h, backend, chunks, shapes=None):
    """a C06 append session: same-format records, scale-aware records with other scales/offsets, foreign formats"""
    import laspy
    bio = io.BytesIO(raw)
    outs = []
    with laspy.open(bio, mode="a", closefd=False, **kw(backend)) as a:
        for c, sh in zip(chunks, shapes or ["plain"] * len(chunks)):
            try:
                rec, backing, _ = shaped(c, sh)
                a.append_points(rec)
                scribble(backing)
                outs.append("ok")
            except Exception as ex:  # noqa
                outs.append("err:" + common.exc_kind(ex))
    return outs, bio.getvalue()


def gen_mixed_chunks(rng, h, cs):
    import laspy
    out = []
    for _ in range(rng.randrange(1, 4)):
        r = rng.random()
        if r < 0.5:
            out.append(lasio.rand_points(rng, h, rng.choice([0, 1, cs, cs + 1])))
        elif r < 0.8:
            rec0 = lasio.rand_points(rng, h, rng.choice([1, 2, cs + 1]), pattern="small")
            sc = np.array(h.scales) * rng.choice([1.0, 10.0, 0.5])
            of = np.array(h.offsets) + rng.choice([0.0, 1.0, -2.5])
            out.append(laspy.ScaleAwarePointRecord(rec0.array, rec0.point_format, sc, of))
        else:
            out.append(sessions.wrong_format_points(rng, h, rng.choice([0, 1, 2])))
    return out


# ---------------------------------------------------------------------------------
# search: the property stated on the implementation
# ---------------------------------------------------------------------------------
def py_rule(dc, is_path, suffix, backend_given):
    if dc is not None:
        return bool(dc)
    if is_path:
        return suffix.lower() == ".laz"
    return backend_given


def search(ctx, seeds):
    import laspy
    failing, seen = [], set()

    def add(kind, inp, why):
        if kind not in seen:
            seen.add(kind)
            failing.append({"kind": kind, "input": inp, "observed": str(why)[:300]})

    # (e) the Flag class DecompressionSelection itself (first: the most specific diagnosis of anything a selection breaks)
    for kind, inp, why in flag_class_problems():
        add(kind, {"case": "flag-class", **inp}, why)
    # (a) the decision rule, the compressed bit, exactly one LasZip record
    for canon, cmd, obs, nlz, suffix, is_path in decisions(ctx):
        route, kind, nm, dc, bname = canon
        inp = {"route": route, "dest": kind, "name": nm, "do_compress": dc, "backend": bname}
        if obs.startswith("raised"):
            add("write refused: " + obs, inp, obs)
            continue
        # LasData.write's path form documents no do_compress ("will be ignored"): it is the rule with do_compress=None
        eff_dc = None if (route == "lasdata" and is_path) else dc
        want = py_rule(eff_dc, is_path, suffix, bname != "none")
        if (obs == "T") != want:
            add(f"compress decision: {route}/{kind}/{'explicit' if dc is not None else 'implicit'}", inp,
                f"compressed={obs == 'T'} but the rule (explicit do_compress, else .laz case-insensitively for a path, else backend given) says {want}")
        if nlz != (1 if obs == "T" else 0):
            add("LasZip records in the written file", inp, f"{nlz} LasZip record(s) in a file whose compressed bit is {obs}")
    from laspy._compression import format as cf
    for f in range(64):
        c = cf.uncompressed_id_to_compressed(f)
        if not cf.is_point_format_compressed(c) or cf.compressed_id_to_uncompressed(c) != f or cf.is_point_format_compressed(f):
            add("compressed bit", {"id": f}, f"to_compressed={c}, is_compressed={cf.is_point_format_compressed(c)}, back={cf.compressed_id_to_uncompressed(c)}")

    # (i) the forms of laz_backend x every entry point that takes it, compressed against uncompressed (a complete sweep)
    for c in form_cases(ctx):
        inp = c["inp"]
        ctx.case(("backend-form", inp["entry"], inp["form"], inp["data"], inp["seekable_source"]), nontrivial=True,
                 sample=inp if inp["form"] == "own-serial" and inp["data"] == 1 and inp["entry"] == "laspy.open(a)" else None)
        ctx.count("laz_backend form:" + form_class(inp["form"]))
        ctx.count("laz_backend entry point:" + inp["entry"] + ("" if inp["seekable_source"] else " (non-seekable)"))
        v = form_verdict(c)
        if v:
            add(v[0], inp, v[1])
    # (b) VLR-list histories: counts of LasZip records
    for hh in histories(ctx):
        ops_seen = []
        lazy = False
        for t, st, ds_ in zip(hh["toks"], hh["states"], hh["desc"]):
            ops_seen.append(ds_)
            if st.startswith("raised"):
                add("VLR history raised", {"history": list(ops_seen)}, st)
                break
            held, _, filev = st.partition(";")
            nh = sum(is_lz(v) for v in lasio.parse_vlrs(held))
            nf = sum(is_lz(v) for v in lasio.parse_vlrs(filev)) if filev != "-" else 0
            if t[0] == "W":
                c = t[1] == "T"
                if nf != (1 if c else 0):
                    add("LasZip record " + ("duplicated/missing in a compressed copy" if c else "leaked into an uncompressed copy"),
                        {"history": list(ops_seen)}, f"{nf} LasZip record(s) in the file written by the last step")
            if t[0] == "O":
                lazy = True
            if t[0] == "T":
                lazy = False
                if nh:
                    add("LasZip record shown after reading", {"history": list(ops_seen)}, f"{nh} LasZip record(s) in the header's VLR list")
            if t[0] == "O" and nh:
                # allowed only while the point source of a non-empty compressed file does not exist yet
                raw = hh.get("last")
        # user's own records are never lost
    # (f) selective reads: what the form means, by dimension name, against the uncompressed file of the same data
    for e in sel_datasets(ctx):
        dd = e["dd"]
        if "error" in e:
            add("selective data set could not be written", dd, e["error"])
            continue
        try:
            ref = laspy.read(io.BytesIO(e["las"])).points
        except Exception as ex:  # noqa
            add("selective data set: the uncompressed file cannot be read", dd, f"{type(ex).__name__}: {ex}")
            continue
        whole = lasio.rec_bytes(ref)
        for c in e["cases"]:
            inp = sel_case_input(dd, c)
            got, plain = c["got"], c["plain"]
            cls = c["form_class"]
            if isinstance(plain, Exception) or plain != whole:
                add(f"uncompressed read with a decompression selection ({cls})", inp,
                    f"{type(plain).__name__}: {plain}" if isinstance(plain, Exception) else "differs from the plain read of the same file")
            if isinstance(got, Exception):
                if not isinstance(plain, Exception):
                    add(f"compressed read with a decompression selection failed ({cls})", inp, f"{type(got).__name__}: {got}")
                continue
            exp = expected_selected(ref, c["means"])
            if got != exp:
                ps = ref.point_format.size
                k = next((x for x, (a, b) in enumerate(zip(got, exp)) if a != b), min(len(got), len(exp)))
                names = list(ref.array.dtype.names)
                offs = {nm: ref.array.dtype.fields[nm][1] for nm in names}
                dim = max((nm for nm in names if offs[nm] <= k % ps), key=lambda nm: offs[nm]) if len(got) == len(exp) else "?"
                which = ("what the compressed file returns differs from the uncompressed file of the same data" if c["means"] == full_selection()
                         else "what the compressed file returns is not the uncompressed data with the unselected dimensions zeroed")
                add(f"decompression selection ({cls}): {which}", inp,
                    f"{len(got)} bytes vs {len(exp)}; first difference in record {k // ps}, byte {k % ps} (dimension {dim!r}): "
                    f"{got[k] if k < len(got) else None} instead of {exp[k] if k < len(exp) else None}")
            elif c["handed"] != [expected_lazrs_value(c["means"])]:
                add(f"decompression selection ({cls}): the backend is not handed what the selection means", inp,
                    f"decompressors were constructed with {[hex(v) for v in c['handed']]}, the selection means {expected_lazrs_value(c['means']):#x}")
    # (g) optional parameters of the writing entry points
    for pc_ in param_cases(ctx):
        pd = pc_["pd"]
        ctx.case(("params", repr(pd)), nontrivial=True, sample=pd if len(ctx.samples) < 5 and pd["strings"] and pd["route"] == "open" else None)
        ctx.count("parameter session:" + pd["route"] + ":" + pd["dest"])
        ctx.count("parameter session encoding_errors:" + pd["encoding_errors"] + (":non-ascii" if pd["strings"] else ""))
        if pc_["z"]:
            ctx.count("parameter session outcome:" + pc_["z"]["outcome"] + "@" + pc_["z"]["stage"])
        if pc_["verdict"]:
            add(pc_["verdict"][0], pd, pc_["verdict"][1])
    # (h) optional parameters of the reading entry points (closefd, read_evlrs, the forms of laz_backend), compressed
    #     against uncompressed source of the same data
    rng = ctx.rng
    for d in datasets(ctx):
        if "error" in d:
            continue
        fake_lazrs.CHUNK_SIZE = d["cs"]
        desc = d["desc"]
        for _ in range(2):
            closefd, read_evlrs = rng.random() < 0.5, rng.random() < 0.5
            route = rng.choice(["read", "open", "open", "LasReader"])
            seekable = rng.random() < 0.8
            if not seekable and desc["points"] == 0 and desc["evlrs"] > 0:
                continue      # the open known finding
            bn, bsel, tok = rng.choice([b for b in backend_choices() if seekable or "S" in b[2]])
            rin = {**desc, "case": "read-params", "route": route, "closefd": closefd, "read_evlrs": read_evlrs, "read_backend": bn,
                   "seekable_source": seekable}
            ctx.case(("read-params", d["laz_chunked"], route, closefd, read_evlrs, bn, seekable), nontrivial=desc["points"] > 0)
            ctx.count(f"reader parameters:{route}:closefd={closefd}:read_evlrs={read_evlrs if route != 'read' else '-'}")
            za = read_params_run(d["laz_chunked"], bsel, closefd, read_evlrs, route, seekable)
            ua = read_params_run(d["las"], bsel, closefd, read_evlrs, route, seekable)
            dk = [k for k in ua if k != "summary" and ua.get(k) != za.get(k)]
            if "summary" in ua and "summary" in za:
                dk += ["summary." + k for k in diff_keys(ua["summary"], za["summary"])]
            if dk:
                add("reader parameters (closefd / read_evlrs / laz_backend): compressed source behaves differently: " + ",".join(dk[:4]), rin,
                    {k: (str(ua.get(k))[:70], str(za.get(k))[:70]) for k in dk[:3] if not k.startswith("summary.")}
                    or show_diff(ua["summary"], za["summary"], [k[8:] for k in dk]))
    # (c) LAZ vs LAS of the same data
    for d in datasets(ctx):
        desc = d["desc"]
        if "error" in d:
            add("compressed write failed" if "error_las" not in d else "chunked write failed", desc, d["error"])
            continue
        fake_lazrs.CHUNK_SIZE = d["cs"]
        h = d["h"]
        bname, bk, btok = d["backend"]
        laz, las_raw = d["laz_chunked"], d["las"]
        if d["las_chunked"] != las_raw:
            add("chunked uncompressed write differs from one-shot", desc, where_differs("ok " + common.hexb(d["las_chunked"]), las_raw))
        # the file itself
        if not fmt_byte(laz) & 0x80 or fmt_byte(laz) & 0x40 or (fmt_byte(laz) & 0x3F) != h.point_format.id:
            add("point-format byte of a compressed file", desc, f"byte 104 = {fmt_byte(laz):#x}")
        nl = sum(is_lz(t) for t in raw_vlrs(laz))
        if nl != 1:
            add("LasZip records in a compressed file", desc, f"{nl} LasZip record(s)")
        if d["laz_oneshot"] != laz:
            add("chunked compressed write differs from one-shot", desc, where_differs("ok " + common.hexb(laz), d["laz_oneshot"]))
        try:
            ref = read_summary(laspy.read(io.BytesIO(las_raw)))
        except Exception as ex:  # noqa
            continue
        # whole-file reads, every backend selection (the LasData objects are kept and looked at again at the end)
        alive = []
        for bn, bsel, _ in backend_choices():
            try:
                obj = laspy.read(io.BytesIO(laz), **kw(bsel))
                got = read_summary(obj)
                alive.append((bn, obj, got))
            except Exception as ex:  # noqa
                add(f"compressed read failed ({bn})", desc, f"{type(ex).__name__}: {ex}")
                continue
            dk = diff_keys(ref, got)
            if dk:
                add("compressed read differs from uncompressed: " + ",".join(dk), {**desc, "read_backend": bn}, show_diff(ref, got, dk))
            if any(is_lz(v) for v in got["vlrs"]):
                add("LasZip record shown after reading", desc, "laspy.read(...).vlrs holds the LasZip record")
        # non-seekable: a list whose first entry cannot construct must fall back; EVLRs come from behind the chunk table
        for bn, bsel, tok in backend_choices():
            if "S" not in tok:
                continue
            try:
                got = read_summary(laspy.read(NonSeekable(laz), closefd=False, **kw(bsel)))
            except Exception as ex:  # noqa
                if desc["points"] == 0 and desc["evlrs"] > 0:
                    add(KNOWN_EMPTY_NS, {**desc, "read_backend": bn}, f"{type(ex).__name__}: {ex}")
                else:
                    add(f"non-seekable compressed read failed ({bn})", desc, f"{type(ex).__name__}: {ex}")
                continue
            dk = diff_keys(ref, got)
            if dk:
                add("non-seekable compressed read differs: " + ",".join(dk), {**desc, "read_backend": bn}, show_diff(ref, got, dk))
        # chunked reading and seek-and-read through the public reader: same history on both files
        n = desc["points"]
        ops = gen_ops(rng, n, d["cs"]) + [("R", -1)]
        ops = [(o, (v if v >= 0 else 10 ** 6)) for o, v in ops]
        try:
            a = run_reader(laz, bk, ops)
            b = run_reader(las_raw, None, ops)
            if a != b:
                k = next((j for j, (x, y) in enumerate(zip(a, b)) if x != y), 0)
                add("reader history differs between compressed and uncompressed", {**desc, "ops": ops[:k + 1]},
                    f"step {k}: {str(a[k])[:60]} vs {str(b[k])[:60]}")
        except Exception as ex:  # noqa
            add("reader history failed", {**desc, "ops": ops}, f"{type(ex).__name__}: {ex}")
        try:
            with laspy.open(io.BytesIO(laz), **kw(bk)) as r:
                acc = b"".join(lasio.rec_bytes(c) for c in r.chunk_iterator(rng.choice([1, d["cs"], d["cs"] + 1, 7])))
            if acc != ref["points"]:
                add("chunk iterator over a compressed file", desc, f"{len(acc)} bytes vs {len(ref['points'])}")
        except Exception as ex:  # noqa
            add("chunk iterator over a compressed file failed", desc, f"{type(ex).__name__}: {ex}")
        # kept pieces: the same history on both files, every piece kept alive until after the reader is closed
        psize = h.point_format.size
        for seekable in ((True, False) if rng.random() < 0.5 else (True,)):
            if not seekable and desc["points"] == 0 and desc["evlrs"] > 0:
                continue    # the open known finding (reported above under its own kind)
            kbk = bk if (seekable or "S" in btok) else B().Lazrs
            kops = gen_keep_ops(rng, n, d["cs"], seekable)
            kin = {**desc, "seekable_source": seekable, "ops": kops}
            ctx.case(("keep", laz, seekable, tuple(kops)), nontrivial=n > 0)
            ctx.count("kept-pieces history" + ("" if seekable else " (non-seekable)"))
            for o in kops:
                ctx.count("kept-pieces op:" + o[0])
            try:
                ka = run_keep(laz, kbk, kops, seekable)
                kb = run_keep(las_raw, None, kops, seekable)
            except Exception as ex:  # noqa
                add("kept-pieces history failed", kin, f"{type(ex).__name__}: {ex}")
                continue
            exp = expected_pieces(ref["points"], psize, n, kops)
            for side, kr in (("compressed", ka), ("uncompressed", kb)):
                if kr["changed"]:
                    c0 = kr["changed"][0]
                    upto = c0["changed_by_op"] + 1 if isinstance(c0["changed_by_op"], int) else len(kops)
                    add(f"a piece handed out by the reader of a {side} file changed under a later reader operation",
                        {**kin, "ops": kops[:upto], "closed_after": c0["changed_by_op"] == "close"}, c0)
                elif kr["snaps"] != exp:
                    k = next((j for j, (x, y) in enumerate(zip(kr["snaps"], exp)) if x != y), min(len(exp), len(kr["snaps"])))
                    add(f"a piece handed out by the reader of a {side} file is not the slice of the file's records", kin,
                        f"piece {k} of {len(kr['snaps'])} (expected {len(exp)} pieces), handed out by op {kr['piece_ops'][k] if k < len(kr['piece_ops']) else '-'}")
            if ka["outs"] != kb["outs"]:
                k = next((j for j, (x, y) in enumerate(zip(ka["outs"], kb["outs"])) if x != y), 0)
                add("kept-pieces history: outcomes differ between compressed and uncompressed", {**kin, "ops": kops[:k + 1]},
                    f"step {k}: {str(ka['outs'][k])[:80]} vs {str(kb['outs'][k])[:80]}")
            elif ka["finals"] != kb["finals"] or ka["snaps"] != kb["snaps"]:
                k = next((j for j, (x, y) in enumerate(zip(ka["finals"], kb["finals"])) if x != y), 0)
                add("kept pieces differ between compressed and uncompressed", kin,
                    f"piece {k} (handed out by op {ka['piece_ops'][k]}): {common.hexb(ka['finals'][k][:12])}.. vs {common.hexb(kb['finals'][k][:12])}..")
            for wa, wb in list(zip(ka["whole_snaps"], kb["whole_snaps"])) + list(zip(ka["whole_finals"], kb["whole_finals"])):
                dk = diff_keys(wb, wa)
                if dk:
                    add("LasData of reader.read() differs between compressed and uncompressed: " + ",".join(dk), kin,
                        {k: (str(wb[k])[:60], str(wa[k])[:60]) for k in dk[:3]})
        # append
        if "appended" in d:
            ap, apl = d["appended"], d["appended_las"]
            if isinstance(ap, Exception):
                if not isinstance(apl, Exception):
                    add("append to a compressed file failed", desc, f"{type(ap).__name__}: {ap}")
            elif not isinstance(apl, Exception):
                try:
                    ra, rb = read_summary(laspy.read(io.BytesIO(ap))), read_summary(laspy.read(io.BytesIO(apl)))
                    dk = diff_keys(rb, ra)
                    if dk:
                        add("append: compressed differs from uncompressed: " + ",".join(dk), {**desc, "appended": [len(c) for c in d["app_chunks"]]},
                            {k: (str(rb[k])[:60], str(ra[k])[:60]) for k in dk[:3]})
                    if sum(is_lz(t) for t in raw_vlrs(ap)) != 1:
                        add("LasZip records after append", desc, "not exactly one")
                    # the appended file is the file of the concatenation
                    allpts = laspy.PackedPointRecord(np.concatenate([d["pts"].array] + [c.array for c in d["app_chunks"]]), h.point_format)
                    d2 = dict(d, pts=allpts, cuts=[(0, len(allpts))])
                    whole = write_session(d2, True, False)
                    if whole != ap:
                        add("append: compressed file differs from the one-shot file of the concatenation", desc, where_differs("ok " + common.hexb(ap), whole))
                except Exception as ex:  # noqa
                    add("reading an appended compressed file failed", desc, f"{type(ex).__name__}: {ex}")
        # writing what was read again: compressed -> exactly one record, uncompressed -> none, also from a header taken early
        try:
            got = laspy.read(io.BytesIO(laz), **kw(bk))
            for comp in (True, False):
                bio = io.BytesIO()
                got.write(bio, do_compress=comp)
                k = sum(is_lz(t) for t in raw_vlrs(bio.getvalue()))
                if k != (1 if comp else 0):
                    add("LasZip record " + ("duplicated/missing in a compressed copy" if comp else "leaked into an uncompressed copy"),
                        {**desc, "route": "write of what laspy.read returned"}, f"{k} LasZip record(s)")
                back = read_summary(laspy.read(io.BytesIO(bio.getvalue())))
                dk = [x for x in diff_keys(ref, back)]
                if dk:
                    add("re-written copy differs: " + ",".join(dk), {**desc, "compressed_copy": comp}, "")
            early = laspy.open(io.BytesIO(laz), **kw(bk)).header    # before the lazy point source exists
            for comp in (True, False):
                bio = io.BytesIO()
                w = laspy.LasWriter(bio, early, do_compress=comp, closefd=False)
                if len(d["pts"]):
                    w.write_points(d["pts"])
                w.close()
                k = sum(is_lz(t) for t in raw_vlrs(bio.getvalue()))
                if k != (1 if comp else 0):
                    add("LasZip record " + ("duplicated/missing in a compressed copy" if comp else "leaked into an uncompressed copy"),
                        {**desc, "route": "header taken from a LAZ reader before its point source exists"}, f"{k} LasZip record(s)")
        except Exception as ex:  # noqa
            add("re-writing a compressed file failed", desc, f"{type(ex).__name__}: {ex}")
        for bn, obj, was in alive:
            dk = diff_keys(was, read_summary(obj))
            if dk:
                add("what laspy.read returned for a compressed file changed under later reads / writes: " + ",".join(dk),
                    {**desc, "read_backend": bn}, "the LasData was only kept by the caller")
    # (d) the writer sessions of C04 (refusals included) and the append sessions of C06 (rescaled and foreign records
    #     included), compressed against uncompressed: same outcomes, same read-back
    for _ in range(ctx.n(60, 600)):
        cs = rng.choice(CS_CHOICES)
        fake_lazrs.CHUNK_SIZE = cs
        sess = sessions.gen_writer_session(rng, ctx.thorough())
        sess["shapes"] = [(shaped(o[1], rng.choice(SHAPES))[2] if o[0] == "P" else None) for o in sess["ops"]]
        bk = rng.choice(backend_choices())
        oz, rz_ = run_session_both(sess, True, bk[1])
        ou, ru_ = run_session_both(sess, False, None)
        sd = {"chunk_size": cs, "version": str(sess["header"].version), "format": sess["header"].point_format.id, "backend": bk[0],
              "ops": [(o[0] + (str(len(o[1])) + ("" if o[0] != "P" or o[2] else "!fmt")) if o[0] != "C" else "C") for o in sess["ops"]],
              "shapes": sess["shapes"]}
        ctx.case(("wsession", repr(sd)), nontrivial=True)
        ctx.count("writer-session(C04)")
        for o in oz:
            ctx.count("writer-session-outcome:" + o)
        if oz != ou:
            add("writer session outcomes differ between compressed and uncompressed", sd, f"{oz} vs {ou}")
        elif rz_ is not None and ru_ is not None and oz and oz[-1] == "ok":
            try:
                a, b = read_summary(laspy.read(io.BytesIO(rz_))), read_summary(laspy.read(io.BytesIO(ru_)))
                dk = diff_keys(b, a)
                if dk:
                    add("writer session read-back differs: " + ",".join(dk), sd, {k: (str(b[k])[:60], str(a[k])[:60]) for k in dk[:3]})
            except Exception as ex:  # noqa
                add("writer session read-back failed", sd, f"{type(ex).__name__}: {ex}")
    for d in datasets(ctx)[:ctx.n(60, 600)]:
        if "error" in d:
            continue
        fake_lazrs.CHUNK_SIZE = d["cs"]
        chunks = gen_mixed_chunks(rng, d["h"], d["cs"])
        mshapes = pick_shapes(rng, chunks)
        sd = {**d["desc"], "appended": [f"{type(c).__name__[:5]}{len(c)}" for c in chunks], "appended_shapes": mshapes}
        ctx.case(("mixed-append", repr(sd)), nontrivial=True)
        ctx.count("append-session(C06 mix)")
        try:
            oz, rz_ = mixed_append(rng, d["laz_chunked"], d["h"], d["backend"][1], chunks, mshapes)
            ou, ru_ = mixed_append(rng, d["las"], d["h"], None, chunks, mshapes)
        except Exception as ex:  # noqa
            add("mixed append session failed", sd, f"{type(ex).__name__}: {ex}")
            continue
        for o in oz:
            ctx.count("mixed-append-outcome:" + o)
        if oz != ou:
            add("append outcomes differ between compressed and uncompressed", sd, f"{oz} vs {ou}")
            continue
        try:
            a, b = read_summary(laspy.read(io.BytesIO(rz_))), read_summary(laspy.read(io.BytesIO(ru_)))
            dk = diff_keys(b, a)
            if dk:
                add("mixed append read-back differs: " + ",".join(dk), sd, {k: (str(b[k])[:60], str(a[k])[:60]) for k in dk[:3]})
        except Exception as ex:  # noqa
            add("mixed append read-back failed", sd, f"{type(ex).__name__}: {ex}")
    return failing[:10]


def replay_selection(inp):
    import laspy
    dd = {k: inp[k] for k in ("chunk_size", "version", "format", "extra_types", "extra_names", "points", "pattern", "data_seed")}
    h, pts, las_raw, laz = build_sel_data(dd)
    ds, bits, full = DS(), member_bits(), full_selection()
    form = inp["selection"]
    if form == "default":
        obj = NOTHING
    elif form == "None":
        obj = None
    elif form.startswith(("all()", "base()")) and "|" not in form:
        # a method chain printed by selection_forms: all() / base() followed by skip_<m>() / decompress_<m>() calls
        parts = form.split(".")
        obj = ds.all() if parts[0] == "all()" else ds.base()
        for part in parts[1:]:
            name = part[:-2]
            if not part.endswith("()") or not name.startswith(("skip_", "decompress_")) or name.split("_", 1)[1].upper() not in bits:
                raise ValueError(f"replay: unknown selection form {form!r}")
            obj = getattr(obj, name)()
    elif form == "every member OR-ed":
        obj = ds(0)
        for nm in bits:
            obj = obj | ds[nm]
    elif form.startswith("base()|"):
        obj = ds.base()
        for nm in form.split("|")[1:]:
            obj = obj | ds[nm]
    else:
        obj = ds(int(inp["selection_value_passed"]))
    bk = {b[0]: b[1] for b in backend_choices()}[inp["backend"]]
    del SEL_LOG[:]
    got = read_route(laz, inp["route"], obj, inp["seekable_source"], bk, dd["chunk_size"], dd["points"], inp.get("pos"))
    exp = expected_selected(laspy.read(io.BytesIO(las_raw)).points, int(inp["selection_means"]))
    print(f"replay: a fresh format-{dd['format']} file with extra dimensions {dd['extra_types']} ({dd['points']} points), written as LAS and LAZ;")
    print(f"  read through {inp['route']} with the selection {form} (object passed: {obj!r}, means {int(inp['selection_means']):#x})")
    print(f"  decompressors were handed {[hex(v) for v in SEL_LOG]}; the selection means {expected_lazrs_value(int(inp['selection_means'])):#x} on the backend's side")
    print(f"  records equal to the uncompressed data with the unselected dimensions zeroed: {got == exp}")
    return got != exp or SEL_LOG != [expected_lazrs_value(int(inp["selection_means"]))]


def replay(ctx, data):
    fi = data.get("failing_input", data)
    inp = fi.get("input", {}) if isinstance(fi, dict) else {}
    if isinstance(inp, dict) and inp.get("case") == "selection":
        bad = replay_selection(inp)
        print("REPRODUCED" if bad else "not reproduced on this source tree")
        return 1 if bad else 0
    if isinstance(inp, dict) and inp.get("case") == "params":
        tmp = tempfile.mkdtemp(prefix="verif_c14_r_", dir="/var/tmp")
        try:
            verdict, z, u = param_verdict(inp, tmp)
        finally:
            shutil.rmtree(tmp, ignore_errors=True)
        print(f"replay: {inp['route']} session to a {inp['dest']} destination, encoding_errors={inp['encoding_errors']!r}, closefd={inp['closefd']}, "
              f"backend {inp['backend']}, strings {inp['strings']} ({'bytes' if inp['as_bytes'] else 'str'})")
        for side, r in (("compressed", z), ("uncompressed", u)):
            print(f"  {side}: {r['outcome']} at stage {r['stage']} {r.get('message', '')}; destination closed: {r['closed']}")
        print("  verdict:", verdict)
        print("REPRODUCED" if verdict else "not reproduced on this source tree")
        return 1 if verdict else 0
    if isinstance(inp, dict) and inp.get("case") == "backend-form":
        import laspy  # noqa
        cs = int(inp["chunk_size"])
        fake_lazrs.CHUNK_SIZE = cs
        h, pts, more, evl = form_data(int(inp["data"]), cs)
        name, bsel, tok = next(b for b in backend_choices() if b[0] == inp["form"])
        tmp = tempfile.mkdtemp(prefix="verif_c14_r_", dir="/var/tmp")
        try:
            z = form_run(inp["entry"], bsel, True, h, pts, more, evl, inp["seekable_source"], tmp)
            u = form_run(inp["entry"], bsel, False, h, pts, more, evl, inp["seekable_source"], tmp)
        finally:
            shutil.rmtree(tmp, ignore_errors=True)
        c = {"inp": inp, "z": z, "u": u, "tok": form_token(name, tok),
             "expect_points": np.concatenate([pts.array] + ([more.array] if inp["entry"] in APPEND_ENTRIES else [])).tobytes()}
        v = form_verdict(c)
        print(f"replay: {inp['entry']} with laz_backend={bsel.make() if isinstance(bsel, Fresh) else bsel!r} ({form_class(name)}), "
              f"{len(pts)} points of format {h.point_format.id} (version {h.version}), chunk size {cs}"
              + (f", {len(more)} points appended" if inp["entry"] in APPEND_ENTRIES else "")
              + ("" if inp["seekable_source"] else ", non-seekable source"))
        print(f"  compressed:   {z['outcome']} (backend variants constructed: {z['tried'] or '-'})")
        print(f"  uncompressed: {u['outcome']}")
        print("  verdict:", v)
        print("REPRODUCED" if v else "not reproduced on this source tree")
        return 1 if v else 0
    if isinstance(inp, dict) and inp.get("case") == "flag-class":
        probs = flag_class_problems()
        for kind, _, why in probs:
            print(f"  {kind}: {why}")
        print("REPRODUCED" if probs else "not reproduced on this source tree")
        return 1 if probs else 0
    if isinstance(inp, dict) and "ops" in inp and "seekable_source" in inp:
        # a kept-pieces history: it does not depend on the particular records, a file of the described size is enough
        import laspy
        rng = ctx.rng
        fake_lazrs.CHUNK_SIZE = int(inp.get("chunk_size", 3))
        h = laspy.LasHeader(version=inp.get("version", "1.2"), point_format=int(inp.get("format", 0)))
        n = int(inp.get("points", 0))
        pts = lasio.rand_points(rng, h, n, pattern="random")
        d = {"h": h, "pts": pts, "evl": [], "cuts": [(0, n)], "backend": ("serial", B().Lazrs, "S")}
        laz, las_raw = write_session(d, True, False), write_session(d, False, False)
        ops = [tuple(o) for o in inp["ops"]]
        bk = {n_: b_ for n_, b_, _ in backend_choices()}.get(inp.get("backend"), None)
        if not inp["seekable_source"] and inp.get("backend") == "parallel":
            bk = B().Lazrs
        ka, kb = run_keep(laz, bk, ops, inp["seekable_source"]), run_keep(las_raw, None, ops, inp["seekable_source"])
        exp = expected_pieces(lasio.rec_bytes(pts), h.point_format.size, n, ops)
        bad = bool(ka["changed"] or kb["changed"] or ka["outs"] != kb["outs"] or ka["finals"] != kb["finals"] or ka["snaps"] != exp
                   or ka["whole_finals"] != kb["whole_finals"])
        print(f"replay of a kept-pieces history on a fresh {n}-point file of format {h.point_format.id} (chunk size {fake_lazrs.CHUNK_SIZE}): ops={ops}")
        print("  pieces changed under later operations (compressed):", ka["changed"][:2])
        print("  pieces changed under later operations (uncompressed):", kb["changed"][:2])
        print("  pieces at the end equal between the files:", ka["finals"] == kb["finals"], "| equal to the slices when handed out:", ka["snaps"] == exp)
        print("REPRODUCED" if bad else "not reproduced on this source tree")
        return 1 if bad else 0
    print("replay: re-run ./check C14 with the same VERIF_SEED; the failing input is described in the file:")
    print(str(fi)[:600])
    return 0
