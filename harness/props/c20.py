"""C20 — global-encoding flags are independent booleans.
Model: Gen/GenGlobalEncoding.v (translated from header.GlobalEncoding on every run).
Correspondence: generated functions vs the real class, exhaustively over 65536 x 5 x 2, plus
histories; the field through a written header. Search: the property itself on the real class."""
import io

from harness import common

FLAGS = ["gps_time_type", "waveform_data_packets_internal", "waveform_data_packets_external",
         "synthetic_return_numbers", "wkt"]
MASKS = [1, 2, 4, 8, 16]
ASSUMPTIONS = ["GlobalEncoding setters are called with bool/0/1 values (GpsTimeType members are 0/1)"]


def impl_set(v, i, b):
    from laspy.header import GlobalEncoding
    g = GlobalEncoding(v)
    setattr(g, FLAGS[i], (b if i else int(b)))
    return g.value


def impl_get(v, i):
    from laspy.header import GlobalEncoding
    return bool(int(getattr(GlobalEncoding(v), FLAGS[i])))


def correspond(ctx):
    ctx.extra["rule"] = ("exhaustive: every 16-bit value x 5 flags x {True,False} through GlobalEncoding setters/getters vs "
                         "the generated Gallina functions (extracted); random assignment histories; the field through "
                         "LasHeader.write_to/read_from. non-trivial = the assignment changes the value or the flag was already "
                         "at the target (the toggle-vs-clear case); distinct by (value, flag, target)")
    dis = []
    step = 1
    vals = list(range(0, 65536, step))
    cmds, meta = [], []
    for v in vals:
        for i in range(5):
            for b in (True, False):
                cmds.append(f"ge_set {i} {v} {'T' if b else 'F'}")
                meta.append((v, i, b))
    outs = common.run_model(cmds)
    gets = common.run_model([f"ge_get {i} {v}" for v in vals for i in range(5)])
    gi = 0
    for v in vals:
        for i in range(5):
            m = gets[gi] == "T"
            gi += 1
            r = impl_get(v, i)
            ctx.traces += 1
            if m != r:
                dis.append({"kind": f"get {FLAGS[i]}", "input": [v, i], "model": m, "impl": r})
    for (v, i, b), o in zip(meta, outs):
        r = impl_set(v, i, b)
        ctx.traces += 1
        ctx.case((v, i, b), nontrivial=True, sample={"value": v, "flag": FLAGS[i], "target": b, "impl": r, "model": int(o)})
        ctx.count("already-at-target" if bool(v & MASKS[i]) == b else "changes")
        if int(o) != r:
            dis.append({"kind": f"set {FLAGS[i]}={b} on {'set' if v & MASKS[i] else 'clear'} bit",
                        "input": [v, i, b], "model": int(o), "impl": r})
    # histories
    from laspy.header import GlobalEncoding
    nh = ctx.n(300, 5000)
    hist_cases = []
    for _ in range(nh):
        v0 = ctx.rng.randrange(65536)
        ops = [(ctx.rng.randrange(5), ctx.rng.random() < 0.5) for _ in range(ctx.rng.randrange(1, 30))]
        hist_cases.append((v0, ops))
    cmds = [f"ge_run {v0} " + ",".join(f"{i}{'T' if b else 'F'}" for i, b in ops) for v0, ops in hist_cases]
    outs = common.run_model(cmds)
    for (v0, ops), o in zip(hist_cases, outs):
        g = GlobalEncoding(v0)
        for i, b in ops:
            setattr(g, FLAGS[i], (b if i else int(b)))
        ctx.traces += 1
        ctx.case(("h", v0, tuple(ops)), sample=None)
        if int(o) != g.value:
            dis.append({"kind": "history", "input": [v0, ops], "model": int(o), "impl": g.value})
    return dis


def oracle_element(v, i, b):
    """The property on the implementation: returns None if it holds, else a description."""
    try:
        r = impl_set(v, i, b)
        impl_get(r, i)
    except Exception as ex:
        return f"setting {FLAGS[i]}={b} on value {v:#06x} and reading it back raises {ex!r}"
    if impl_get(r, i) != b:
        return f"read back {impl_get(r, i)} after setting {FLAGS[i]}={b} on value {v}"
    if (r ^ v) & ~MASKS[i] & 0xFFFF or not (0 <= r < 65536):
        return f"other bits changed: {v} -> {r} when setting {FLAGS[i]}={b}"
    return None


def oracle_header_field(v, version="1.4"):
    try:
        return _oracle_header_field(v, version)
    except Exception as ex:
        return f"writing/reading a header whose field is {v:#06x} raises {ex!r}"


def _oracle_header_field(v, version="1.4"):
    import laspy
    h = laspy.LasHeader(version=version, point_format=0)
    h.global_encoding.value = v
    bio = io.BytesIO()
    h.write_to(bio)
    raw = bio.getvalue()
    if int.from_bytes(raw[6:8], "little") != v:
        return f"bytes 6..8 of the written header hold {int.from_bytes(raw[6:8], 'little')} for value {v}"
    bio.seek(0)
    h2 = laspy.LasHeader.read_from(bio)
    if h2.global_encoding.value != v:
        return f"read back {h2.global_encoding.value} for value {v}"
    return None


def oracle_objects(rng):
    """flags across objects and across LasData operations: each header owns its 16-bit field; nothing but an assignment changes it"""
    import laspy
    import numpy as np
    from laspy.vlrs.known import WktCoordinateSystemVlr
    out = []
    a = laspy.LasHeader(version="1.4", point_format=6)
    a.global_encoding.value = 0x8011
    b = laspy.LasHeader(version="1.2", point_format=0)
    if b.global_encoding.value != 0:
        out.append(("fresh header starts non-zero", {"after": "another header was given 0x8011"}, f"a freshly created header starts with field {b.global_encoding.value:#06x}"))
    b.global_encoding.wkt = False
    b.global_encoding.gps_time_type = 0
    if a.global_encoding.value != 0x8011:
        out.append(("flags shared between headers", {}, f"header A changed to {a.global_encoding.value:#06x} when flags of header B were assigned"))
    c = laspy.create(point_format=3)
    if c.header.global_encoding is a.global_encoding or c.header.global_encoding.value != 0:
        out.append(("fresh header starts non-zero", {"via": "laspy.create"}, f"field {c.header.global_encoding.value:#06x}"))
    # through LasData operations, with a WKT record present (a tempting place to 'repair' the WKT flag)
    for ver, fmt in (("1.4", 6), ("1.4", 3), ("1.2", 1)):
        for v in (0x0000, 0x0001, 0x0010, 0xFFEF, 0x8000, rng.randrange(65536) & ~0x10):
            las = laspy.LasData(laspy.LasHeader(version=ver, point_format=fmt))
            las.vlrs.append(WktCoordinateSystemVlr('GEOGCS["WGS 84"]'))
            las.header.global_encoding.value = v
            steps = []
            las.points = laspy.ScaleAwarePointRecord.zeros(3, header=las.header); steps.append("points assigned")
            if las.header.global_encoding.value != v:
                out.append(("flag changed by LasData operation", {"version": ver, "value": v, "after": steps[-1]}, f"field became {las.header.global_encoding.value:#06x}"))
                continue
            las.update_header(); steps.append("update_header()")
            sub = las[np.array([0, 2])]; steps.append("las[index]")
            bio = io.BytesIO(); las.write(bio); steps.append("write")
            back = laspy.read(io.BytesIO(bio.getvalue()))
            for nm, val in (("after update_header/write", las.header.global_encoding.value), ("of las[index]", sub.header.global_encoding.value),
                            ("in the written file", int.from_bytes(bio.getvalue()[6:8], "little")), ("read back", back.header.global_encoding.value)):
                if val != v:
                    out.append(("flag changed by LasData operation", {"version": ver, "value": v, "where": nm}, f"field {nm} is {val:#06x}, was set to {v:#06x}"))
                    break
    # every way a header gets written: LasData.write, laspy.open(mode='w') and the appender's header rewrite (laspy.open(mode='a'))
    for ver, fmt in (("1.1", 0), ("1.2", 3), ("1.3", 4), ("1.4", 6), ("1.4", 1)):
        for v0, i, bval in ((0x0000, rng.randrange(5), True), (0xFFFF, rng.randrange(5), False), (0xFFEF, 4, True), (rng.randrange(65536), rng.randrange(5), rng.random() < 0.5)):
            try:
                exp = (v0 | MASKS[i]) if bval else (v0 & ~MASKS[i])
                h = laspy.LasHeader(version=ver, point_format=fmt)
                h.global_encoding.value = v0
                setattr(h.global_encoding, FLAGS[i], bval)
                bio = io.BytesIO()
                with laspy.open(bio, mode="w", header=h, closefd=False) as w:
                    w.write_points(laspy.ScaleAwarePointRecord.zeros(2, header=h))
                got = laspy.read(io.BytesIO(bio.getvalue())).header.global_encoding.value
                if got != exp or int.from_bytes(bio.getvalue()[6:8], "little") != exp:
                    out.append(("field lost through laspy.open(mode='w')", {"version": ver, "format": fmt, "value": v0, "flag": FLAGS[i], "target": bval},
                                f"field {exp:#06x} was written/read back as {got:#06x}"))
                # appender: the file holds v0; the flag is assigned on the appender's header, which is rewritten on close
                h0 = laspy.LasHeader(version=ver, point_format=fmt)
                h0.global_encoding.value = v0
                bio = io.BytesIO()
                with laspy.open(bio, mode="w", header=h0, closefd=False) as w:
                    w.write_points(laspy.ScaleAwarePointRecord.zeros(1, header=h0))
                bio.seek(0)
                with laspy.open(bio, mode="a", closefd=False) as ap:
                    if ap.header.global_encoding.value != v0:
                        out.append(("appender header", {"version": ver, "value": v0}, f"the appender's header holds {ap.header.global_encoding.value:#06x}"))
                    setattr(ap.header.global_encoding, FLAGS[i], bval)
                    if rng.random() < 0.5:
                        ap.append_points(laspy.ScaleAwarePointRecord.zeros(1, header=ap.header))
                got = laspy.read(io.BytesIO(bio.getvalue())).header.global_encoding.value
                if got != exp:
                    out.append(("field lost through the appender's header rewrite", {"version": ver, "format": fmt, "file_value": v0, "flag": FLAGS[i], "target": bval},
                                f"{FLAGS[i]}={bval} assigned on the appender's header ({v0:#06x} -> {exp:#06x}); the file read back holds {got:#06x}"))
            except Exception as ex:
                out.append(("writing a header raises", {"version": ver, "format": fmt, "value": v0, "flag": FLAGS[i], "target": bval}, repr(ex)))
    return out


def search(ctx, seeds):
    failing = []
    seen = set()
    for kind, inp, why in oracle_objects(ctx.rng):
        if kind not in seen:
            seen.add(kind)
            failing.append({"kind": kind, "input": inp, "observed": why})
    for v in range(65536):
        for i in range(5):
            for b in (True, False):
                why = oracle_element(v, i, b)
                if why:
                    kind = f"set {FLAGS[i]}={b} on {'set' if v & MASKS[i] else 'clear'} bit"
                    if kind not in seen:
                        seen.add(kind)
                        failing.append({"kind": kind, "input": {"value": v, "flag": FLAGS[i], "target": b}, "observed": why,
                                        "replay": f"g = laspy.header.GlobalEncoding({v}); g.{FLAGS[i]} = {b}; g.value"})
    vals = list(range(65536)) if ctx.thorough() else sorted(set([0, 1, 0xFFFF, 0x8000, 0xFFE0, 0x1F] + [ctx.rng.randrange(65536) for _ in range(1500)]))
    for v in vals:
        ctx.case(("hdr", v), sample=None)
        for ver in ("1.1", "1.2", "1.3", "1.4"):
            why = oracle_header_field(v, ver)
            if why and "header-field" + ver not in seen:
                seen.add("header-field" + ver)
                failing.append({"kind": "header-field " + ver, "input": {"value": v, "version": ver}, "observed": f"LAS {ver}: " + why})
    ctx.count("header-field-roundtrips", len(vals))
    return failing


def replay(ctx, data):
    fi = data.get("failing_input", {})
    inp = fi.get("input", {})
    if "flag" in inp:
        why = oracle_element(inp["value"], FLAGS.index(inp["flag"]), inp["target"])
    elif "value" in inp:
        why = oracle_header_field(inp["value"], inp.get("version", "1.4"))
    else:
        print("nothing to replay (no failing input in this file)")
        return 0
    print("REPRODUCED: " + why if why else "not reproduced on this tree")
    return 1 if why else 0
