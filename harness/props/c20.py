"""C20 — global-encoding flags are independent booleans.
Model: Gen/GenGlobalEncoding.v (translated from header.GlobalEncoding on every run) + Model/GlobalEncPy.v (the objects a caller
assigns to a flag: Python bool/int, GpsTimeType, numpy bool_/int8..uint64 scalars, 0-d arrays; seen through bool()/int() only).
Correspondence: generated functions vs the real class, exhaustively over 65536 x 5 x 2, every representation of the assigned
object on boundary values, histories; the field through a written header. Search: the property itself on the real class —
after EVERY assignment the flag reads back, no other bit moved, the field is still a plain int and serialises to its two bytes.
Round 6: every assignment is judged on ONE object (all five flags read before it, then the flag itself, every OTHER flag, .value and the
two written bytes observed on the same object: a getter / setter wired to the wrong bit, or remembering an earlier read, shows), over all
65536 x 5 x 2; and a matrix flag x target x class of starting value (zero, all ones, only this flag, all but this flag, reserved bits only,
other flags only, random) x every ROUTE that writes a header (write_to, LasWriter(), laspy.open(mode='w') with / without points, LasData.write
plain / after update_header / of a file read, convert + write, the open writer's own header, the appender's rewrite at close with nothing /
only empty chunks / points appended before or after the assignment, LasAppender()): the u16 at byte 6 of what was written is the field
after the assignment(s) and the header read back shows it through .value and every flag."""
import io

from harness import common

DRIVER = "c20"
FLAGS = ["gps_time_type", "waveform_data_packets_internal", "waveform_data_packets_external",
         "synthetic_return_numbers", "wkt"]
MASKS = [1, 2, 4, 8, 16]
ASSUMPTIONS = ["the object assigned to a flag is a Python bool/int, a GpsTimeType member, a numpy bool_/integer scalar or a 0-d array of "
               "those (looked at through bool()/int()); a GPS time type is 0 or 1; GlobalEncoding.value itself is assigned Python ints only"]

# ---- the objects assigned to a flag: (kind token of the model driver, integer held) -> Python object
SCALAR_KINDS = ["b", "i", "g", "nb", "s1", "s2", "s4", "s8", "u1", "u2", "u4", "u8"]
KINDS = SCALAR_KINDS + ["a" + k for k in SCALAR_KINDS if k != "g"]


def kind_range(kind):
    k = kind[1:] if kind[0] == "a" else kind
    if k in ("b", "nb", "g"):
        return 0, 1
    if k == "i":
        return -(1 << 70), 1 << 70
    n = 8 * int(k[1:])
    return (-(1 << (n - 1)), (1 << (n - 1)) - 1) if k[0] == "s" else (0, (1 << n) - 1)


def make_value(kind, z):
    """the Python object of that kind holding the integer z"""
    import numpy as np
    from laspy.header import GpsTimeType
    if kind[0] == "a":
        return np.array(make_value(kind[1:], z))
    if kind == "b":
        return bool(z)
    if kind == "i":
        return int(z)
    if kind == "g":
        return GpsTimeType(z)
    if kind == "nb":
        return np.bool_(z)
    return {"s1": np.int8, "s2": np.int16, "s4": np.int32, "s8": np.int64, "u1": np.uint8, "u2": np.uint16, "u4": np.uint32, "u8": np.uint64}[kind](z)


def kind_values(kind, legal_gps_only):
    """boundary integers of the kind: 0, 1, the extremes, values whose low bits are all zero (truthy all the same)"""
    lo, hi = kind_range(kind)
    cand = [0, 1] if legal_gps_only else [0, 1, 2, 3, -1, 16, 255, 256, 1 << 16, 1 << 32, lo, hi, hi - 1, lo + 1]
    return sorted({z for z in cand if lo <= z <= hi})


def describe(kind, z):
    return repr(make_value(kind, z)) + (" (0-d array)" if kind[0] == "a" else "")


def pyval_cases(ctx, base_values):
    """(value, flag, kind, z, legal target?) over every kind x boundary integers x flags x base values"""
    out = []
    for i in range(5):
        for kind in KINDS:
            if kind == "g" and i != 0:
                continue
            for z in kind_values(kind, False):
                legal = (i != 0) or z in (0, 1)
                if kind == "g" and not legal:
                    continue
                for v in base_values:
                    out.append((v, i, kind, z, legal))
    return out


def base_values(ctx):
    return sorted(set([0, 0xFFFF, 0x1F, 0xFFE0, 0x8000, 0x0010, 0xFFEF] + [ctx.rng.randrange(65536) for _ in range(ctx.n(6, 60))]))


def impl_set(v, i, b):
    from laspy.header import GlobalEncoding
    g = GlobalEncoding(v)
    setattr(g, FLAGS[i], (b if i else int(b)))
    return g.value


def impl_get(v, i):
    from laspy.header import GlobalEncoding
    return bool(int(getattr(GlobalEncoding(v), FLAGS[i])))


def correspond(ctx):
    ctx.extra["rule"] = ("exhaustive: every 16-bit value x 5 flags x {True,False} through GlobalEncoding setters/getters vs "
                         "the generated Gallina functions (extracted); every representation of the assigned object (Python bool/int, GpsTimeType, "
                         "numpy bool_/int8..uint64, 0-d arrays) x boundary integers (0, 1, extremes, truthy values with zero low bits) x flags x "
                         "field values vs ge_set_py, with the type of the resulting field; random assignment histories (bool and any-representation); the field through "
                         "LasHeader.write_to/read_from; flag x target x starting-value class x every route that writes a header (writer, LasData.write, convert, "
                         "the open writer's header, appender sessions appending nothing / empty chunks / points). non-trivial = the assignment changes the value or the flag was already "
                         "at the target (the toggle-vs-clear case); distinct by (value, flag, target)")
    dis = []
    step = 1
    vals = list(range(0, 65536, step))
    cmds, meta = [], []
    for v in vals:
        for i in range(5):
            for b in (True, False):
                cmds.append(f"ge_set {i} {v} {'T' if b else 'F'}")
                meta.append((v, i, b))
    outs = common.run_model(cmds)
    gets = common.run_model([f"ge_get {i} {v}" for v in vals for i in range(5)])
    gi = 0
    for v in vals:
        for i in range(5):
            m = gets[gi] == "T"
            gi += 1
            r = impl_get(v, i)
            ctx.traces += 1
            if m != r:
                dis.append({"kind": f"get {FLAGS[i]}", "input": [v, i], "model": m, "impl": r})
    for (v, i, b), o in zip(meta, outs):
        r = impl_set(v, i, b)
        ctx.traces += 1
        ctx.case((v, i, b), nontrivial=True, sample={"value": v, "flag": FLAGS[i], "target": b, "impl": r, "model": int(o)})
        ctx.count("already-at-target" if bool(v & MASKS[i]) == b else "changes")
        if int(o) != r:
            dis.append({"kind": f"set {FLAGS[i]}={b} on {'set' if v & MASKS[i] else 'clear'} bit",
                        "input": [v, i, b], "model": int(o), "impl": r})
    # every representation of the assigned object (also illegal GPS time types: the model keeps bit 0 of int(value))
    from laspy.header import GlobalEncoding
    pc = pyval_cases(ctx, base_values(ctx))
    outs = common.run_model([f"ge_setp {i} {v} {kind} {z}" for v, i, kind, z, _ in pc], name=DRIVER)
    for (v, i, kind, z, legal), o in zip(pc, outs):
        mv, mlegal, mtruth = o.split(" ")
        ctx.traces += 1
        ctx.case(("py", v, i, kind, z), nontrivial=True, sample={"value": v, "flag": FLAGS[i], "assigned": describe(kind, z), "model": o})
        ctx.count("assigned:" + ("0-d array" if kind[0] == "a" else {"b": "bool", "i": "int", "g": "GpsTimeType", "nb": "numpy.bool_"}.get(kind, "numpy integer")))
        try:
            g = GlobalEncoding(v)
            setattr(g, FLAGS[i], make_value(kind, z))
            r, rt = g.value, type(g.value).__name__
        except Exception as ex:
            r, rt = "raises " + common.exc_kind(ex), "-"
        if (mlegal == "T") != legal or (mtruth == "T") != (z != 0):
            dis.append({"kind": "value domain", "input": [v, i, kind, z], "model": o, "impl": [legal, z != 0]})
        if r != int(mv) or rt != "int":
            dis.append({"kind": f"set {FLAGS[i]}={describe(kind, z)}", "input": {"value": v, "flag": FLAGS[i], "kind": kind, "int": z},
                        "model": f"{mv} (a plain int)", "impl": f"{r} ({rt})"})
    # histories
    nh = ctx.n(300, 5000)
    hist_cases = []
    for _ in range(nh):
        v0 = ctx.rng.randrange(65536)
        ops = [(ctx.rng.randrange(5), ctx.rng.random() < 0.5) for _ in range(ctx.rng.randrange(1, 30))]
        hist_cases.append((v0, ops))
    cmds = [f"ge_run {v0} " + ",".join(f"{i}{'T' if b else 'F'}" for i, b in ops) for v0, ops in hist_cases]
    outs = common.run_model(cmds)
    for (v0, ops), o in zip(hist_cases, outs):
        g = GlobalEncoding(v0)
        for i, b in ops:
            setattr(g, FLAGS[i], (b if i else int(b)))
        ctx.traces += 1
        ctx.case(("h", v0, tuple(ops)), sample=None)
        if int(o) != g.value:
            dis.append({"kind": "history", "input": [v0, ops], "model": int(o), "impl": g.value})
    # histories whose assigned objects range over every representation (legal targets)
    hp = [py_history(ctx.rng) for _ in range(ctx.n(300, 5000))]
    outs = common.run_model([f"ge_runp {v0} " + ",".join(f"{i}:{k}:{z}" for i, k, z in ops) for v0, ops in hp], name=DRIVER)
    for (v0, ops), o in zip(hp, outs):
        ctx.traces += 1
        ctx.case(("hp", v0, tuple(ops)), sample=None)
        try:
            g = GlobalEncoding(v0)
            for i, k, z in ops:
                setattr(g, FLAGS[i], make_value(k, z))
            r, rt = g.value, type(g.value).__name__
        except Exception as ex:
            r, rt = "raises " + common.exc_kind(ex), "-"
        if r != int(o) or rt != "int":
            dis.append({"kind": "history of assigned objects", "input": [v0, ops], "model": f"{o} (a plain int)", "impl": f"{r} ({rt})"})
    return dis


def py_history(rng):
    v0 = rng.choice([0, 0xFFFF, rng.randrange(65536)])
    ops = []
    for _ in range(rng.randrange(1, 12)):
        i = rng.randrange(5)
        k = rng.choice([k for k in KINDS if k != "g" or i == 0])
        ops.append((i, k, rng.choice(kind_values(k, i == 0))))
    return v0, ops


def oracle_assigned(v, i, kind, z):
    """The property on the implementation for one assignment of an object of any representation: the flag reads back the truth
    value of the object, no other bit moves, and the field still is what a header can carry: a plain int that serialises to its
    two little-endian bytes. Returns None if it holds, else a description."""
    from laspy.header import GlobalEncoding
    what = f"{FLAGS[i]} = {describe(kind, z)} on value {v:#06x}"
    exp = (v | MASKS[i]) if z != 0 else (v & ~MASKS[i])
    try:
        g = GlobalEncoding(v)
        setattr(g, FLAGS[i], make_value(kind, z))
        back = getattr(g, FLAGS[i])
        if bool(int(back)) != (z != 0):
            return f"{what}: the flag reads back {back!r}"
        if g.value != exp:
            return f"{what}: the field became {int(g.value):#06x}, expected {exp:#06x}"
        if type(g.value) is not int:
            return f"{what}: the field became a {type(g.value).__module__}.{type(g.value).__name__} (no longer a plain int: a header carrying it cannot be written)"
        if i and type(back) is not bool:
            return f"{what}: the getter returns a {type(back).__name__}"
        bio = io.BytesIO()
        g.write_to(bio)
        if bio.getvalue() != exp.to_bytes(2, "little"):
            return f"{what}: the field serialises to {bio.getvalue().hex()}"
    except Exception as ex:
        return f"{what}: raises {ex!r}"
    return None


def oracle_assigned_header(rng, v, i, kind, z, version):
    """the same through a header: assign on header.global_encoding, write the header, read it back; then through a file"""
    import laspy
    what = f"LAS {version}: header.global_encoding.{FLAGS[i]} = {describe(kind, z)} on value {v:#06x}"
    exp = (v | MASKS[i]) if z != 0 else (v & ~MASKS[i])
    try:
        h = laspy.LasHeader(version=version, point_format=rng.choice([0, 1]))
        h.global_encoding.value = v
        setattr(h.global_encoding, FLAGS[i], make_value(kind, z))
        bio = io.BytesIO()
        h.write_to(bio)
        if int.from_bytes(bio.getvalue()[6:8], "little") != exp:
            return f"{what}: bytes 6..8 of the written header hold {int.from_bytes(bio.getvalue()[6:8], 'little'):#06x}, expected {exp:#06x}"
        back = laspy.LasHeader.read_from(io.BytesIO(bio.getvalue()))
        if back.global_encoding.value != exp or type(back.global_encoding.value) is not int:
            return f"{what}: read back {back.global_encoding.value!r}"
        las = laspy.LasData(h)
        out = io.BytesIO()
        las.write(out)
        got = laspy.read(io.BytesIO(out.getvalue())).header.global_encoding.value
        if got != exp:
            return f"{what}: LasData.write / laspy.read give {got:#06x}, expected {exp:#06x}"
    except Exception as ex:
        return f"{what}: writing / reading the header raises {ex!r}"
    return None


def read_flags(g):
    return [bool(int(getattr(g, f))) for f in FLAGS]


def observe(g, exp, what):
    """everything a caller can see of a GlobalEncoding object against the field value `exp` it must hold: .value, EVERY flag
    (the one assigned and the four others), the two bytes it serialises to. None if all agree, else a description"""
    if g.value != exp or type(g.value) is not int:
        return f"{what}: .value is {g.value!r}, expected {exp:#06x}"
    fl = read_flags(g)
    for j in range(5):
        if fl[j] != bool(exp & MASKS[j]):
            return f"{what}: .value is {exp:#06x} and {FLAGS[j]} reads {getattr(g, FLAGS[j])!r}"
    bio = io.BytesIO()
    g.write_to(bio)
    if bio.getvalue() != exp.to_bytes(2, "little"):
        return f"{what}: .value is {exp:#06x} and the field serialises to {bio.getvalue().hex()}"
    return None


def oracle_element(v, i, b):
    """The property on the implementation, on ONE object: every flag is read before the assignment (whatever an object may
    remember of earlier reads is there), the flag is assigned, then the flag itself, every OTHER flag, .value and the written
    bytes are observed on the same object. Returns None if it holds, else a description."""
    from laspy.header import GlobalEncoding
    what = f"GlobalEncoding({v:#06x}).{FLAGS[i]} = {b}"
    try:
        g = GlobalEncoding(v)
        why = observe(g, v, f"GlobalEncoding({v:#06x}) before any assignment")
        if why:
            return why
        setattr(g, FLAGS[i], (b if i else int(b)))
        r = g.value
        if bool(int(getattr(g, FLAGS[i]))) != b:
            return f"{what}: the flag reads back {getattr(g, FLAGS[i])!r}"
        if type(r) is not int or (r ^ v) & ~MASKS[i] or not (0 <= r < 65536):
            return f"{what}: other bits changed: {v:#06x} -> {r!r}"
        why = observe(g, (v | MASKS[i]) if b else (v & ~MASKS[i]), what)
        if why:
            return why
        # the field assigned as a whole on the same object (after its flags were read and one was assigned): every flag follows
        w = (v ^ 0xFFFF) if b else ((v * 40503 + 1) & 0xFFFF)
        g.value = w
        return observe(g, w, f"{what}; then .value = {w:#06x} on the same object")
    except Exception as ex:
        return f"{what} and reading everything back raises {ex!r}"


def oracle_header_field(v, version="1.4"):
    try:
        return _oracle_header_field(v, version)
    except Exception as ex:
        return f"writing/reading a header whose field is {v:#06x} raises {ex!r}"


def _oracle_header_field(v, version="1.4"):
    import laspy
    h = laspy.LasHeader(version=version, point_format=0)
    h.global_encoding.value = v
    bio = io.BytesIO()
    h.write_to(bio)
    raw = bio.getvalue()
    if int.from_bytes(raw[6:8], "little") != v:
        return f"bytes 6..8 of the written header hold {int.from_bytes(raw[6:8], 'little')} for value {v}"
    bio.seek(0)
    h2 = laspy.LasHeader.read_from(bio)
    if h2.global_encoding.value != v:
        return f"read back {h2.global_encoding.value} for value {v}"
    return None


def oracle_objects(rng):
    """flags across objects and across LasData operations: each header owns its 16-bit field; nothing but an assignment changes it"""
    import laspy
    import numpy as np
    from laspy.vlrs.known import WktCoordinateSystemVlr
    out = []
    a = laspy.LasHeader(version="1.4", point_format=6)
    a.global_encoding.value = 0x8011
    b = laspy.LasHeader(version="1.2", point_format=0)
    if b.global_encoding.value != 0:
        out.append(("fresh header starts non-zero", {"after": "another header was given 0x8011"}, f"a freshly created header starts with field {b.global_encoding.value:#06x}"))
    b.global_encoding.wkt = False
    b.global_encoding.gps_time_type = 0
    if a.global_encoding.value != 0x8011:
        out.append(("flags shared between headers", {}, f"header A changed to {a.global_encoding.value:#06x} when flags of header B were assigned"))
    c = laspy.create(point_format=3)
    if c.header.global_encoding is a.global_encoding or c.header.global_encoding.value != 0:
        out.append(("fresh header starts non-zero", {"via": "laspy.create"}, f"field {c.header.global_encoding.value:#06x}"))
    # every API object derived from a header owns its field: a deep copy, a writer's private copy, a converted / sub-set
    # LasData, two readers of the same bytes. Assigning a flag (with any representation of the value) on one side never
    # shows on the other, and the derived object starts with the source's value.
    import copy
    for v in (0x8011, 0x0000, 0xFFFF, rng.randrange(65536)):
        i = rng.randrange(5)
        k = rng.choice([k for k in KINDS if k != "g" or i == 0])
        z = rng.choice([0, 1])
        flip = (v & ~MASKS[i]) if v & MASKS[i] else (v | MASKS[i])
        zf = 0 if v & MASKS[i] else 1
        try:
            src = laspy.LasHeader(version="1.4", point_format=6)
            src.global_encoding.value = v
            las = laspy.LasData(src)
            las.points = laspy.ScaleAwarePointRecord.zeros(3, header=src)
            bio = io.BytesIO()
            w = laspy.open(bio, mode="w", header=src, closefd=False)
            derived = [("copy.deepcopy(header)", copy.deepcopy(src)), ("laspy.convert(las, point_format_id=7).header", laspy.convert(las, point_format_id=7).header),
                       ("laspy.convert(las).header", laspy.convert(las).header), ("las[index].header", las[np.array([0, 2])].header),
                       ("the writer's header", w.header)]
            for nm, d in derived:
                if d.global_encoding.value != v:
                    out.append(("derived header starts with another field", {"value": v, "derived": nm}, f"{nm} holds {d.global_encoding.value:#06x}, the source {v:#06x}"))
                if d.global_encoding is src.global_encoding:
                    out.append(("flags shared between headers", {"value": v, "derived": nm}, f"{nm} shares the GlobalEncoding object of its source"))
            # the source is modified after the derived objects exist: they keep their value
            setattr(src.global_encoding, FLAGS[i], make_value(k if k != "g" else "i", zf))
            for nm, d in derived:
                if d.global_encoding.value != v:
                    out.append(("flags shared between headers", {"value": v, "derived": nm, "flag": FLAGS[i]},
                                f"{nm} changed to {d.global_encoding.value:#06x} when {FLAGS[i]} of its source was assigned"))
            w.write_points(las.points)
            w.close()
            if int.from_bytes(bio.getvalue()[6:8], "little") != v:
                out.append(("flags shared between headers", {"value": v, "derived": "file written by laspy.open(mode='w')", "flag": FLAGS[i]},
                            f"the caller's header was modified after the writer was opened; the file holds {int.from_bytes(bio.getvalue()[6:8], 'little'):#06x}, the writer was given {v:#06x}"))
            r1 = laspy.open(io.BytesIO(bio.getvalue()))
            r2 = laspy.open(io.BytesIO(bio.getvalue()))
            setattr(r1.header.global_encoding, FLAGS[i], make_value(k if k != "g" else "i", zf))
            if r2.header.global_encoding.value != v or r1.header.global_encoding.value != flip:
                out.append(("flags shared between headers", {"value": v, "derived": "two readers of the same bytes", "flag": FLAGS[i]},
                            f"reader 1 holds {r1.header.global_encoding.value:#06x} (expected {flip:#06x}), reader 2 {r2.header.global_encoding.value:#06x} (expected {v:#06x})"))
            # assignment on a derived header leaves the (already modified) source alone
            for nm, d in derived[:4]:
                setattr(d.global_encoding, FLAGS[(i + 1) % 5], make_value("nb", 0 if v & MASKS[(i + 1) % 5] else 1))
            if src.global_encoding.value != flip:
                out.append(("flags shared between headers", {"value": v, "flag": FLAGS[(i + 1) % 5]},
                            f"the source header changed to {src.global_encoding.value:#06x} when flags of headers derived from it were assigned (expected {flip:#06x})"))
        except Exception as ex:
            out.append(("derived header raises", {"value": v, "flag": FLAGS[i], "assigned_kind": k}, repr(ex)))
    # through LasData operations, with a WKT record present (a tempting place to 'repair' the WKT flag)
    for ver, fmt in (("1.4", 6), ("1.4", 3), ("1.2", 1)):
        for v in (0x0000, 0x0001, 0x0010, 0xFFEF, 0x8000, rng.randrange(65536) & ~0x10):
            las = laspy.LasData(laspy.LasHeader(version=ver, point_format=fmt))
            las.vlrs.append(WktCoordinateSystemVlr('GEOGCS["WGS 84"]'))
            las.header.global_encoding.value = v
            steps = []
            las.points = laspy.ScaleAwarePointRecord.zeros(3, header=las.header); steps.append("points assigned")
            if las.header.global_encoding.value != v:
                out.append(("flag changed by LasData operation", {"version": ver, "value": v, "after": steps[-1]}, f"field became {las.header.global_encoding.value:#06x}"))
                continue
            las.update_header(); steps.append("update_header()")
            sub = las[np.array([0, 2])]; steps.append("las[index]")
            bio = io.BytesIO(); las.write(bio); steps.append("write")
            back = laspy.read(io.BytesIO(bio.getvalue()))
            for nm, val in (("after update_header/write", las.header.global_encoding.value), ("of las[index]", sub.header.global_encoding.value),
                            ("in the written file", int.from_bytes(bio.getvalue()[6:8], "little")), ("read back", back.header.global_encoding.value)):
                if val != v:
                    out.append(("flag changed by LasData operation", {"version": ver, "value": v, "where": nm}, f"field {nm} is {val:#06x}, was set to {v:#06x}"))
                    break
    return out


ROUTES = ["LasHeader.write_to", "LasWriter()", "laspy.open(mode='w')", "laspy.open(mode='w'), no points written", "LasData.write", "LasData.write after update_header()",
          "LasData.write of a file read", "laspy.convert + write", "the open writer's own header (assigned between open and close)",
          "the appender's header rewrite (nothing appended)", "the appender's header rewrite (only empty chunks appended)",
          "the appender's header rewrite (points appended after the assignment)", "the appender's header rewrite (points appended before the assignment)",
          "the appender's header rewrite (LasAppender(), nothing appended)"]
PAIRS = {"1.1": [0, 1], "1.2": [0, 1, 2, 3], "1.3": [0, 3, 4, 5], "1.4": [0, 3, 6, 7, 10]}


def start_values(rng, i):
    """classes of starting field values for flag i: nothing / everything set, only this flag, all but this flag, only reserved
    bits, only the other flags, anything"""
    m = MASKS[i]
    return [("zero", 0), ("all-ones", 0xFFFF), ("only-this-flag", m), ("all-but-this-flag", 0xFFFF & ~m), ("reserved-bits-only", 0xFFE0),
            ("other-flags-only", 0x1F & ~m), ("random", rng.randrange(65536))]


def run_route(route, ver, fmt, v0, assigns):
    """the two bytes at offset 6 of the file / header image produced by the route, and the header read back from it. `assigns` =
    list of (flag index, object) applied in order to the global encoding the route offers"""
    import laspy

    def apply(ge):
        for i, obj in assigns:
            setattr(ge, FLAGS[i], obj)
    h = laspy.LasHeader(version=ver, point_format=fmt)
    h.global_encoding.value = v0
    bio = io.BytesIO()
    if route == "LasHeader.write_to":
        apply(h.global_encoding)
        h.write_to(bio)
        return bio.getvalue(), laspy.LasHeader.read_from(io.BytesIO(bio.getvalue()))
    if route in ("LasWriter()", "laspy.open(mode='w')", "laspy.open(mode='w'), no points written"):
        apply(h.global_encoding)
        w = laspy.LasWriter(bio, h, closefd=False) if route == "LasWriter()" else laspy.open(bio, mode="w", header=h, closefd=False)
        with w:
            if "no points" not in route:
                w.write_points(laspy.ScaleAwarePointRecord.zeros(2, header=h))
    elif route == "the open writer's own header (assigned between open and close)":
        with laspy.open(bio, mode="w", header=h, closefd=False) as w:
            w.write_points(laspy.ScaleAwarePointRecord.zeros(1, header=h))
            apply(w.header.global_encoding)
            w.write_points(laspy.ScaleAwarePointRecord.zeros(1, header=h))
    elif route.startswith("LasData.write") or route == "laspy.convert + write":
        if route == "LasData.write of a file read":
            with laspy.open(bio, mode="w", header=h, closefd=False) as w:
                w.write_points(laspy.ScaleAwarePointRecord.zeros(2, header=h))
            las = laspy.read(io.BytesIO(bio.getvalue()))
            bio = io.BytesIO()
        else:
            las = laspy.LasData(h)
            las.points = laspy.ScaleAwarePointRecord.zeros(3, header=h)
        apply(las.header.global_encoding)
        if "update_header" in route:
            las.update_header()
        if route == "laspy.convert + write":
            las = laspy.convert(las, point_format_id=fmt)
        las.write(bio)
    else:
        with laspy.open(bio, mode="w", header=h, closefd=False) as w:
            w.write_points(laspy.ScaleAwarePointRecord.zeros(1, header=h))
        bio.seek(0)
        ap = laspy.lasappender.LasAppender(bio, closefd=False) if "LasAppender()" in route else laspy.open(bio, mode="a", closefd=False)
        with ap:
            if ap.header.global_encoding.value != v0:
                raise AssertionError(f"the appender's header holds {ap.header.global_encoding.value:#06x}, the file {v0:#06x}")
            if "before the assignment" in route:
                ap.append_points(laspy.ScaleAwarePointRecord.zeros(2, header=ap.header))
            apply(ap.header.global_encoding)
            if "after the assignment" in route:
                ap.append_points(laspy.ScaleAwarePointRecord.zeros(1, header=ap.header))
            elif "empty chunks" in route:
                ap.append_points(laspy.ScaleAwarePointRecord.zeros(0, header=ap.header))
                ap.append_points(laspy.ScaleAwarePointRecord.zeros(0, header=ap.header))
    raw = bio.getvalue()
    return raw, laspy.read(io.BytesIO(raw)).header


def oracle_routes(ctx):
    """every flag x both targets x every class of starting value x every ROUTE that writes a header: the u16 at byte 6 of what was
    written is the field after the assignment(s), and the header read back shows it through .value and every flag"""
    rng = ctx.rng
    out = []
    for i in range(5):
        for bval in (True, False):
            for cls, v0 in start_values(rng, i):
                for route in ROUTES:
                    for ver in (list(PAIRS) if ctx.thorough() else [rng.choice(list(PAIRS))]):
                        fmt = rng.choice(PAIRS[ver])
                        rep = rng.choice([k for k in KINDS if k != "g" or i == 0])      # any representation of the assigned value
                        assigns = [(i, make_value(rep, int(bval)))]
                        exp = (v0 | MASKS[i]) if bval else (v0 & ~MASKS[i])
                        desc = [f"{FLAGS[i]} = {describe(rep, int(bval))}"]
                        if rng.random() < 0.3:
                            # a second assignment, of another flag
                            j = rng.choice([k for k in range(5) if k != i])
                            b2 = rng.random() < 0.5
                            assigns.append((j, b2 if j else int(b2)))
                            exp = (exp | MASKS[j]) if b2 else (exp & ~MASKS[j])
                            desc.append(f"{FLAGS[j]} = {b2}")
                        ctx.case(("route", route, ver, v0, i, bval, len(assigns)), sample=None)
                        ctx.count("route:" + route)
                        ctx.count("start:" + cls)
                        inp = {"route": route, "version": ver, "format": fmt, "start_value": v0, "start_class": cls, "flag": FLAGS[i], "target": bval,
                               "assignments": desc, "expected_field": exp}
                        try:
                            raw, back = run_route(route, ver, fmt, v0, assigns)
                            got = int.from_bytes(raw[6:8], "little")
                            if got != exp:
                                out.append((f"field lost through {route}", inp, f"{v0:#06x} then {'; '.join(desc)}: the u16 at byte 6 of the written header is {got:#06x}, expected {exp:#06x}"))
                                continue
                            why = observe(back.global_encoding, exp, f"header read back from what {route} wrote")
                            if why:
                                out.append((f"field written through {route} not read back", inp, why))
                        except Exception as ex:
                            out.append((f"writing a header through {route} raises", inp, repr(ex)))
    return out


def search(ctx, seeds):
    failing = []
    seen = set()
    for kind, inp, why in oracle_objects(ctx.rng) + oracle_routes(ctx):
        if kind not in seen:
            seen.add(kind)
            failing.append({"kind": kind, "input": inp, "observed": why})
    for v in range(65536):
        for i in range(5):
            for b in (True, False):
                why = oracle_element(v, i, b)
                if why:
                    kind = f"set {FLAGS[i]}={b} on {'set' if v & MASKS[i] else 'clear'} bit"
                    if kind not in seen:
                        seen.add(kind)
                        failing.append({"kind": kind, "input": {"value": v, "flag": FLAGS[i], "target": b}, "observed": why,
                                        "replay": f"g = laspy.header.GlobalEncoding({v}); g.{FLAGS[i]} = {b}; g.value"})
    # every representation of the assigned object, legal targets only (a GPS time type is 0 or 1)
    bv = base_values(ctx)
    for v, i, kind, z, legal in pyval_cases(ctx, bv):
        if not legal:
            continue
        ctx.case(("oracle-py", v, i, kind, z), sample=None)
        why = oracle_assigned(v, i, kind, z)
        if not why and v in (bv[0], bv[-1], bv[len(bv) // 2]):
            why = oracle_assigned_header(ctx.rng, v, i, kind, z, ctx.rng.choice(["1.1", "1.2", "1.3", "1.4"]))
        if why:
            kind_ = f"assigned object: {FLAGS[i]} = {type(make_value(kind, z)).__name__}{' 0-d array' if kind[0] == 'a' else ''} {'truthy' if z else 'falsy'}"
            if kind_ not in seen and sum(1 for f in failing if f["kind"].startswith("assigned object")) < 3:
                seen.add(kind_)
                failing.append({"kind": kind_, "input": {"value": v, "flag": FLAGS[i], "assigned_kind": kind, "assigned_int": z}, "observed": why,
                                "replay": f"g = laspy.header.GlobalEncoding({v}); g.{FLAGS[i]} = {describe(kind, z)}; type(g.value), g.value; g.write_to(io.BytesIO())"})
    # histories over every representation: the oracle after EVERY assignment, then the header is written
    from laspy.header import GlobalEncoding
    import laspy
    for _ in range(ctx.n(200, 3000)):
        v0, ops = py_history(ctx.rng)
        ctx.case(("oracle-hp", v0, tuple(ops)), sample=None)
        why = None
        try:
            h = laspy.LasHeader(version=ctx.rng.choice(["1.1", "1.2", "1.3", "1.4"]), point_format=0)
            h.global_encoding.value = v0
            exp = v0
            for step, (i, k, z) in enumerate(ops):
                setattr(h.global_encoding, FLAGS[i], make_value(k, z))
                exp = (exp | MASKS[i]) if z else (exp & ~MASKS[i])
                if h.global_encoding.value != exp or type(h.global_encoding.value) is not int:
                    why = f"after step {step} ({FLAGS[i]} = {describe(k, z)}) the field is {h.global_encoding.value!r} ({type(h.global_encoding.value).__name__}), expected {exp:#06x} (int)"
                    break
                why = observe(h.global_encoding, exp, f"after step {step} ({FLAGS[i]} = {describe(k, z)})")
                if why:
                    break
            if why is None:
                bio = io.BytesIO()
                h.write_to(bio)
                got = laspy.LasHeader.read_from(io.BytesIO(bio.getvalue())).global_encoding.value
                if got != exp:
                    why = f"the header written after the history reads back {got:#06x}, expected {exp:#06x}"
        except Exception as ex:
            why = f"raises {ex!r}"
        if why and "history of assigned objects" not in seen:
            seen.add("history of assigned objects")
            failing.append({"kind": "history of assigned objects", "input": {"value": v0, "ops": [[FLAGS[i], k, z] for i, k, z in ops]}, "observed": why})
    vals = list(range(65536)) if ctx.thorough() else sorted(set([0, 1, 0xFFFF, 0x8000, 0xFFE0, 0x1F] + [ctx.rng.randrange(65536) for _ in range(1500)]))
    for v in vals:
        ctx.case(("hdr", v), sample=None)
        for ver in ("1.1", "1.2", "1.3", "1.4"):
            why = oracle_header_field(v, ver)
            if why and "header-field" + ver not in seen:
                seen.add("header-field" + ver)
                failing.append({"kind": "header-field " + ver, "input": {"value": v, "version": ver}, "observed": f"LAS {ver}: " + why})
    ctx.count("header-field-roundtrips", len(vals))
    return failing


def replay(ctx, data):
    fi = data.get("failing_input", {})
    inp = fi.get("input", {})
    if "route" in inp:
        i = FLAGS.index(inp["flag"])
        try:
            raw, back = run_route(inp["route"], inp["version"], inp["format"], inp["start_value"], [(i, inp["target"] if i else int(inp["target"]))])
            exp = (inp["start_value"] | MASKS[i]) if inp["target"] else (inp["start_value"] & ~MASKS[i])
            got = int.from_bytes(raw[6:8], "little")
            why = (f"the u16 at byte 6 is {got:#06x}, expected {exp:#06x}" if got != exp else observe(back.global_encoding, exp, "header read back"))
        except Exception as ex:
            why = repr(ex)
    elif "assigned_kind" in inp:
        why = oracle_assigned(inp["value"], FLAGS.index(inp["flag"]), inp["assigned_kind"], inp["assigned_int"])
    elif "flag" in inp and "value" in inp and "target" in inp:
        why = oracle_element(inp["value"], FLAGS.index(inp["flag"]), inp["target"])
    elif "value" in inp:
        why = oracle_header_field(inp["value"], inp.get("version", "1.4"))
    else:
        print("nothing to replay (no failing input in this file)")
        return 0
    print("REPRODUCED: " + why if why else "not reproduced on this tree")
    return 1 if why else 0
