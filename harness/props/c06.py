"""C06 — appending is equivalent to having written the concatenation.
Model: Model/Las.v appender (aopen/apoints/aclose/arun) vs file_of (Proofs/AppendProofs.v).
Correspondence: bytes after 1..3 append sessions vs the extracted model. Search: appended file vs the file a LasWriter produces
for original points + appended chunks (impl vs impl), VLR/EVLR preservation, caller's record untouched, foreign formats refused."""
import io

import numpy as np

from harness import common, lasio, sessions

ASSUMPTIONS = ["uncompressed files (LAZ append is C14)", "rescaling of differently scaled scale-aware records is compared against the writer's rule on the implementation, not modelled in Coq"]

_SESS = None


def gen(ctx):
    import laspy
    from laspy.lasappender import LasAppender
    rng = ctx.rng
    h = lasio.rand_header(rng)
    if rng.random() < 0.3:
        lasio.add_extra_dims(rng, h)
    n0 = rng.choice([0, 0, 1, 3, 12])
    A = lasio.rand_points(rng, h, n0)
    evl = None
    if h.version.minor >= 4 and rng.random() < 0.55:
        evl = laspy.vlrs.vlrlist.VLRList([lasio.rand_vlr(rng) for _ in range(rng.choice([1, 2]))])
    raw0 = lasio.write_las(h, A, evl)
    desc = {"version": str(h.version), "format": h.point_format.id, "orig_points": n0, "evlrs": len(evl or []), "vlrs": len(h.vlrs), "sessions": []}
    cur = raw0
    chunks_all, model_ok = [], True
    outs_all = []
    model_cmds = []
    for si in range(rng.choice([1, 1, 2, 3])):
        bio = io.BytesIO(cur)
        try:
            ap = LasAppender(bio, closefd=False)
        except Exception as ex:
            return {"desc": desc, "final": None, "error": "open: " + repr(ex)}
        toks, sdesc = [], []
        for _ in range(rng.randrange(0, 5)):
            r = rng.random()
            if r < 0.62:
                rec = lasio.rand_points(rng, h, rng.choice([0, 0, 1, 2, 7]))
                kind = "same"
            elif r < 0.8:
                # scale-aware record, same or different scaling (contents small enough to be representable)
                k = rng.choice([1, 2, 5])
                rec0 = lasio.rand_points(rng, h, k, pattern="small")
                sc = np.array(h.scales) * rng.choice([1.0, 1.0, 10.0, 0.5])
                of = np.array(h.offsets) + rng.choice([0.0, 0.0, 1.0, -2.5])
                rec = laspy.ScaleAwarePointRecord(rec0.array, rec0.point_format, sc, of)
                kind = "scaled" if (np.any(sc != h.scales) or np.any(of != h.offsets)) else "same"
            else:
                rec = sessions.wrong_format_points(rng, h, rng.choice([0, 1, 2]))
                kind = "foreign"
            before_rec = (lasio.rec_bytes(rec), tuple(map(float, getattr(rec, "scales", []))), tuple(map(float, getattr(rec, "offsets", []))))
            before_file = bio.getvalue()
            try:
                ap.append_points(rec)
                o = "ok"
            except Exception as ex:
                o = "err:" + common.exc_kind(ex)
            after_rec = (lasio.rec_bytes(rec), tuple(map(float, getattr(rec, "scales", []))), tuple(map(float, getattr(rec, "offsets", []))))
            outs_all.append((kind, len(rec), o, before_rec == after_rec, before_file == bio.getvalue()))
            sdesc.append(f"{kind}{len(rec)}")
            if kind == "foreign":
                toks.append("F" + common.hexb(bytes(len(rec) * h.point_format.size)))
            elif kind == "scaled":
                model_ok = False
                if o == "ok":
                    chunks_all.append(rec)
            else:
                toks.append("T" + common.hexb(lasio.rec_bytes(rec)))
                if o == "ok":
                    chunks_all.append(rec)
        try:
            ap.close()
        except Exception as ex:
            return {"desc": desc, "final": None, "error": "close: " + repr(ex)}
        desc["sessions"].append(sdesc)
        model_cmds.append((cur, toks))
        cur = bio.getvalue()
    return {"desc": desc, "orig": raw0, "header": h, "A": A, "evl": evl, "chunks": chunks_all, "final": cur, "outs": outs_all,
            "model_cmds": model_cmds if model_ok else None}


def sessions_for(ctx):
    global _SESS
    if _SESS is None:
        _SESS = [gen(ctx) for _ in range(ctx.n(260, 3000))]
    return _SESS


def correspond(ctx):
    ctx.extra["rule"] = ("random originals (every version/format, 0/1/3/12 points, +-VLRs, +-EVLRs, 30% with extra dims) x 1..3 successive append "
                         "sessions x 0..4 chunks each: same-format records (0/1/2/7 points), scale-aware records with equal or different "
                         "scales/offsets, foreign formats (other id, or same id and other extra dims). Model compared on sessions without "
                         "differently scaled records. non-trivial = at least one non-empty accepted chunk; distinct by description + bytes")
    ss = sessions_for(ctx)
    dis = []
    cmds, idx = [], []
    for i, s in enumerate(ss):
        ctx.case((repr(s["desc"]), s.get("final")), nontrivial=any(o[0] != "foreign" and o[1] > 0 and o[2] == "ok" for o in s.get("outs", [])),
                 sample={"session": s["desc"], "outcomes": [o[2] for o in s.get("outs", [])]})
        for o in s.get("outs", []):
            ctx.count(f"chunk:{o[0]}:{'empty' if o[1] == 0 else 'nonempty'}:{o[2]}")
        if s.get("model_cmds"):
            # chained sessions: each model session starts from the implementation's previous result (checked equal below)
            for cur, toks in s["model_cmds"]:
                cmds.append(f"arun {common.hexb(cur)} {s['header'].point_format.size} " + " ".join(toks))
                idx.append(i)
    outs = common.run_model(cmds)
    # expected result of each session = start of the next one / final
    k = 0
    for i, s in enumerate(ss):
        if not s.get("model_cmds"):
            continue
        mc = s["model_cmds"]
        for j, (cur, toks) in enumerate(mc):
            nxt = mc[j + 1][0] if j + 1 < len(mc) else s["final"]
            mo = outs[k]
            k += 1
            ctx.traces += 1
            parts = mo.split(" ")
            ok = len(parts) >= 3 and parts[-2] == "ok" and common.unhex(parts[-1]) == nxt
            if not ok:
                dis.append({"kind": "append session bytes", "input": s["desc"], "model": mo[:100], "impl": common.hexb(nxt)[:100]})
    return dis


def search(ctx, seeds):
    import laspy
    failing, seen = [], set()

    def add(kind, inp, why):
        if kind not in seen:
            seen.add(kind)
            failing.append({"kind": kind, "input": inp, "observed": why})
    for s in sessions_for(ctx):
        d = s["desc"]
        if s.get("final") is None:
            add("append session failed", d, s.get("error", ""))
            continue
        for kind, n, o, rec_same, file_same in s["outs"]:
            if kind == "foreign" and n > 0 and (o != "err:ELaspy" or not file_same):
                add("foreign format not refused", d, f"append_points of a foreign format ({n} points): {o}, file unchanged={file_same}")
            if kind == "scaled" and o == "err:EOverflow" and file_same:
                continue   # not representable in the file's scaling: refused, nothing written
            if kind != "foreign" and o != "ok":
                add(f"append of {kind} chunk failed", d, f"{n} points: {o}")
            if not rec_same:
                add("caller's record modified by append", d, f"{kind} chunk of {n} points changed (bytes/scales/offsets)")
        # reference: one writer session with the original header writing A then every accepted chunk
        h = s["header"]
        bio = io.BytesIO()
        try:
            with laspy.LasWriter(bio, h, closefd=False) as w:
                if len(s["A"]):
                    w.write_points(s["A"])
                for rec in s["chunks"]:
                    w.write_points(rec)
                if s["evl"]:
                    w.write_evlrs(s["evl"])
            ref = bio.getvalue()
        except Exception as ex:
            continue
        if ref != s["final"]:
            diff = next((i for i, (a, b) in enumerate(zip(ref, s["final"])) if a != b), min(len(ref), len(s["final"])))
            where = "header" if diff < 375 else "points/EVLRs"
            add(f"appended file differs from one-shot ({where})", d, f"first differing byte {diff}; lengths {len(s['final'])} vs {len(ref)}")
    return failing[:8]


def replay(ctx, data):
    print("replay: re-run ./check C06 with the same VERIF_SEED; the failing session is described in the file")
    return 0
