"""C06 — appending is equivalent to having written the concatenation.
Model: Model/Las.v appender (aopen/apoints/aclose/arun) vs file_of (Proofs/AppendProofs.v).
Correspondence: bytes after 1..3 append sessions vs the extracted model. Search: appended file vs the file a LasWriter produces
for original points + appended chunks (impl vs impl), VLR/EVLR preservation, caller's record untouched, foreign formats refused."""
import io

import numpy as np

from harness import common, lasio, sessions

ASSUMPTIONS = ["uncompressed files (LAZ append is C14)", "rescaling of differently scaled scale-aware records is compared against the writer's rule on the implementation, not modelled in Coq"]

_SESS = None


def gen(ctx):
    import laspy
    from laspy.lasappender import LasAppender
    rng = ctx.rng
    h = lasio.rand_header(rng)
    if rng.random() < 0.3:
        lasio.add_extra_dims(rng, h)
    n0 = rng.choice([0, 0, 1, 3, 12])
    A = lasio.rand_points(rng, h, n0)
    evl = None
    if h.version.minor >= 4 and rng.random() < 0.55:
        evl = laspy.vlrs.vlrlist.VLRList([lasio.rand_vlr(rng) for _ in range(rng.choice([1, 2]))])
    raw0 = lasio.write_las(h, A, evl)
    gap = 0
    if evl and rng.random() < 0.35:
        # unused bytes between the last point and the first EVLR of the original (legal; the appended points overwrite them)
        gap = rng.choice([1, h.point_format.size - 1, h.point_format.size, 3 * h.point_format.size + 1, 500])
        raw0 = lasio.with_gap(raw0, gap) or raw0
    desc = {"version": str(h.version), "format": h.point_format.id, "orig_points": n0, "evlrs": len(evl or []), "vlrs": len(h.vlrs), "gap": gap, "sessions": []}
    cur = raw0
    chunks_all, model_ok = [], True
    outs_all = []
    model_cmds = []
    use_with = rng.random() < 0.3     # the session runs inside a with-block; a refused chunk then propagates out of it
    for si in range(rng.choice([1, 1, 2, 3])):
        bio = io.BytesIO(cur)
        try:
            ap = LasAppender(bio, closefd=False)
        except Exception as ex:
            return {"desc": desc, "final": None, "error": "open: " + repr(ex)}
        toks, sdesc = [], []
        closed_by_with = False
        for _ in range(rng.randrange(0, 5)):
            r = rng.random()
            if r < 0.62:
                rec = lasio.rand_points(rng, h, rng.choice([0, 0, 1, 2, 7]))
                if len(rec) == 1 and rng.random() < 0.4:
                    rec = rec[0]   # 0-d one-point record (las.points[i])
                kind = "same"
            elif r < 0.8:
                # scale-aware record, same or different scaling (contents small enough to be representable)
                k = rng.choice([1, 2, 5])
                rec0 = lasio.rand_points(rng, h, k, pattern="small")
                sc = np.array(h.scales) * rng.choice([1.0, 1.0, 10.0, 0.5])
                of = np.array(h.offsets) + rng.choice([0.0, 0.0, 1.0, -2.5])
                rec = laspy.ScaleAwarePointRecord(rec0.array, rec0.point_format, sc, of)
                kind = "scaled" if (np.any(sc != h.scales) or np.any(of != h.offsets)) else "same"
            else:
                rec = sessions.wrong_format_points(rng, h, rng.choice([0, 1, 2]))
                kind = "foreign"
            before_rec = (lasio.rec_bytes(rec), tuple(map(float, getattr(rec, "scales", []))), tuple(map(float, getattr(rec, "offsets", []))))
            before_file = bio.getvalue()
            try:
                if use_with and kind == "foreign" and len(rec):
                    # the exception leaves a with-block: the appender must still finalise the file with what was accepted
                    try:
                        with ap:
                            ap.append_points(rec)
                        o = "ok"
                    except Exception as ex:
                        o = "err:" + common.exc_kind(ex)
                    after_rec = (lasio.rec_bytes(rec), tuple(map(float, getattr(rec, "scales", []))), tuple(map(float, getattr(rec, "offsets", []))))
                    outs_all.append((kind, len(rec), o, before_rec == after_rec, True))
                    sdesc.append(f"{kind}{len(rec)}!with-exit")
                    toks.append("F" + common.hexb(bytes(len(rec) * h.point_format.size)))
                    closed_by_with = True
                    break
                ap.append_points(rec)
                o = "ok"
            except Exception as ex:
                o = "err:" + common.exc_kind(ex)
            after_rec = (lasio.rec_bytes(rec), tuple(map(float, getattr(rec, "scales", []))), tuple(map(float, getattr(rec, "offsets", []))))
            outs_all.append((kind, len(rec), o, before_rec == after_rec, before_file == bio.getvalue()))
            sdesc.append(f"{kind}{len(rec)}")
            if kind == "foreign":
                toks.append("F" + common.hexb(bytes(len(rec) * h.point_format.size)))
            elif kind == "scaled":
                model_ok = False
                if o == "ok":
                    chunks_all.append(rec)
            else:
                toks.append("T" + common.hexb(lasio.rec_bytes(rec)))
                if o == "ok":
                    chunks_all.append(rec)
        try:
            if not closed_by_with:
                ap.close()
        except Exception as ex:
            return {"desc": desc, "final": None, "error": "close: " + repr(ex)}
        desc["sessions"].append(sdesc)
        model_cmds.append((cur, toks))
        cur = bio.getvalue()
    return {"desc": desc, "orig": raw0, "header": h, "A": A, "evl": evl, "chunks": chunks_all, "final": cur, "outs": outs_all,
            "model_cmds": model_cmds if model_ok else None}


def sessions_for(ctx):
    global _SESS
    if _SESS is None:
        _SESS = [gen(ctx) for _ in range(ctx.n(260, 3000))]
    return _SESS


def correspond(ctx):
    ctx.extra["rule"] = ("random originals (every version/format, 0/1/3/12 points, +-VLRs, +-EVLRs, 30% with extra dims) x 1..3 successive append "
                         "sessions x 0..4 chunks each: same-format records (0/1/2/7 points), scale-aware records with equal or different "
                         "scales/offsets, foreign formats (other id, or same id and other extra dims). Model compared on sessions without "
                         "differently scaled records. non-trivial = at least one non-empty accepted chunk; distinct by description + bytes")
    ss = sessions_for(ctx)
    dis = []
    cmds, idx = [], []
    for i, s in enumerate(ss):
        ctx.case((repr(s["desc"]), s.get("final")), nontrivial=any(o[0] != "foreign" and o[1] > 0 and o[2] == "ok" for o in s.get("outs", [])),
                 sample={"session": s["desc"], "outcomes": [o[2] for o in s.get("outs", [])]})
        for o in s.get("outs", []):
            ctx.count(f"chunk:{o[0]}:{'empty' if o[1] == 0 else 'nonempty'}:{o[2]}")
        if s.get("model_cmds"):
            # chained sessions: each model session starts from the implementation's previous result (checked equal below)
            for cur, toks in s["model_cmds"]:
                cmds.append(f"arun {common.hexb(cur)} {s['header'].point_format.size} " + " ".join(toks))
                idx.append(i)
    outs = common.run_model(cmds)
    # expected result of each session = start of the next one / final
    k = 0
    for i, s in enumerate(ss):
        if not s.get("model_cmds"):
            continue
        mc = s["model_cmds"]
        for j, (cur, toks) in enumerate(mc):
            nxt = mc[j + 1][0] if j + 1 < len(mc) else s["final"]
            mo = outs[k]
            k += 1
            ctx.traces += 1
            parts = mo.split(" ")
            ok = len(parts) >= 3 and parts[-2] == "ok" and common.unhex(parts[-1]) == nxt
            if not ok:
                dis.append({"kind": "append session bytes", "input": s["desc"], "model": mo[:100], "impl": common.hexb(nxt)[:100]})
    return dis


def search(ctx, seeds):
    import laspy
    failing, seen = [], set()

    def add(kind, inp, why):
        if kind not in seen:
            seen.add(kind)
            failing.append({"kind": kind, "input": inp, "observed": why})
    for s in sessions_for(ctx):
        d = s["desc"]
        if s.get("final") is None:
            add("append session failed", d, s.get("error", ""))
            continue
        for kind, n, o, rec_same, file_same in s["outs"]:
            if kind == "foreign" and n > 0 and (o != "err:ELaspy" or not file_same):
                add("foreign format not refused", d, f"append_points of a foreign format ({n} points): {o}, file unchanged={file_same}")
            if kind == "scaled" and o == "err:EOverflow" and file_same:
                continue   # not representable in the file's scaling: refused, nothing written
            if kind != "foreign" and o != "ok":
                add(f"append of {kind} chunk failed", d, f"{n} points: {o}")
            if not rec_same:
                add("caller's record modified by append", d, f"{kind} chunk of {n} points changed (bytes/scales/offsets)")
        # reference: one writer session with the original header writing A then every accepted chunk
        h = s["header"]
        bio = io.BytesIO()
        try:
            with laspy.LasWriter(bio, h, closefd=False) as w:
                if len(s["A"]):
                    w.write_points(s["A"])
                for rec in s["chunks"]:
                    w.write_points(rec)
                if s["evl"]:
                    w.write_evlrs(s["evl"])
            ref = bio.getvalue()
        except Exception as ex:
            continue
        if ref != s["final"]:
            diff = next((i for i, (a, b) in enumerate(zip(ref, s["final"])) if a != b), min(len(ref), len(s["final"])))
            where = "header" if diff < 375 else "points/EVLRs"
            add(f"appended file differs from one-shot ({where})", d, f"first differing byte {diff}; lengths {len(s['final'])} vs {len(ref)}")
    for h, raw, accepted, raised, budget, n0, sizes, nev in failing_append_cases(ctx):
        ctx.case(("failing-append", raw), nontrivial=True)
        ctx.count("failing-append:" + ("raised" if raised else "completed"))
        d = {"version": str(h.version), "format": h.point_format.id, "chunks": sizes, "evlrs": nev, "destination_fails_beyond_byte": budget, "original_size": n0}
        try:
            las = laspy.read(io.BytesIO(raw))
        except Exception as ex:
            if raised and nev:
                continue     # the relocated EVLRs could not be written: the file is refused by the reader, which the property allows
            add("file unreadable after a failed append", d, f"{type(ex).__name__}: {ex}")
            continue
        got = lasio.rec_bytes(las.points)
        if accepted[:len(got)] != got:
            add("failed append: file holds points that were not written", d, f"{len(las.points)} records read; not a prefix of old ++ accepted points")
    return failing[:8]


def failing_append_cases(ctx):
    """the destination fails during a chunk write; the with-block then closes the appender: the file must still be a valid LAS
    file holding a prefix of (old points ++ accepted new points), with a header that describes exactly what it holds"""
    import laspy
    from laspy.lasappender import LasAppender
    from harness.props.c01 import FailingStream
    out = []
    rng = ctx.rng
    for _ in range(ctx.n(40, 300)):
        h = lasio.rand_header(rng, version=rng.choice(["1.2", "1.4", "1.4"]))
        A = lasio.rand_points(rng, h, rng.choice([0, 2, 5]))
        evl = None
        if h.version.minor >= 4 and rng.random() < 0.7:
            evl = laspy.vlrs.vlrlist.VLRList([lasio.rand_vlr(rng, 100) for _ in range(rng.choice([1, 2]))])
        raw0 = lasio.write_las(h, A, evl)
        chunks = [lasio.rand_points(rng, h, rng.choice([1, 3, 8])) for _ in range(rng.choice([1, 2, 3]))]
        end_pts = int.from_bytes(raw0[96:100], "little") + len(A) * h.point_format.size
        total = sum(len(c) for c in chunks) * h.point_format.size
        budget = end_pts + rng.randrange(0, total + 1)
        st = FailingStream(10 ** 9, once=rng.random() < 0.6)
        st.write(raw0)
        st.seek(0)
        st.budget = budget          # writes reaching beyond `budget` raise (header rewrite at 0 is still possible)
        accepted = lasio.rec_bytes(A)
        raised = False
        try:
            with LasAppender(st, closefd=False) as ap:
                for c in chunks:
                    ap.append_points(c)
                    accepted += lasio.rec_bytes(c)
        except OSError:
            raised = True
        except Exception as ex:
            raised = True
        out.append((h, st.getvalue(), accepted, raised, budget, len(raw0), [len(c) for c in chunks], len(evl or [])))
    return out


def replay(ctx, data):
    print("replay: re-run ./check C06 with the same VERIF_SEED; the failing session is described in the file")
    return 0
