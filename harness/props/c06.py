"""C06 — appending is equivalent to having written the concatenation.
Model: Model/Las.v appender (aopen/apoints/aclose/arun) vs file_of (Proofs/AppendProofs.v).
Correspondence: bytes after 1..3 append sessions vs the extracted model. Search (the property on the implementation): appended file vs the
file a LasWriter produces for original points + appended chunks (impl vs impl, byte-identical), EXACT header statistics recomputed from the bytes
(the one-shot writer shares the header code: equality with it is not enough), VLR area byte-identical to the original's, EVLRs preserved and
relocated, caller's record untouched, foreign formats refused; every way of opening the appender (class, laspy.open on a stream / on a path,
encoding_errors, laz_backend None / (), closefd) on originals whose header strings / VLR descriptions are not ASCII; several appenders alive at
the same time on files built from one header; one-off torn writes followed by continued use. Round 5: refused calls followed by RE-USE of the
same record object (scale-aware records of which only a LATER coordinate - Y or Z - does not fit the file's grid, repaired in place and appended
again at once / later / in the next session; refused records written elsewhere), every accepted chunk compared through a private copy taken before
the call; files next to their capacity (sparse file objects announcing 2**32 - 1 - n points: exactly the maximum accepted, one more refused, LAS 1.4
beyond 2**32) with the rule of Model/AppendCap.v run next to every decision; appended chunks of lengths where block-wise copies change behaviour
(multiples of 2**16, 2**17 +- 1, beyond 2**20) given as strided / reversed views. Round 6: RICH sessions (lasio.rs_session): every chunk a SELECTION of a source cloud made in every way the API offers (slice, stepped /
negative slice, mask as ndarray or python list, index ndarray, list, tuple, int, whole) from every record class (plain, scale-aware with the file's or another scaling,
LasData.points[..], LasData[..].points, a view of a view), what must be stored computed by numpy on a private copy; the source's PointFormat OBJECT grown / shrunk in
place between two chunks (then refused / accepted again); other files with the same kinds of KNOWN VLRs read / written / appended to while the session is open; the
appender's own header edited between chunks; every way of ending (close twice, close inside the with-block, chunks after close; closefd False / True); real-world
coordinates of every accepted scale-aware chunk judged on the bytes (|x_file - x_record| <= half a grid step)."""
import io
import os
import tempfile

import numpy as np

from harness import common, lasio

ASSUMPTIONS = ["uncompressed files (LAZ append is C14)", "rescaling of differently scaled scale-aware records is compared against the writer's rule on the implementation, not modelled in Coq",
               "files next to the capacity of their version (2**32 - 1 points up to LAS 1.3) are sparse in-memory file objects: legal files of all-zero records whose "
               "point block is not materialised (holes read as zeros); the one-shot file of such a total cannot be produced, the appended file is judged on "
               "where the new records are stored, the count, the statistics of (zero record ++ chunks), the EVLRs and the length; the capacity rule itself "
               "(takes_more) is proved equal for appender and writer (C06_capacity_same_rule) and compared with every decision of the implementation; "
               "2**64 - 1 points (LAS 1.4) is out of reach",
               "I/O faults judged here: an append_points whose low-level write fails with OSError BEFORE storing any byte, followed by anything (with-block "
               "exit, more chunks, the same chunk again, close): the refused chunk counts as not accepted and the file must be equivalent to original ++ "
               "accepted chunks. Torn writes (bytes stored) are C19's (reading never yields other records); C06 does not range over them",
               "round 6: a chunk is what numpy selects from a private copy of the source array (the selection made by laspy must be those records); calls issued AFTER "
               "the first close may be refused or accepted: accepted they must be stored like any chunk, refused they must leave no trace; a session whose OWN header "
               "(appender.header) was edited while it was open may be refused at close - when its close succeeds the records and the statistics must be exact, byte "
               "identity with the one-shot file of the ORIGINAL header is not asked for then; the model of such histories (Model/LasEnd.v arun_ops) is the appender with "
               "a closed state (calls after the first close are inert), which is laspy's since fix 78ba7ec"]

_SESS = None

# how the appender is obtained: (label, needs a path, kwargs)
APPEND_OPEN = [("class", False, {}), ("class", False, {}), ("open", False, {}), ("open", False, {"laz_backend": None}), ("open", False, {"laz_backend": ()}),
               ("open", False, {"encoding_errors": "strict"}), ("open", True, {}), ("open", True, {"laz_backend": ()}), ("class", False, {"laz_backend": None}),
               ("open", False, {"closefd": True}), ("class", False, {"closefd": True})]


class PathStream:
    """a real file on disk behaving like the BytesIO the other sessions use (getvalue), for laspy.open(path, mode='a')"""

    def __init__(self, initial):
        fd, self.path = tempfile.mkstemp(suffix=".las", dir="/var/tmp")
        with os.fdopen(fd, "wb") as f:
            f.write(initial)

    def getvalue(self):
        with open(self.path, "rb") as f:
            return f.read()

    def drop(self):
        try:
            os.unlink(self.path)
        except OSError:
            pass


def open_appender(dest, via, kw):
    import laspy
    from laspy.lasappender import LasAppender
    kw = dict(kw)
    if isinstance(dest, PathStream):
        kw.pop("closefd", None)
        return laspy.open(dest.path, mode="a", **kw)
    closefd = kw.pop("closefd", False)
    if via == "open":
        return laspy.open(dest, mode="a", closefd=closefd, **kw)
    return LasAppender(dest, closefd=closefd, **kw)


def write_ref(h, recs, evl, enc):
    """the one-shot reference: one LasWriter session with the original header writing every record, then the EVLRs"""
    bio = io.BytesIO()
    with lasio.open_writer(bio, h, "class", enc) as w:
        for rec in recs:
            if len(rec):
                w.write_points(rec)
        if evl:
            w.write_evlrs(evl)
    return bio.getvalue()


def clone_record(rec):
    """a private copy of a record (array, scales, offsets), taken BEFORE the record is handed to laspy: what the caller meant to append"""
    import laspy
    if hasattr(rec, "scales"):
        return laspy.ScaleAwarePointRecord(rec.array.copy(), rec.point_format, np.array(rec.scales, dtype=np.float64).copy(), np.array(rec.offsets, dtype=np.float64).copy())
    return laspy.PackedPointRecord(rec.array.copy(), rec.point_format)


def rec_state(rec):
    return (lasio.rec_bytes(rec), tuple(map(float, getattr(rec, "scales", []))), tuple(map(float, getattr(rec, "offsets", []))), lasio.format_key(rec.point_format),
            str(rec.array.dtype))


def reuse_elsewhere(rec):
    """the bytes of the file a record gives when it is written to a fresh file of ITS OWN format: what a caller who was refused here
    (foreign format, no room, coordinates out of range) does next with the same object"""
    import laspy
    hh = laspy.LasHeader(point_format=rec.point_format, version="1.4")
    if hasattr(rec, "scales"):
        hh.scales, hh.offsets = np.array(rec.scales, dtype=np.float64), np.array(rec.offsets, dtype=np.float64)
    return lasio.write_las(hh, rec if len(rec.array.shape) else None)


def overflowing_record(rng, h, dims=None):
    """a scale-aware record in ANOTHER scaling than the file's (scales multiplied by 2 / 10 / 1000, or the same scales and offsets shifted by
    about 2**31 grid steps) in which the coordinates named by `dims` - X only, Y only, Z only, two of them, all three - of ONE point do not fit
    the file's int32 grid while every other coordinate does. Returns (record, dims, index of the outlier)."""
    import laspy
    k = rng.choice([1, 2, 5])
    rec0 = lasio.rand_points(rng, h, k, pattern="small")
    for kx in "XYZ":
        rec0.array[kx] = np.array([rng.randrange(-1000, 1001) for _ in range(k)], dtype=np.int32)
    dims = dims or rng.choice([("X",), ("Y",), ("Z",), ("Y",), ("Z",), ("Y", "Z"), ("X", "Z"), ("X", "Y", "Z")])
    i = rng.randrange(k)
    f = rng.choice([2.0, 10.0, 1000.0])
    sc = np.array(h.scales, dtype=np.float64) * f
    of = np.array(h.offsets, dtype=np.float64).copy()
    for dn in dims:
        rec0.array[dn][i] = rng.choice([1, -1]) * (int(2 ** 31 / f) + rng.randrange(3000, 100000))
    return laspy.ScaleAwarePointRecord(rec0.array, rec0.point_format, sc, of), dims, i


def gen(ctx, box=False):
    """box=True (round 7): a NON-empty original whose bounding box is DEGENERATE - every point at the real-world origin (offsets 0, X = Y = Z = 0: the
    extrema stored in its header are the zeros an empty file has) on all axes or on some of them, or every point at one other place - followed by chunks
    that mostly lie on ONE side of that place: the old extrema must stay inside the bounding box"""
    import laspy
    rng = ctx.rng
    h = lasio.rand_header(rng)
    box_axes, box_at = (), None
    if box:
        box_axes = (0, 1, 2) if rng.random() < 0.6 else tuple(sorted(rng.sample([0, 1, 2], rng.choice([1, 2]))))
        box_at = 0 if rng.random() < 0.8 else rng.choice([1, -1, 1000, -(2 ** 31), 2 ** 31 - 1])
        of = np.array(h.offsets, dtype=np.float64)
        for ax in box_axes:
            if box_at == 0 or rng.random() < 0.5:
                of[ax] = 0.0
        h.offsets = of
    if rng.random() < 0.3:
        lasio.add_extra_dims(rng, h)
    enc = {}
    nonascii = []
    if rng.random() < 0.3:
        # an original written by other software: Latin-1 text in the header strings / VLR descriptions (read back as bytes)
        nonascii = lasio.make_nonascii(rng, h)
        enc = {"encoding_errors": rng.choice(["ignore", "replace"])}
    sweep = rng.random() < 0.5
    mk = (lambda n, **k: lasio.sweep_points(rng, h, n, start=rng.randrange(16))) if sweep else (lambda n, **k: lasio.rand_points(rng, h, n, **k))
    n0 = rng.choice([0, 0, 1, 3, 12]) if not box else rng.choice([1, 1, 2, 4, 12])
    A = mk(n0)
    side = None
    if box:
        for ax in box_axes:
            A.array["XYZ"[ax]] = np.int32(box_at)
        side = rng.choice([None, 1, -1, -1])     # the appended chunks: anywhere / all above / all below the place of the original points
    evl = None
    if h.version.minor >= 4 and rng.random() < 0.55:
        evl = laspy.vlrs.vlrlist.VLRList([lasio.rand_vlr(rng) for _ in range(rng.choice([1, 2]))])
    raw0 = write_ref(h, [A], evl, enc)
    gap = 0
    if evl and rng.random() < 0.35:
        # unused bytes between the last point and the first EVLR of the original (legal; the appended points overwrite them)
        gap = rng.choice([1, h.point_format.size - 1, h.point_format.size, 3 * h.point_format.size + 1, 500])
        raw0 = lasio.with_gap(raw0, gap) or raw0
    via, need_path, kw = rng.choice(APPEND_OPEN)
    kw = dict(kw)
    if enc:
        kw["encoding_errors"] = enc["encoding_errors"] if rng.random() < 0.8 else rng.choice(["ignore", "replace"])
    desc = dict(lasio.describe_header(h), orig_points=n0, evlrs=len(evl or []), gap=gap, non_ascii=nonascii, open=[via + ("(path)" if need_path else ""), {k: repr(v) for k, v in kw.items()}], sessions=[])
    if box:
        desc["original_points_all_at"] = {"axes": ["XYZ"[ax] for ax in box_axes], "raw_value": box_at, "offsets": [float(v) for v in h.offsets], "appended_on_side": side}
    cur = raw0
    chunks_all, model_ok = [], True
    outs_all = []
    model_cmds = []
    use_with = rng.random() < 0.3     # the session runs inside a with-block; a refused chunk then propagates out of it
    carry = []
    for si in range(rng.choice([1, 1, 2, 3])):
        bio = PathStream(cur) if need_path else lasio.KeepStream(cur)
        try:
            try:
                ap = open_appender(bio, via, kw)
            except Exception as ex:
                return {"desc": desc, "final": None, "error": "open: " + repr(ex)}
            toks, sdesc = [], []
            closed_by_with = False
            pending = list(carry)     # (record refused earlier and repaired since, what the caller means by it) waiting to be appended again
            carry = []
            for _ in range(rng.randrange(0, 5)):
                r = rng.random()
                outlier = None
                if pending and rng.random() < 0.6:
                    # RE-USE of a record object an earlier append_points refused (the caller repaired the outlier in place)
                    rec, ref = pending.pop(0)
                    kind = "scaled"
                    reused = True
                else:
                    reused = False
                    if r < 0.58:
                        rec = mk(rng.choice([0, 0, 1, 2, 7]))
                        if side is not None and len(rec):
                            for ax in box_axes:
                                col = np.abs(rec.array["XYZ"[ax]].astype(np.int64)) % 100000 + 1
                                rec.array["XYZ"[ax]] = np.clip(box_at + side * col, -(2 ** 31), 2 ** 31 - 1).astype(np.int32)
                        if len(rec) == 1 and rng.random() < 0.4:
                            rec = rec[0]   # 0-d one-point record (las.points[i])
                        kind = "same"
                    elif r < 0.74:
                        # scale-aware record, same or different scaling (contents small enough to be representable)
                        k = rng.choice([1, 2, 5])
                        rec0 = lasio.rand_points(rng, h, k, pattern="small")
                        sc = np.array(h.scales) * rng.choice([1.0, 1.0, 10.0, 0.5])
                        of = np.array(h.offsets) + rng.choice([0.0, 0.0, 1.0, -2.5])
                        rec = laspy.ScaleAwarePointRecord(rec0.array, rec0.point_format, sc, of)
                        kind = "scaled" if (np.any(sc != h.scales) or np.any(of != h.offsets)) else "same"
                    elif r < 0.86:
                        # scale-aware record of another scaling in which ONE coordinate (X, or only a LATER one: Y / Z) of one point does not
                        # fit the file's grid: must be refused (OverflowError) leaving the file AND the record as they were
                        rec, outlier, oi = overflowing_record(rng, h)
                        kind = "scaled-overflow"
                    else:
                        rec = lasio.foreign_points(rng, h, rng.choice([0, 1, 2]))
                        kind = "foreign"
                    ref = clone_record(rec)
                before_rec = rec_state(rec)
                before_file = bio.getvalue()
                try:
                    if use_with and kind == "foreign" and len(rec):
                        # the exception leaves a with-block: the appender must still finalise the file with what was accepted
                        try:
                            with ap:
                                ap.append_points(rec)
                            o = "ok"
                        except Exception as ex:
                            o = "err:" + common.exc_kind(ex)
                        after_rec = rec_state(rec)
                        outs_all.append((kind, len(rec), o, before_rec == after_rec, True))
                        sdesc.append(f"{kind}{len(rec)}!with-exit")
                        toks.append("F" + common.hexb(bytes(len(rec) * h.point_format.size)))
                        closed_by_with = True
                        break
                    ap.append_points(rec)
                    o = "ok"
                except Exception as ex:
                    o = "err:" + common.exc_kind(ex)
                after_rec = rec_state(rec)
                same_rec = before_rec == after_rec
                if same_rec and o != "ok" and len(rec) and len(rec.array.shape):
                    # RE-USE of a refused record somewhere else: it must still be the record the caller built
                    try:
                        same_rec = reuse_elsewhere(rec) == reuse_elsewhere(ref)
                    except Exception:
                        same_rec = False
                outs_all.append((kind, len(rec), o, same_rec, before_file == bio.getvalue() if not need_path else True))
                sdesc.append(f"{kind}{len(rec)}" + (f"({'+'.join(outlier)} of point {oi} out of range)" if outlier else "") + ("(re-used after a refusal)" if reused else ""))
                if kind == "foreign":
                    toks.append("F" + common.hexb(bytes(len(rec) * h.point_format.size)))
                elif kind == "scaled-overflow":
                    model_ok = False
                    # the caller repairs the outlier IN PLACE (same record object) and will append the record again: now, later in this
                    # session, or in the next one
                    for dn in outlier:
                        rec.array[dn][oi] = ref.array[dn][oi] = np.int32(rng.randrange(-1000, 1001))
                    (pending if rng.random() < 0.7 else carry).append((rec, ref))
                    if rng.random() < 0.5 and pending and pending[-1][0] is rec:
                        # at once
                        rec2, ref2 = pending.pop()
                        b2, f2 = rec_state(rec2), bio.getvalue()
                        try:
                            ap.append_points(rec2)
                            o2 = "ok"
                        except Exception as ex:
                            o2 = "err:" + common.exc_kind(ex)
                        outs_all.append(("scaled", len(rec2), o2, b2 == rec_state(rec2), f2 == bio.getvalue() if not need_path else True))
                        sdesc.append(f"scaled{len(rec2)}(re-used after a refusal)")
                        if o2 == "ok":
                            chunks_all.append(ref2)
                elif kind == "scaled":
                    model_ok = False
                    if o == "ok":
                        chunks_all.append(ref)
                else:
                    toks.append("T" + common.hexb(lasio.rec_bytes(rec)))
                    if o == "ok":
                        chunks_all.append(ref)
            carry += pending
            try:
                if not closed_by_with:
                    ap.close()
            except Exception as ex:
                return {"desc": desc, "final": None, "error": "close: " + repr(ex), "orig": raw0, "left": bio.getvalue()}
            desc["sessions"].append(sdesc)
            model_cmds.append((cur, toks))
            cur = bio.getvalue()
        finally:
            if need_path:
                bio.drop()
    return {"desc": desc, "orig": raw0, "header": h, "A": A, "evl": evl, "chunks": chunks_all, "final": cur, "outs": outs_all, "enc": enc,
            "model_cmds": model_cmds if model_ok else None}


def sessions_for(ctx):
    global _SESS
    if _SESS is None:
        _SESS = []
        nbox = ctx.n(50, 450)
        for i in range(ctx.n(450, 4000) + nbox):
            try:
                _SESS.append(gen(ctx, box=i < nbox))
            except Exception as ex:     # the session generator itself met an exception of the implementation: a failing input
                import traceback
                _SESS.append({"desc": {"generator": "append session"}, "final": None, "error": f"{type(ex).__name__}: {ex} | " + traceback.format_exc()[-500:]})
    return _SESS


_RICH = None


def rich_sessions(ctx):
    """round 6: rich APPEND sessions (see lasio.rs_session)"""
    global _RICH
    if _RICH is None:
        _RICH = []
        for i in range(ctx.n(260, 2600)):
            try:
                _RICH.append(lasio.rs_session(ctx.rng, "appender", ctx.thorough()))
            except Exception as ex:
                import traceback
                _RICH.append({"error": f"{type(ex).__name__}: {ex} | " + traceback.format_exc()[-600:], "desc": {"generator": "rich append session"}})
    return _RICH


def rich_model_cmd(s):
    """the model's arun command of a rich session that is an ordinary history (closed once, own header untouched, nothing rescaled), or None"""
    if "error" in s or s["edited"] or s["rescaled"] or s["nclose"] != 1 or s["closes"] != ["ok"] or any(a is None for a in s["accepted"]) or len(s["base"]) > 60000:
        return None
    toks = []
    acc = iter(s["accepted"])
    for o in s["outs"]:
        if o["n"] == 0:
            toks.append("T")
        elif o["outcome"] == "ok":
            toks.append("T" + common.hexb(lasio.rec_bytes(next(acc))))
        else:
            toks.append("F" + common.hexb(bytes(o["n"] * s["ps"])))
    return f"arun {common.hexb(s['base'])} {s['ps']} " + " ".join(toks)


def rich_results(ctx):
    """the property on the rich append sessions: [(kind, description, why)]"""
    import laspy
    out = []
    for s in rich_sessions(ctx):
        if "error" in s:
            out.append(("rich append session could not be run", s["desc"], s["error"]))
            continue
        d = s["desc"]
        tag = lasio.rs_tag(s)
        ctx.case(("rich", repr(d["ops"]), s["final"]), nontrivial=any(o["outcome"] == "ok" and o["n"] for o in s["outs"]), sample={"session": d})
        ctx.count("rich:" + tag.split(":")[0])
        for o in s["outs"]:
            ctx.count("rich-chunk:" + o["label"].split("[")[0] + ":" + ("empty" if o["n"] == 0 else o["expected"]) + ":" + o["outcome"])
        for k, why in lasio.rs_outcome_problems(s):
            out.append((tag + k, d, why))
        if not s["closes"] or s["closes"][0] != "ok":
            if not s["edited"]:
                out.append((tag + "close raised", d, f"closing calls: {s['closes']}"))
            continue
        if any(a is None for a in s["accepted"]):
            continue          # a foreign chunk was accepted (reported above): there is no one-shot file to compare with
        fin = s["final"]
        probs = lasio.raw_stats_problems(fin)
        try:
            if not probs and not s["rescaled"] and lasio.raw_records(fin) != s["accepted_bytes"]:
                probs = [f"records: the file holds {len(lasio.raw_records(fin))} bytes of records which are not original ++ accepted chunks ({len(s['accepted_bytes'])} bytes)"]
        except ValueError as ex:
            probs = [f"header: {ex}"]
        if probs:
            out.append((tag + "header statistics / records not exact (" + probs[0].split(" ")[0] + ")", d, "; ".join(probs[:3])))
            continue
        probs = lasio.rs_world_problems(s)
        if probs:
            out.append((tag + "an appended scale-aware chunk lost its real-world coordinates", d, "; ".join(probs[:2])))
            continue
        if s["edited"]:
            continue
        probs = preserved_problems(s["base"], fin)
        if probs:
            out.append((tag + probs[0].split(":")[0] + " not preserved", d, "; ".join(probs[:3])))
            continue
        h = s["header"]
        try:
            A = laspy.PackedPointRecord.from_buffer(bytearray(s["orig"]), h.point_format) if s["orig"] else laspy.PackedPointRecord.zeros(0, h.point_format)
            ref = write_ref(h, [A] + s["accepted"], s["evl"], {})
        except Exception as ex:
            out.append((tag + "the one-shot file of original ++ accepted chunks cannot be written", d, f"{type(ex).__name__}: {ex}"))
            continue
        if ref != fin:
            diff = next((i for i, (a, b) in enumerate(zip(ref, fin)) if a != b), min(len(ref), len(fin)))
            out.append((tag + f"appended file differs from one-shot ({'header' if diff < 375 else 'points/EVLRs'})", d, f"first differing byte {diff}; lengths {len(fin)} vs {len(ref)}"))
    return out


def correspond(ctx):
    ctx.extra["rule"] = ("random originals (every version/format, 0/1/3/12 points, +-VLRs, +-EVLRs, 30% with extra dims, 30% with non-ASCII header strings / VLR "
                         "descriptions, half of them with return numbers sweeping the whole range of the format) x 1..3 successive append sessions x 0..4 chunks "
                         "each: same-format records (0/1/2/7 points), scale-aware records with equal or different scales/offsets, foreign formats (other id, "
                         "or same id and other extra dims); the appender obtained through the class, laspy.open on a stream or on a path, with encoding_errors "
                         "/ laz_backend None or () / closefd. Model compared on sessions without differently scaled records. Search adds: every (version, "
                         "format) pair with every return number; ensembles of appenders alive together; strict appends on non-ASCII originals; non-ASCII "
                         "EVLR descriptions; one-off torn writes; scale-aware chunks of which only X / only Y / only Z does not fit the file's grid (refused), "
                         "repaired in place and appended again; sparse files announcing 2**32 - 1 - n points (capacity rule takes_more vs every decision); large "
                         "strided appended chunks; round 6: rich sessions - chunks SELECTED from a source cloud by slice / stepped / negative slice / mask (ndarray, list) / index "
                         "ndarray / list / tuple / int / whole, from plain and scale-aware records (file's or another scaling), LasData.points[..], LasData[..].points, views of "
                         "views; the source's PointFormat object grown / shrunk in place between chunks; other files with the same kinds of known VLRs (classification lookup, "
                         "GeoTIFF, WKT, waveform) read / written / appended to meanwhile; the appender's own header edited between chunks; close / close twice / with / close "
                         "inside with / chunks after close, closefd False / True; round 7: NON-empty originals with a degenerate bounding box (every point at the real-world origin - the header extrema are the zeros of an empty file - on all / some axes, or at one other place) followed by chunks on one side of it. non-trivial = at least one non-empty accepted chunk; distinct by description + bytes")
    ss = sessions_for(ctx)
    dis = []
    cmds, idx = [], []
    for i, s in enumerate(ss):
        ctx.case((repr(s["desc"]), s.get("final")), nontrivial=any(o[0] != "foreign" and o[1] > 0 and o[2] == "ok" for o in s.get("outs", [])),
                 sample={"session": s["desc"], "outcomes": [o[2] for o in s.get("outs", [])]})
        for o in s.get("outs", []):
            ctx.count(f"chunk:{o[0]}:{'empty' if o[1] == 0 else 'nonempty'}:{o[2]}")
        ctx.count("open:" + s["desc"]["open"][0] + ":" + ",".join(sorted(s["desc"]["open"][1])))
        if "original_points_all_at" in s["desc"]:
            b = s["desc"]["original_points_all_at"]
            ctx.count(f"degenerate-box:{'origin' if b['raw_value'] == 0 and not any(b['offsets'][('XYZ').index(a)] for a in b['axes']) else 'one place'}:{''.join(b['axes'])}:side {b['appended_on_side']}")
        if s.get("model_cmds"):
            # chained sessions: each model session starts from the implementation's previous result (checked equal below)
            for cur, toks in s["model_cmds"]:
                cmds.append(f"arun {common.hexb(cur)} {s['header'].point_format.size} " + " ".join(toks))
                idx.append(i)
    outs = common.run_model(cmds)
    # expected result of each session = start of the next one / final
    k = 0
    for i, s in enumerate(ss):
        if not s.get("model_cmds"):
            continue
        mc = s["model_cmds"]
        for j, (cur, toks) in enumerate(mc):
            nxt = mc[j + 1][0] if j + 1 < len(mc) else s["final"]
            mo = outs[k]
            k += 1
            ctx.traces += 1
            parts = mo.split(" ")
            ok = len(parts) >= 3 and parts[-2] == "ok" and common.unhex(parts[-1]) == nxt
            if not ok:
                dis.append({"kind": "append session bytes", "input": s["desc"], "model": mo[:100], "impl": common.hexb(nxt)[:100]})
    # round 6: the rich sessions that are ordinary histories (closed once, nothing rescaled, own header untouched): bytes vs the model's arun
    rich = [(s, rich_model_cmd(s)) for s in rich_sessions(ctx)]
    rich = [(s, c) for s, c in rich if c]
    for (s, _), mo in zip(rich, common.run_model([c for _, c in rich])):
        ctx.traces += 1
        parts = mo.split(" ")
        if not (len(parts) >= 3 and parts[-2] == "ok" and common.unhex(parts[-1]) == s["final"]):
            dis.append({"kind": "append session bytes (selections / other files meanwhile)", "input": s["desc"], "model": mo[:100], "impl": common.hexb(s["final"])[:100]})
    # round 6, driver "c06": the CALLS of the rich sessions with their closes (Model/LasEnd.v arun_ops: what follows the first close is inert;
    # theorems C06_history_with_closes / C06_ended_session_file) and the in-place header rewrite of their first close (guarded_rewrite)
    ok, log = common.build_driver("c06")
    if ok:
        rc = [(s, lasio.rs_aops_cmd(s)) for s in rich_sessions(ctx)]
        rc = [(s, c) for s, c in rc if c]
        for (s, _), mo in zip(rc, common.run_model([c for _, c in rc], name="c06")):
            ctx.traces += 1
            ctx.count("aops:" + ("closed once" if s["nclose"] == 1 else ("chunks after close" if any(o["after_close"] for o in s["outs"]) else "closed again")))
            if s["closes"][0] != "ok":
                good = mo.startswith("err")
            else:
                good = mo.startswith("ok ") and common.unhex(mo.split(" ")[1]) == s["final"]
            if not good:
                dis.append({"kind": "append history with closes: the file is not the one the first close produces from the calls before it", "input": s["desc"],
                            "model": mo[:100], "impl": f"closes {s['closes']}; " + common.hexb(s["final"])[:80]})
        rg = [(s, lasio.rs_grw_cmd(s)) for s in rich_sessions(ctx)]
        rg = [(s, c) for s, c in rg if c]
        for (s, _), mo in zip(rg, common.run_model([c for _, c in rg], name="c06")):
            ctx.traces += 1
            ctx.count("grw:appender:" + mo.split(" ")[0])
            why = lasio.rs_grw_problem(s, mo)
            if why:
                dis.append({"kind": "in-place header rewrite at close (appender's own header edited or not)", "input": s["desc"], "model": mo[:60], "impl": why})
    # the capacity rule (Model/AppendCap.v takes_more, theorems C06_capacity / C06_capacity_same_rule) next to the implementation's decisions on
    # sparse files announcing 2**32 - 1 - n points (and 1.4 files around 2**32): driver "c06" (coq/ExtractC06.v)
    ok, log = common.build_driver("c06")
    if not ok:
        dis.append({"kind": "capacity rule: driver could not be built", "input": None, "model": log[-400:], "impl": None})
        return dis
    capacity_results(ctx)
    lines = [f"cap {maj} {mnr} {cnt} {n}" for maj, mnr, cnt, n, _, _ in _CAP_DECISIONS]
    for (maj, mnr, cnt, n, o, d), mo in zip(_CAP_DECISIONS, common.run_model(lines, name="c06")):
        ctx.traces += 1
        ctx.case(("cap", maj, mnr, cnt, n), nontrivial=True)
        want = "ok" if mo == "T" else "err:ELaspy"
        if o != want:
            dis.append({"kind": "capacity rule: append_points decides otherwise than takes_more", "input": dict(d, count=cnt, appended=n), "model": want, "impl": o})
    return dis


def preserved_problems(orig, final):
    """VLR area byte-identical, EVLRs the same records in the same order right after the points, header strings untouched"""
    probs = []
    try:
        d0, d1 = lasio.parse_raw(orig), lasio.parse_raw(final)
    except ValueError as ex:
        return [f"header: {ex}"]
    if lasio.raw_vlr_block(orig) != lasio.raw_vlr_block(final) or d0["offset"] != d1["offset"]:
        probs.append("VLRs: the bytes between the header and the first point changed")
    if orig[:107] != final[:107]:
        probs.append("header: the fields before the point count (identification, strings, sizes) changed")
    try:
        e0 = lasio.raw_walk_vlrs(orig, d0["evlr_start"], d0["nevlrs"], True)[0] if d0["nevlrs"] else []
    except ValueError:
        return probs
    try:
        e1 = lasio.raw_walk_vlrs(final, d1["evlr_start"], d1["nevlrs"], True)[0] if d1["nevlrs"] else []
    except ValueError as ex:
        e1 = None
    if e1 != e0:
        probs.append(f"EVLRs: the original holds {len(e0)}, the appended file {'unreadable ones' if e1 is None else len(e1)}" + ("" if e1 is None or len(e1) != len(e0) else " with other contents"))
    return probs


def _guarded(add, name, fn):
    """runs one section of the search; if the section itself cannot be run on this tree (an exception escaping from laspy where the
    unchanged tree raises none), that is reported as a failing input instead of losing the findings of the other sections"""
    try:
        fn()
    except Exception as ex:
        import traceback
        add(f"search section '{name}' could not be run on this tree", {"section": name}, f"{type(ex).__name__}: {ex} | " + traceback.format_exc()[-700:])


def search(ctx, seeds):
    import laspy
    failing, seen = [], set()

    def add(kind, inp, why):
        if kind not in seen:
            seen.add(kind)
            failing.append({"kind": kind, "input": inp, "observed": why})
    def sec_append_sessions():
        for s in sessions_for(ctx):
            d = s["desc"]
            if s.get("final") is None:
                add("append session failed", d, s.get("error", ""))
                continue
            for kind, n, o, rec_same, file_same in s["outs"]:
                if kind == "foreign" and n > 0 and (o != "err:ELaspy" or not file_same):
                    add("foreign format not refused", d, f"append_points of a foreign format ({n} points): {o}, file unchanged={file_same}")
                if not rec_same:
                    add("caller's record modified by append" + (" (refused chunk)" if o != "ok" else ""), d,
                        f"{kind} chunk of {n} points: after append_points ({o}) the caller's record is not what it was (bytes / scales / offsets)")
                if kind == "scaled-overflow":
                    if o != "err:EOverflow" or not file_same:
                        add("scale-aware chunk that does not fit the file's grid: not refused with OverflowError / file touched", d, f"{n} points: {o}, file unchanged={file_same}")
                    continue
                if kind == "scaled" and o == "err:EOverflow" and file_same:
                    continue   # not representable in the file's scaling: refused, nothing written
                if kind != "foreign" and o != "ok":
                    add(f"append of {kind} chunk failed", d, f"{n} points: {o}")
            # exact statistics, recomputed from the bytes
            probs = lasio.raw_stats_problems(s["final"])
            if probs:
                add("appended file: header statistics not exact (" + probs[0].split(" ")[0] + ")", d, "; ".join(probs[:3]))
            probs = preserved_problems(s["orig"], s["final"])
            if probs:
                add("appended file: " + probs[0].split(":")[0] + " not preserved", d, "; ".join(probs[:3]))
            # reference: one writer session with the original header writing A then every accepted chunk
            h = s["header"]
            try:
                ref = write_ref(h, [s["A"]] + s["chunks"], s["evl"], s["enc"])
            except Exception as ex:
                continue
            if ref != s["final"]:
                diff = next((i for i, (a, b) in enumerate(zip(ref, s["final"])) if a != b), min(len(ref), len(s["final"])))
                where = "header" if diff < 375 else "points/EVLRs"
                add(f"appended file differs from one-shot ({where})", d, f"first differing byte {diff}; lengths {len(s['final'])} vs {len(ref)}")
    _guarded(add, 'append sessions', sec_append_sessions)
    def sec_rich_sessions():
        for kind, d, why in rich_results(ctx):
            add(kind, d, why)
    _guarded(add, 'selections / format objects / other files / endings', sec_rich_sessions)
    def sec_version_format_sweep():
        for kind, d, why in pair_sweep(ctx):
            add(kind, d, why)
    _guarded(add, 'version/format sweep', sec_version_format_sweep)
    def sec_appenders_alive_together():
        for kind, d, why in ensembles(ctx):
            add(kind, d, why)
    _guarded(add, 'appenders alive together', sec_appenders_alive_together)
    def sec_non_ASCII_originals():
        for kind, d, why in refused_sessions(ctx):
            add(kind, d, why)
    _guarded(add, 'non-ASCII originals', sec_non_ASCII_originals)
    def sec_capacity():
        for kind, d, why in capacity_results(ctx):
            add(kind, d, why)
    _guarded(add, 'capacity of the file', sec_capacity)
    def sec_big_appends():
        for kind, d, why in big_appends(ctx):
            add(kind, d, why)
    _guarded(add, 'large appended records', sec_big_appends)
    def sec_torn_writes():
        for kind, d, why in torn_appends(ctx):
            add(kind, d, why)
    _guarded(add, 'torn writes', sec_torn_writes)
    def sec_failing_destination():
        for h, raw, accepted, raised, budget, n0, sizes, nev in failing_append_cases(ctx):
            ctx.case(("failing-append", raw), nontrivial=True)
            ctx.count("failing-append:" + ("raised" if raised else "completed"))
            d = {"version": str(h.version), "format": h.point_format.id, "chunks": sizes, "evlrs": nev, "destination_fails_beyond_byte": budget, "original_size": n0}
            try:
                las = laspy.read(io.BytesIO(raw))
            except Exception as ex:
                if raised and nev:
                    continue     # the relocated EVLRs could not be written: the file is refused by the reader, which the property allows
                add("file unreadable after a failed append", d, f"{type(ex).__name__}: {ex}")
                continue
            got = lasio.rec_bytes(las.points)
            if accepted[:len(got)] != got:
                add("failed append: file holds points that were not written", d, f"{len(las.points)} records read; not a prefix of old ++ accepted points")
    _guarded(add, 'failing destination', sec_failing_destination)
    return failing[:10]


def pair_sweep(ctx):
    """(b) every (version, format) pair the compatibility table allows, original and appended records whose return numbers take every value
    the format can store (0..7 / 0..15): the appended file's statistics must be exact and the file must be the one-shot file"""
    import laspy
    from laspy.vlrs.vlrlist import VLRList
    rng = ctx.rng
    out = []
    for rep in range(ctx.n(2, 8)):
        for v, f in lasio.ALL_PAIRS:
            h = lasio.rand_header(rng, version=v, fmt=f)
            r = lasio.return_range(f)
            A = lasio.sweep_points(rng, h, rng.choice([0, 3, r]))
            evl = VLRList([lasio.rand_vlr(rng, 40)]) if (v == "1.4" and rng.random() < 0.5) else None
            raw0 = lasio.write_las(h, A, evl)
            bio = io.BytesIO(raw0)
            chunks = [lasio.sweep_points(rng, h, n, start=rng.randrange(r)) for n in (r, rng.choice([0, 1, 5]), 2 * r + 1)]
            d = dict(lasio.describe_header(h), orig_returns=lasio.chunk_histogram(A, f), appended_returns=[lasio.chunk_histogram(c, f) for c in chunks], evlrs=len(evl or []))
            try:
                with laspy.open(bio, mode="a", closefd=False) as ap:
                    for c in chunks:
                        ap.append_points(c)
            except Exception as ex:
                out.append(("append session failed (version/format sweep)", d, f"{type(ex).__name__}: {ex}"))
                continue
            fin = bio.getvalue()
            ctx.case(("pair", fin), nontrivial=True)
            ctx.count(f"pair:{v}:{f}")
            probs = lasio.raw_stats_problems(fin)
            if probs:
                out.append(("appended file: header statistics not exact (" + probs[0].split(" ")[0] + ")", d, "; ".join(probs[:3])))
            if lasio.raw_records(fin) != lasio.rec_bytes(A) + b"".join(lasio.rec_bytes(c) for c in chunks):
                out.append(("appended file: point sequence is not original ++ appended", d, f"{len(lasio.raw_records(fin))} bytes of records"))
            ref = lasio.write_las(h, laspy.PackedPointRecord.from_buffer(bytearray(lasio.raw_records(fin)), h.point_format), evl)
            if ref != fin:
                out.append(("appended file differs from one-shot (version/format sweep)", d, f"lengths {len(fin)} vs {len(ref)}"))
    return out


def ensembles(ctx):
    """(a) several appenders (and writers) alive at the same time on files built from ONE header object, interleaved operations, the same record
    object handed to several of them: every file must be the file of its own session run alone, and the one-shot file of its own points"""
    out = []
    rng = ctx.rng
    for _ in range(ctx.n(140, 1200)):
        e = lasio.ens_gen(rng, ctx.thorough(), kinds=rng.choice([["appender"], ["appender"], ["appender", "writer", "open-w"], ["appender", "lasdata"]]))
        d = lasio.ens_describe(e)
        a = lasio.ens_run(e)
        b = lasio.ens_run(e, isolated=True)
        if a["error"] or b["error"]:
            out.append(("ensemble of appenders could not be run", d, str(a["error"] or b["error"])))
            continue
        nld = sum(1 for p in e["parts"] if p["kind"] == "lasdata")
        for j, p in enumerate(e["parts"]):
            if p["kind"] != "appender":
                continue
            fj = a["files"][j]
            ctx.case(("ensemble", fj), nontrivial=len(e["parts"]) > 1)
            ctx.count("ensemble:appender-with:" + "+".join(sorted(set(q["kind"] for q in e["parts"]))))
            dj = dict(d, participant=j)
            probs = lasio.raw_stats_problems(fj)
            if probs:
                out.append(("appenders alive together: header statistics not exact (" + probs[0].split(" ")[0] + ")", dj, "; ".join(probs[:3])))
            if lasio.raw_records(fj) != a["accepted"][j]:
                out.append(("appenders alive together: a file does not hold original ++ its own appended points", dj, f"{len(lasio.raw_records(fj))} bytes of records, {len(a['accepted'][j])} expected"))
            if fj != b["files"][j] or a["outs"][j] != b["outs"][j]:
                out.append(("appenders alive together: a file differs from the same session run alone", dj, f"outcomes {a['outs'][j]} vs {b['outs'][j]}; lengths {len(fj)} vs {len(b['files'][j])}"))
        if a["header_touched"]:
            out.append(("the caller's header object was modified by a writer / appender", d, "fields, VLRs or point format of the header handed to the constructors changed"))
    return out


def patch_evlr_description(raw, rng):
    """the same file with non-ASCII bytes in the description of its first EVLR (as other software writes them)"""
    d = lasio.parse_raw(raw)
    if not d["nevlrs"]:
        return None
    p = d["evlr_start"] + 28
    desc = lasio.nonascii_bytes(rng, rng.choice([3, 12, 32]))
    return raw[:p] + desc + bytes(32 - len(desc)) + raw[p + 32:]


def refused_sessions(ctx):
    """(c) an append that cannot be completed must not destroy what the file held: originals with non-ASCII header strings / VLR / EVLR
    descriptions opened with the DEFAULT encoding_errors ('strict': the header cannot be re-written), or with a lenient one (then the session
    must succeed and give the one-shot file). Whatever is raised, and wherever, the file must afterwards read as the original or as original ++
    accepted, with its EVLRs."""
    import laspy
    from laspy.vlrs.vlrlist import VLRList
    out = []
    rng = ctx.rng
    for it in range(ctx.n(110, 800)):
        h = lasio.rand_header(rng, version=rng.choice(["1.2", "1.4", "1.4", None]))
        where = rng.choice(["header", "header", "evlr", "header+evlr"])
        if "header" in where:
            touched = lasio.make_nonascii(rng, h)
        else:
            touched = []
        A = lasio.sweep_points(rng, h, rng.choice([0, 2, 6]))
        evl = VLRList([lasio.rand_vlr(rng, 60) for _ in range(rng.choice([1, 2]))]) if (h.version.minor >= 4 and (rng.random() < 0.7 or "evlr" in where)) else None
        try:
            raw0 = write_ref(h, [A], evl, {"encoding_errors": "ignore"})
        except Exception as ex:
            out.append(("original with non-ASCII strings could not be written with encoding_errors='ignore'", lasio.describe_header(h), f"{type(ex).__name__}: {ex}"))
            continue
        if "evlr" in where:
            raw0 = patch_evlr_description(raw0, rng) if evl else None
            if raw0 is None:
                continue
            touched = touched + ["evlr description"]
        ee = rng.choice(["strict", "default", "ignore", "replace"])
        kw = {} if ee == "default" else {"encoding_errors": ee}
        via = rng.choice(["class", "open"])
        chunks = [lasio.sweep_points(rng, h, rng.choice([1, 3, 8])) for _ in range(rng.choice([1, 2]))]
        d = dict(lasio.describe_header(h), non_ascii=touched, orig_points=len(A), evlrs=len(evl or []), open=[via, kw], chunks=[len(c) for c in chunks])
        bio = io.BytesIO(raw0)
        raised, accepted = None, lasio.rec_bytes(A)
        try:
            with open_appender(bio, via, kw) as ap:
                for c in chunks:
                    ap.append_points(c)
                    accepted += lasio.rec_bytes(c)
        except Exception as ex:
            raised = f"{type(ex).__name__}: {ex}"
        fin = bio.getvalue()
        ctx.case(("refused", fin), nontrivial=True)
        ctx.count(f"nonascii-append:{where}:{ee}:{'raised' if raised else 'ok'}")
        lenient = ee in ("ignore", "replace")
        site = "EVLR description" if "evlr" in where else "header strings / VLR descriptions"
        if raised is None:
            # a completed session: the usual equivalence
            probs = lasio.raw_stats_problems(fin) + preserved_problems(raw0, fin)
            if lasio.raw_records(fin) != accepted:
                probs.append("records: the file does not hold original ++ appended points")
            if probs:
                out.append(("append on a non-ASCII original: " + probs[0].split(":")[0].split(" ")[0] + " wrong", d, "; ".join(probs[:3])))
            continue
        if lenient:
            out.append((f"non-ASCII original ({site}), lenient encoding_errors: the append session raises", d, raised))
        if fin == raw0:
            continue         # refused without touching the file
        # the session raised after writing: nothing of the original may be lost
        try:
            las = laspy.read(io.BytesIO(fin))
            got = lasio.rec_bytes(las.points)
            ev = None if las.evlrs is None else [lasio.vlr_tuple(v) for v in las.evlrs]
            err = None
        except Exception as ex:
            err = f"{type(ex).__name__}: {ex}"
        las0 = laspy.read(io.BytesIO(raw0))
        ev0 = None if las0.evlrs is None else [lasio.vlr_tuple(v) for v in las0.evlrs]
        why = None
        if err:
            why = f"the file is unreadable afterwards ({err})"
        elif got not in (lasio.rec_bytes(A), accepted):
            why = f"the file holds neither the original nor original ++ accepted points ({len(las.points)} records read)"
        elif ev != ev0:
            why = f"the EVLRs of the original are lost (it held {len(ev0 or [])}, afterwards {[(u, r, len(p)) for u, r, _, p in (ev or [])]})"
        if why:
            out.append((f"non-ASCII original ({site}), {'lenient' if lenient else 'strict'} encoding_errors: the append session raises after damaging the file", d, f"session: {raised}; {why}"))
    return out


def torn_appends(ctx):
    """(d) one low-level write of an append session fails with OSError before storing any byte, then the session goes on: the exception
    leaves the with-block, or the caller catches it and appends the remaining chunks (or the same chunk again), then closes.
    The result must be equivalent to original ++ accepted chunks. (Torn writes that stored bytes: C19.)"""
    from harness.props import c19
    out = []
    for plan, policy, fa, run in c19.faults(ctx):
        if plan["kind"] != "appender":
            continue
        d = c19.describe_fault(plan, policy, fa, run)
        if "error" in run:
            out.append(("torn write during an append: the session could not be run", d, run["error"]))
            continue
        if run["fault"] is None or not str(run["where"]).startswith("write_points") or run["fault"][3] != 0:
            continue      # faults inside close (EVLRs / header rewrite) and torn writes that stored bytes are C19's
        ctx.case(("torn-append", run["final"][:4000], len(run["final"])), nontrivial=True)
        ctx.count(f"torn-append:{policy}")
        fin = run["final"]
        tag = "exception leaves the with-block" if policy == "with" else "caller goes on"
        probs = lasio.raw_stats_problems(fin)
        try:
            if lasio.raw_records(fin) != run["accepted"]:
                probs.insert(0, f"records: the file announces {len(lasio.raw_records(fin))} bytes of records which are not original ++ accepted chunks ({len(run['accepted'])} bytes)")
        except ValueError as ex:
            probs.insert(0, f"header: {ex}")
        probs += [p for p in preserved_problems(run["base"], fin)]
        if probs:
            out.append((f"refused write (appender, nothing stored, {tag}): the file is not equivalent to original ++ accepted chunks", d, "; ".join(probs[:3])))
    return out


_CAP = None
_CAP_DECISIONS = []


def capacity_results(ctx):
    global _CAP
    if _CAP is None:
        _CAP = capacity_cases(ctx)
    return _CAP


def capacity_cases(ctx):
    """(e) the capacity of the file: an original whose header announces max - room points (LAS 1.1-1.3 count their points in 32 bits:
    max = 2**32 - 1; a sparse file object stands for it: it is a LEGAL file of all-zero records whose holes read as zeros) and append calls
    around the boundary. An append whose total stays <= max must be accepted exactly like the one-shot writer accepts that total
    (LasHeader.max_point_count() is the rule of both), one point more must be refused with LaspyException leaving file and record alone, and
    the refused record (or a part of it) must be usable afterwards. LAS 1.4 counts in 64 bits: nothing near 2**32 may be refused there.
    The appended file must hold the new records right behind the old ones, its header must count them all and carry the statistics of
    (zero record) ++ chunks, the EVLRs must follow."""
    import laspy
    from laspy.lasappender import LasAppender
    from laspy.vlrs.vlrlist import VLRList
    rng = ctx.rng
    out = []
    LEGACY_MAX = 2 ** 32 - 1
    for it in range(ctx.n(36, 300)):
        version = ["1.2", "1.1", "1.3", "1.4", "1.2", "1.4"][it % 6]
        h = lasio.small_header(rng, version) if rng.random() < 0.7 else lasio.rand_header(rng, version=version)
        minor = h.version.minor
        evl = VLRList([lasio.rand_vlr(rng, 50) for _ in range(rng.choice([1, 2]))]) if (minor >= 4 and rng.random() < 0.6) else None
        room = rng.choice([0, 1, 2, 3, 5, 17])
        if minor >= 4:
            c = rng.choice([LEGACY_MAX - room, LEGACY_MAX, LEGACY_MAX + 1 + room, 10 ** 10 + room])
            cap = 2 ** 64 - 1
        else:
            c = LEGACY_MAX - room
            cap = LEGACY_MAX
        pub = int(h.max_point_count())
        d = dict(lasio.describe_header(h), announced_points=c, room=cap - c if minor < 4 else "2**64-1-c", evlrs=len(evl or []), calls=[])
        if pub != cap:
            out.append(("LasHeader.max_point_count() is not the capacity of the version", d, f"{pub} for LAS {h.version}, the count field holds up to {cap}"))
            continue
        try:
            sp, head0, small = lasio.make_sparse_las(h, c, evl)
            via = rng.choice(["class", "open"])
            ap = laspy.open(sp, mode="a", closefd=False) if via == "open" else LasAppender(sp, closefd=False)
        except Exception as ex:
            out.append(("file near the capacity of its version: the appender cannot be opened", d, f"{type(ex).__name__}: {ex}"))
            continue
        d["open"] = via
        ps = h.point_format.size
        off = lasio.parse_raw(head0)["offset"]
        # the calls: sizes chosen around the room that is left
        left = cap - c
        sizes = []
        for _ in range(rng.choice([1, 2, 3, 4])):
            sizes.append(rng.choice([left + 1, left, max(left - 1, 0), 1, 0, left + 2, rng.randrange(0, left + 3)]) if minor < 4 else rng.choice([0, 1, 3, room + 1]))
        if minor < 4 and rng.random() < 0.7:
            sizes.append(left + 1)      # one more than what fits ...
            sizes.append(left)          # ... then exactly what fits: the file reaches its maximum
            sizes.append(1)             # ... and is full
        total, accepted, problems = c, [], []
        pool = lasio.sweep_points(rng, h, max(sizes + [1]) + 2, start=rng.randrange(16))
        for n in sizes:
            # the SAME record object is used again and again (sliced to the size wanted)
            rec = pool[:n] if rng.random() < 0.8 else lasio.sweep_points(rng, h, n)
            stored_as = None
            if n and rng.random() < 0.3:
                # a scale-aware record in another scaling: refused for lack of room it must come back untouched, accepted it is stored rescaled
                small = lasio.rand_points(rng, h, n, pattern="small")
                for kx in "XYZ":
                    small.array[kx] = np.array([rng.randrange(-5000, 5000) for _ in range(n)], dtype=np.int32)
                rec = laspy.ScaleAwarePointRecord(small.array, small.point_format, np.array(h.scales) * rng.choice([2.0, 10.0]), np.array(h.offsets, dtype=np.float64))
                stored_as = lasio.raw_records(write_ref(h, [clone_record(rec)], None, {}))
            before, snap = lasio.rec_bytes(rec), sp.snapshot()
            before_state = rec_state(rec)
            try:
                ap.append_points(rec)
                o = "ok"
            except Exception as ex:
                o = "err:" + common.exc_kind(ex)
            fits = total + n <= cap
            if n:
                _CAP_DECISIONS.append((h.version.major, minor, total, n, o, dict(d)))
            d["calls"].append(f"{n}:{o}")
            ctx.count(f"capacity:{'1.4' if minor >= 4 else 'legacy'}:{'fits' if fits else 'too many'}:{o}")
            if rec_state(rec) != before_state:
                problems.append(f"the {'scale-aware ' if stored_as is not None else ''}record of {n} points was modified by append_points ({o}): bytes / scales / offsets differ")
            if fits and n and o != "ok":
                problems.append(f"append of {n} points to a file of {total} (capacity {cap}: the total {total + n} fits, the one-shot writer accepts it) was refused: {o}")
            elif not fits and (o != "err:ELaspy" or sp.snapshot() != snap):
                problems.append(f"append of {n} points to a file of {total} (capacity {cap}) must be refused with LaspyException leaving the file alone: {o}, file unchanged={sp.snapshot() == snap}")
            if o == "ok" and n:
                if sp.read_at(off + total * ps, n * ps) != (before if stored_as is None else stored_as):
                    problems.append(f"the {n} appended records are not stored at offset + {total} x {ps}")
                total += n
                accepted.append(rec)
        try:
            ap.close()
        except Exception as ex:
            problems.append(f"close raised {type(ex).__name__}: {ex}")
        ctx.case(("capacity", str(h.version), c, tuple(sizes), sp.snapshot()[1][:1]), nontrivial=True)
        if not problems:
            # the header: the statistics of (one zero record) ++ accepted chunks, counting c + appended points; EVLRs right behind the points
            try:
                ref = write_ref(h, [laspy.PackedPointRecord.zeros(1, h.point_format)] + accepted, evl, {})
                dr = lasio.parse_raw(ref)
                dg = lasio.parse_raw(sp.read_at(0, off))
                if dg["count"] != total:
                    problems.append(f"the header counts {dg['count']} points, the file holds {c} + {total - c} appended")
                for k_ in ("maxs_bits", "mins_bits", "by_return", "scales", "offsets", "nvlrs", "offset", "psize", "fmt", "nevlrs"):
                    if dg[k_] != dr[k_]:
                        problems.append(f"header field {k_}: {dg[k_]} instead of {dr[k_]} (statistics of a zero record followed by the appended chunks)")
                end = off + total * ps
                if dg["nevlrs"]:
                    if dg["evlr_start"] != end:
                        problems.append(f"start_of_first_evlr {dg['evlr_start']} != offset + count x size = {end}")
                    evb = ref[dr["evlr_start"]:]
                    if sp.read_at(end, len(evb) + 1) != evb:
                        problems.append("the EVLRs do not follow the last point (or something follows them)")
                elif sp.size != end:
                    problems.append(f"file length {sp.size} != offset {off} + {total} x {ps}")
            except Exception as ex:
                problems.append(f"the appended file cannot be examined: {type(ex).__name__}: {ex}")
        if problems:
            what = ("refused although the total fits" if any("was refused" in p_ for p_ in problems) else ("not refused / file touched" if any("must be refused" in p_ for p_ in problems)
                    else ("caller's record modified" if any("was modified" in p_ for p_ in problems) else "file not equivalent")))
            out.append((f"append at the capacity of the file ({'LAS 1.4' if minor >= 4 else 'LAS <= 1.3, 2**32-1 points'}): {what}", d, "; ".join(problems[:3])))
    return out


def big_appends(ctx):
    """(f) one appended chunk of a LENGTH where block-wise copies change behaviour (multiples of 2**16, 2**17 +- 1, beyond 2**20), given as
    a strided / reversed view, an index-array selection or whole: the appended file must be byte for byte the one-shot file"""
    import laspy
    from laspy.vlrs.vlrlist import VLRList
    rng = ctx.rng
    out = []
    strided = ["[::2]", "[::-1]", "[1::2]", "[::3]", "[::-2]"]
    # in every run: an exact multiple of 2**16, a neighbour of one, and one chunk beyond 2**20 - each as a view that is not contiguous
    plan = [(rng.choice([2, 3, 4]) << 16, rng.choice(strided)), (rng.choice([(1 << 17) + 1, (1 << 17) - 1, (1 << 16) + 1]), rng.choice(strided)),
            ((1 << 20) + 1, rng.choice(strided[:2])), (rng.choice(lasio.BIG_LENGTHS[:7]), rng.choice(lasio.BIG_SHAPES))]
    for _ in range(ctx.n(1, 12)):
        plan.append((rng.choice(lasio.BIG_LENGTHS), rng.choice(lasio.BIG_SHAPES[:2] + ["whole"])))
    for L, shape in plan:
        h = lasio.small_header(rng)
        evl = VLRList([lasio.rand_vlr(rng, 40)]) if (h.version.minor >= 4 and rng.random() < 0.5) else None
        A = lasio.rand_points(rng, h, rng.choice([0, 3]))
        d = dict(lasio.describe_header(h), orig_points=len(A), appended=L, selection=shape, evlrs=len(evl or []))
        try:
            base, sel, want = lasio.big_selection(rng, h, L, shape)
            bio = io.BytesIO(write_ref(h, [A], evl, {}))
            with laspy.open(bio, mode="a", closefd=False) as ap:
                ap.append_points(sel)
            fin = bio.getvalue()
            ref = write_ref(h, [A, laspy.PackedPointRecord.from_buffer(bytearray(want), h.point_format)], evl, {})
        except Exception as ex:
            out.append(("append of a large selection: the session raised", d, f"{type(ex).__name__}: {ex}"))
            continue
        ctx.case(("big-append", L, shape, fin[:500]), nontrivial=True)
        ctx.count(f"big-append:{shape}")
        probs = lasio.raw_stats_problems(fin)
        if fin != ref:
            probs.append(f"the appended file ({len(fin)} bytes) is not the one-shot file ({len(ref)} bytes)")
        if probs:
            out.append((f"append of a large {'contiguous' if shape in ('fancy', 'mask', 'whole') else 'non-contiguous'} record: not the one-shot file", d, "; ".join(probs[:3])))
        del base, sel, want, fin, ref
    return out


class FailingStream(io.BytesIO):
    """accepts `budget` bytes, then raises on write (a full disk / closed pipe)"""

    def __init__(self, budget, once=False):
        super().__init__()
        self.budget = budget
        self.once = once          # a transient fault: only the first offending write fails
        self.failed = 0

    def write(self, b):
        if self.tell() + len(b) > self.budget and not (self.once and self.failed):
            self.failed += 1
            raise OSError("no space left on device (harness)")
        return super().write(b)


def failing_append_cases(ctx):
    """the destination fails during a chunk write; the with-block then closes the appender: the file must still be a valid LAS
    file holding a prefix of (old points ++ accepted new points), with a header that describes exactly what it holds"""
    import laspy
    from laspy.lasappender import LasAppender
    out = []
    rng = ctx.rng
    for _ in range(ctx.n(40, 300)):
        h = lasio.rand_header(rng, version=rng.choice(["1.2", "1.4", "1.4"]))
        A = lasio.rand_points(rng, h, rng.choice([0, 2, 5]))
        evl = None
        if h.version.minor >= 4 and rng.random() < 0.7:
            evl = laspy.vlrs.vlrlist.VLRList([lasio.rand_vlr(rng, 100) for _ in range(rng.choice([1, 2]))])
        raw0 = lasio.write_las(h, A, evl)
        chunks = [lasio.rand_points(rng, h, rng.choice([1, 3, 8])) for _ in range(rng.choice([1, 2, 3]))]
        end_pts = int.from_bytes(raw0[96:100], "little") + len(A) * h.point_format.size
        total = sum(len(c) for c in chunks) * h.point_format.size
        budget = end_pts + rng.randrange(0, total + 1)
        st = FailingStream(10 ** 9, once=rng.random() < 0.6)
        st.write(raw0)
        st.seek(0)
        st.budget = budget          # writes reaching beyond `budget` raise (header rewrite at 0 is still possible)
        accepted = lasio.rec_bytes(A)
        raised = False
        try:
            with LasAppender(st, closefd=False) as ap:
                for c in chunks:
                    ap.append_points(c)
                    accepted += lasio.rec_bytes(c)
        except OSError:
            raised = True
        except Exception as ex:
            raised = True
        out.append((h, st.getvalue(), accepted, raised, budget, len(raw0), [len(c) for c in chunks], len(evl or [])))
    return out


def replay(ctx, data):
    print("replay: re-run ./check C06 with the same VERIF_SEED; the failing session is described in the file")
    return 0
