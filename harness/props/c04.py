"""C04 — chunked writing is equivalent to one-shot writing.
Model: Model/Las.v writer (wopen/wstep/wrun) refining file_of (Proofs/WriterProofs.v); Model/WriterAlias.v: the same writer inside
a session in which the caller keeps modifying ITS objects in place (header, VLR list, PointFormat objects shared with chunks),
plain or as a with-block left by an exception (Proofs/WriterAliasProofs.v).
Correspondence: bytes in the destination after random writer sessions (chunks incl. empty and foreign-format ones, write_evlrs,
close at any position) vs the extracted model (main driver); aliasing sessions (caller edits interleaved, every entry point,
with-blocks, chunk formats by object identity) vs the extracted aliasing model (bin/lasmodel_c04): outcomes, file bytes and the
caller's world after the session.
Search: chunked bytes vs one-shot bytes OF THE HEADER AS IT WAS AT OPEN on the implementation; refusals leave the file unchanged;
a with-block left by an exception leaves the file of the accepted calls alone; no writer operation modifies the caller's objects.
Round 5: PLACED sessions (sessions.gen_stat_session: chunks lying exactly on the origin / on one axis / all-equal, boxes that do not
contain the origin, the extremum only in the first / a middle / the last chunk, chunks whose return numbers are all zero or all one
value) go through the model and the oracle like the random ones, with a second one-shot reference (LasData.write); SIZE sessions
(sessions.size_session: one write_points call of more than 2^20 points, lengths that are exact multiples of 65536, strided records)
are judged by the oracle alone: every partition of the same points gives the same bytes, and the file says how many points it holds.
Round 6: REPRESENTATION / SCALING / FAULT sessions (sessions.gen_r6_session; Model/WriterFault.v, `fsess` of bin/lasmodel_c04): chunks as
strided views of every step and sign and of shrinking sizes after one another, read-only memory, ScaleAwarePointRecords whose scaling
differs from the writer's by one ulp .. metres at UTM magnitudes .. everything, write_evlrs failing after k bytes (destination fault or
an EVLR description the strict codec refuses) and write_points refused by the destination, each followed by continued use of the writer.
Oracle: the file is the one-shot file of the accepted points IN THE WRITER'S SYSTEM (laspy's public change_scaling on a private copy;
and, independently of it, every coordinate presented by a chunk is read back to within half a step); once write_evlrs has put a byte
behind the points every later chunk is refused and the file left unchanged."""
import io
import shutil
import tempfile

from harness import common, lasio, sessions

DRIVER = "c04"

ASSUMPTIONS = ["uncompressed destination (the compressed half of the property is C14)",
               "x -> x*scale+offset is monotone in binary64 for the positive scales used (hypothesis ap_ok of the theorems)"]

_SESS = None
_ALIAS = None


def alias_sessions_for(ctx):
    """aliasing sessions (sessions.alias_writer_session), generated AND executed step by step"""
    global _ALIAS
    if _ALIAS is None:
        sessions_for(ctx)          # keep the random stream of the older generator as it was
        tmp = tempfile.mkdtemp(prefix="verif_c04_", dir="/var/tmp")
        try:
            _ALIAS = [sessions.alias_writer_session(ctx.rng, ctx.thorough(), tmp) for _ in range(ctx.n(450, 5000))]
            _ALIAS += near_miss_sessions(ctx)
        finally:
            shutil.rmtree(tmp, ignore_errors=True)
    return _ALIAS


NEAR_MISS = [  # (writer's extra dimension, chunk's extra dimension, what differs) - same format id, same record size
    (("zz", "u4", "d", None), ("zz", "2u2", "d", None), "element count (u4 / 2u2)"),
    (("zz", "2u2", "d", None), ("zz", "u4", "d", None), "element count (2u2 / u4)"),
    (("zz", "i8", "", None), ("zz", "2i4", "", None), "element count (i8 / 2i4)"),
    (("zz", "u2", "", None), ("zz", "2u1", "", None), "element count (u2 / 2u1)"),
    (("zz", "u4", "d", None), ("zz", "i4", "d", None), "signedness"),
    (("zz", "u4", "d", None), ("zz", "f4", "d", None), "integer / float"),
    (("zz", "3u1", "d", None), ("zz", "3i1", "d", None), "signedness of a 3-element dimension"),
    (("zz", "u4", "d", None), ("zy", "u4", "d", None), "name"),
    (("zz", "u4", "d", None), ("zz ", "u4", "d", None), "name (trailing blank)"),
    (("zz", "u4", "d", None), ("zz", "u4", "e", None), "description"),
    (("zz", "u4", "d", None), ("zz", "u4", "", None), "description (empty)"),
    (("zz", "u4", "d", (0.5, 0.0)), ("zz", "u4", "d", None), "scaled / unscaled"),
    (("zz", "u4", "d", None), ("zz", "u4", "d", (1.0, 0.0)), "unscaled / neutral scaling"),
    (("zz", "u4", "d", (0.5, 0.0)), ("zz", "u4", "d", (0.25, 0.0)), "scale"),
    (("zz", "u4", "d", (0.5, 0.0)), ("zz", "u4", "d", (0.5, 1.0)), "offset"),
    (("zz", "5u1", "d", None), ("zz", "4u1", "d", None), "opaque byte count"),
    (("zz", "4u1", "d", None), ("zz", "u4", "d", None), "opaque bytes / typed, same width"),
]


leak_kind = sessions.leak_kind


def near_miss_sessions(ctx):
    """class (c), enumerated: an accepted chunk, then a chunk whose point format differs from the writer's in exactly one respect
    while the record size stays the same (or, for the last rows, hardly changes); both directions"""
    import copy
    import numpy as np
    import laspy
    out = []

    def fmt_with(pid, spec):
        pf = laspy.PointFormat(pid)
        n = int(spec[1][0]) if spec[1][0].isdigit() else 1
        kw = {}
        if spec[3] is not None:
            kw = dict(scales=np.full(n, spec[3][0]), offsets=np.full(n, spec[3][1]))
        pf.add_extra_dimension(laspy.ExtraBytesParams(spec[0], spec[1], description=spec[2], **kw))
        return pf
    for wspec, cspec, what in NEAR_MISS:
        rng = ctx.rng
        version = rng.choice(lasio.VERSIONS)
        pid = rng.choice(lasio.COMPAT[version])
        h = lasio.rand_header(rng, version=version, fmt=pid, nvlrs=rng.choice([0, 1]))
        h.add_extra_dim(laspy.ExtraBytesParams(wspec[0], wspec[1], description=wspec[2],
                                               **({} if wspec[3] is None else dict(scales=np.full(int(wspec[1][0]) if wspec[1][0].isdigit() else 1, wspec[3][0]),
                                                                                  offsets=np.full(int(wspec[1][0]) if wspec[1][0].isdigit() else 1, wspec[3][1])))))
        F = [h.point_format, copy.deepcopy(h.point_format), fmt_with(pid, cspec)]
        open_header = copy.deepcopy(h)
        open_val = sessions.format_value(h.point_format)
        dest = sessions.KeepBytesIO()
        w = laspy.LasWriter(dest, h, closefd=False)
        res = {"desc": {"version": version, "format": pid, "writer_extra_dim": wspec, "chunk_extra_dim": cspec, "differs_in": what, "mode": "plain",
                        "ops": ["w = laspy.LasWriter(<bytesio>, h, closefd=False)"]},
               "outs": [], "unchanged": [], "expect": [], "kinds": [], "problems": [], "probe": [], "mode": "plain", "left": None,
               "open_header": open_header, "open_val": open_val, "evl": None, "near_miss": what}
        toks = ["plain", lasio.assoc_tok(lasio.header_assoc(h)), lasio.vlrs_tok(h.vlrs), "0", "|".join(sessions.fmt_tok(sessions.format_value(f)) for f in F)]
        acc = b""
        for a, n in ((1, 3), (2, 2), (1, 1)):
            rec = lasio.rand_points(rng, sessions._Shim(F[a]), n)
            same = sessions.format_value(F[a]) == open_val
            b0 = dest.value()
            try:
                w.write_points(rec)
                o = "ok"
            except Exception as ex:
                o = "err:" + common.exc_kind(ex)
            res["desc"]["ops"].append(f"w.write_points(<{n} records, extra dimension {cspec if a == 2 else wspec}>)" + ("" if o == "ok" else "   # raised"))
            res["outs"].append(o)
            res["unchanged"].append(b0 == dest.value())
            res["expect"].append("accepted" if same else "refused")
            res["kinds"].append("P")
            toks.append(f"P{a}:" + common.hexb(lasio.rec_bytes(rec) if same else bytes(n * open_val[1])))
            if same and o == "ok":
                acc += lasio.rec_bytes(rec)
        w.close()
        res["outs"].append("ok"); res["unchanged"].append(None); res["expect"].append("ok"); res["kinds"].append("C")
        toks.append("C")
        res["raw"] = dest.value()
        res["accepted"] = acc
        res["final_world"] = None
        res["cmd"] = "sess " + " ".join(toks)
        out.append(res)
    return out


def sessions_for(ctx):
    global _SESS
    if _SESS is None:
        n = ctx.n(500, 4000)
        _SESS = []
        for _ in range(n):
            s = sessions.gen_writer_session(ctx.rng, ctx.thorough())
            s["run"] = sessions.run_writer_session(s)
            _SESS.append(s)
    return _SESS


_STAT = None
_SIZE = None


def stat_sessions_for(ctx):
    """class (c): sessions whose chunks are placed on special values of the statistics (sessions.gen_stat_session)"""
    global _STAT
    if _STAT is None:
        alias_sessions_for(ctx)
        _STAT = []
        for _ in range(ctx.n(300, 4000)):
            s = sessions.gen_stat_session(ctx.rng, ctx.thorough())
            s["via"] = ctx.rng.choice(["class", "open"])
            s["note"]["writer"] = "laspy.LasWriter(dest, h, closefd=False)" if s["via"] == "class" else "laspy.open(dest, mode='w', header=h, closefd=False)"
            s["run"] = sessions.run_writer_session(s, via=s["via"])
            _STAT.append(s)
    return _STAT


def size_sessions_for(ctx):
    """class (b): the same points in one call and in chunks, around the thresholds 65536 / 2^20 / 2^21"""
    global _SIZE
    if _SIZE is None:
        stat_sessions_for(ctx)
        rng = ctx.rng
        B = 1 << 20
        plan = [(B + rng.choice([1, 2, 3, 5, 7]), "1.2", 0, 1)]                       # every run: one call of just over 2^20 points, format 0 (~21 MB)
        if rng.random() < 0.5:
            plan.append((rng.choice([B, B - 1, B + 65536, B + 65535]), rng.choice(lasio.VERSIONS), 0, 1))
        for _ in range(ctx.n(3, 12)):
            v = rng.choice(lasio.VERSIONS)
            f = rng.choice([x for x in lasio.COMPAT[v] if x in (0, 1, 2, 3, 6)])
            plan.append((rng.choice([65535, 65536, 65537, 131072, 131073, 196608, 3 * 65536 + 1]), v, f, rng.choice([1, 1, 2, -1, 3])))
        if ctx.thorough():
            plan += [(2 * B + rng.choice([1, 2, 9]), "1.4", 6, 1), (2 * B, "1.3", 1, 1), (B, "1.2", 0, 1), (B + 1, "1.4", 0, 2), (B + 65536, "1.1", 1, -1),
                     (B + rng.randrange(1, 65536), rng.choice(lasio.VERSIONS), 0, 1), (16 * 65536, "1.4", 7, 2), (17 * 65536, "1.2", 3, 3),
                     ((64 << 20) // 20 + rng.choice([1, 7, 4096]), "1.2", 0, 1)]      # round 6: more than 64 MiB in one write_points call
        _SIZE = [sessions.size_session(rng, n, v, f, nparts=ctx.n(2, 4), stride=st) for n, v, f, st in plan]
    return _SIZE


_R6 = None


def r6_sessions_for(ctx):
    """class round 6: representation / scaling / fault sessions, generated and executed"""
    global _R6
    if _R6 is None:
        size_sessions_for(ctx)
        _R6 = []
        for _ in range(ctx.n(500, 5000)):
            s = sessions.gen_r6_session(ctx.rng, ctx.thorough())
            s["run"] = sessions.run_r6_session(s)
            _R6.append(s)
    return _R6


def describe_r6(s):
    h = s["header"]
    ops = []
    for op in s["ops"]:
        if op[0] in ("P", "PF"):
            i = op[3]
            t = f"w.write_points(<{i['records']} records"
            if i.get("foreign"):
                t += " of ANOTHER point format"
            if "scaling" in i:
                t += f", ScaleAwarePointRecord, scaling vs the header's: {i['scaling']} (scales {i['scales']}, offsets {i['offsets']})"
            if i.get("as"):
                t += ", " + i["as"]
            if i.get("representation", "plain") != "plain":
                t += ", as " + i["representation"]
            t += ">)"
            if op[0] == "PF":
                t += "   # the destination raises OSError during this call, nothing is stored"
            ops.append(t)
        elif op[0] == "E":
            ops.append(f"w.write_evlrs(<{len(op[1])} records>)")
        elif op[0] == "EF":
            ops.append(f"w.write_evlrs(<{len(op[1])} records>)   # FAILS: {op[2]['why']}; {op[2]['stored']} bytes of the EVLR section are stored")
        elif op[0] == "CF":
            ops.append("w.close()   # FAILS: the destination raises OSError on the header rewrite, nothing is stored")
        else:
            ops.append("w.close()")
    return {"version": str(h.version), "format": h.point_format.id, "extra_dims": len(list(h.point_format.extra_dimensions)),
            "scales": [float(x) for x in h.scales], "offsets": [float(x) for x in h.offsets],
            "writer": "laspy.open(dest, mode='w', header=h, closefd=False)" if s["entry"] == "open" else "laspy.LasWriter(dest, h, closefd=False)", "ops": ops}


def _norm_fault_outs(s, outs):
    """outcomes with the injected faults named alike on both sides (which exception the harness's fault surfaces as is not the subject)"""
    out = []
    for op, o in zip(s["ops"], outs):
        if op[0] in ("PF", "EF", "CF") and o.startswith("err:") and o != "err:ELaspy":
            o = "err:EOther"
        out.append(o)
    return out


def one_shot_lasdata(header, point_bytes, evl):
    """the file LasData.write produces for the whole sequence (the other one-shot entry point)"""
    import copy
    import laspy
    h = copy.deepcopy(header)
    n = len(point_bytes) // h.point_format.size
    rec = laspy.PackedPointRecord.from_buffer(bytearray(point_bytes), h.point_format, count=n) if n else laspy.PackedPointRecord.zeros(0, h.point_format)
    las = laspy.LasData(h, points=rec)
    if h.version.minor >= 4 and evl is not None:
        las.evlrs = evl
    b = io.BytesIO()
    las.write(b)
    return b.getvalue()


def describe(s):
    d = {"version": str(s["header"].version), "format": s["header"].point_format.id,
         "extra_dims": len(list(s["header"].point_format.extra_dimensions)),
         "ops": [(o[0] + (str(len(o[1])) + ("" if o[0] != "P" or o[2] else "!fmt")) if o[0] != "C" else "C") for o in s["ops"]]}
    if "note" in s:
        d["placed"] = s["note"]
    return d


def correspond(ctx):
    ctx.extra["rule"] = ("random LasWriter sessions: headers of every version/format (35% with extra dimensions, stale statistics in half of them), "
                         "1..12 ops over {write_points(chunk of 0/1/2/5/17/40 records, random/extreme bytes), write_points(foreign format: "
                         "other id or same id with other extra dims), write_evlrs(0..2 records), close}, always closed at the end, "
                         "closefd=False. non-trivial = at least two non-empty chunks or a refused op; distinct by the op shape and header")
    ctx.extra["rule"] += (" || PLACED sessions: the scaling of every axis maps some stored integer to exactly 0.0; chunks of 1/2/5/17 records placed by a "
                          "plan over {origin, axis0/1/2, all-equal, box+ / box- (not containing the origin), around, extreme-hi/lo, empty} such as (origin, box+), "
                          "(box+, origin, box-), (around, extreme-hi, around); return numbers of a chunk as-is / all zero / all one value / all highest / mixed; "
                          "0-d records; || SIZE sessions (oracle only): one call of 2^20+k points (format 0) in every run, lengths 65535..3*65536+1 incl. strided "
                          "one-shot records, thorough: 2^21+k, exact multiples of 65536 with strides 2 / 3 / -1; each against 2-4 partitions")
    ss_all = sessions_for(ctx) + stat_sessions_for(ctx)
    # sessions with a differently scaled scale-aware chunk: the rescaling rule is C11's; they are checked by the oracle only
    ss = [s for s in ss_all if not sessions.has_rescaled_chunk(s)]
    ctx.count("sessions:with-rescaled-chunk(oracle only)", len(ss_all) - len(ss))
    outs = common.run_model([sessions.writer_cmd(s) for s in ss])
    dis = []
    for s, mo in zip(ss, outs):
        iouts, raw, unchanged, _ = s["run"]
        expect = ",".join(iouts) + " " + common.hexb(raw)
        d = describe(s)
        nonempty = sum(1 for o in s["ops"] if o[0] == "P" and len(o[1]) and o[2])
        ctx.traces += 1
        ctx.case(repr(d), nontrivial=(nonempty >= 2 or any(o.startswith("err") for o in iouts)), sample={"session": d, "outcomes": iouts, "file_bytes": len(raw)})
        for o in s["ops"]:
            ctx.count("op:" + o[0] + ("" if o[0] != "P" else (":empty" if len(o[1]) == 0 else ":foreign" if not o[2] else "")))
        if "note" in s:
            plan = tuple(c["placement"] for c in s["note"]["chunks"])
            ctx.count("placed:plan:" + (",".join(plan) if plan in sessions.STAT_PLANS else "(random plan)"))
            for c in s["note"]["chunks"]:
                if "returns" in c:
                    ctx.count("placed:returns:" + c["returns"])
        for o in iouts:
            ctx.count("outcome:" + o)
        if mo != expect:
            mparts = mo.split(" ")
            what = "outcomes" if mparts[0] != ",".join(iouts) else "file bytes"
            dis.append({"kind": f"writer session {what}", "input": d, "model": mo[:120], "impl": expect[:120]})
    # ---- round 6: representation / scaling / fault sessions vs Model/WriterFault.v
    ctx.extra["rule"] += (" || R6 sessions (2..12 ops, LasWriter / laspy.open): chunks of 0/1/2/3/5/9/17/40 records as plain arrays, strided views "
                          "[::2] [::3] [::-1] [::-2] [a:b:k] (half of the sessions mostly strided, sizes growing and shrinking), read-only memory, copies, 0-d; "
                          "45% ScaleAwarePointRecords whose scaling vs the header's is: equal copy / one ulp / signed zero / relative 1e-9, 1e-7, 5e-6 on everything / "
                          "metres at UTM magnitude / one axis by 1.0 / doubled, halved / one scale by 1e-6 (half of the headers UTM-like: offsets 5e5, 4e6, 1e2); "
                          "write_evlrs of 0..3 records, 55% of the non-empty ones on 1.4 FAIL after k >= 2 bytes (destination OSError in the middle of any "
                          "piece, or a non-ASCII description of EVLR j under the strict codec); 8% of the chunks refused by the destination; foreign chunks; close. "
                          "non-trivial = a fault, a strided or a differently scaled chunk")
    r6 = r6_sessions_for(ctx)
    cmds, idx = [], []
    for i, s in enumerate(r6):
        run = s["run"]
        d = describe_r6(s)
        nt = any(op[0] in ("PF", "EF", "CF") or (op[0] == "P" and (op[3].get("representation", "plain") != "plain" or "scaling" in op[3])) for op in s["ops"])
        ctx.case(repr(d), nontrivial=nt, sample=None)
        for op, o in zip(s["ops"], run["outs"]):
            if op[0] in ("P", "PF"):
                ctx.count("r6:chunk:" + op[3].get("representation", "plain").split(" of an")[0].split("[")[0].strip() + ("" if op[0] == "P" else ":refused-by-destination"))
                if "scaling" in op[3]:
                    ctx.count("r6:scaling:" + op[3]["scaling"] + "->" + o)
            elif op[0] == "EF":
                ctx.count("r6:evlr-fault:" + ("codec" if "evlr" in op[2] else "destination") + "->" + o)
            elif op[0] == "CF":
                ctx.count("r6:close-fault->" + o)
        if run["raw"] is None:
            continue
        c = sessions.r6_model_cmd(s)
        if c is None:
            ctx.count("r6:sessions:chunk-does-not-fit(oracle only)")
            continue
        cmds.append(c)
        idx.append(i)
    for i, mo in zip(idx, common.run_model(cmds, name="c04")):
        s = r6[i]
        ctx.traces += 1
        iouts = _norm_fault_outs(s, s["run"]["outs"])
        m = mo.split(" ")
        if m[0] != ",".join(iouts):
            bad = [k for k, (a, b) in enumerate(zip(m[0].split(","), iouts)) if a != b]
            what = "outcomes"
            if bad and iouts[bad[0]] == "ok" and s["ops"][bad[0]][0] == "P" and any(o[0] == "EF" for o in s["ops"][:bad[0]]):
                what = "a chunk is accepted after write_evlrs failed"
            dis.append({"kind": f"r6 session: {what}", "input": describe_r6(s), "model": m[0][:120], "impl": ",".join(iouts)[:120]})
        elif len(m) < 2 or m[1] != common.hexb(s["run"]["raw"]):
            raw = common.hexb(s["run"]["raw"])
            mm = m[1] if len(m) > 1 else ""
            diff = next((k for k, (a, b) in enumerate(zip(mm, raw)) if a != b), min(len(mm), len(raw)))
            dis.append({"kind": "r6 session: file bytes", "input": describe_r6(s), "model": f"{(len(mm) - 1) // 2} bytes",
                        "impl": f"{len(s['run']['raw'])} bytes, first difference at byte {(diff - 1) // 2}"})
    # ---- aliasing sessions vs Model/WriterAlias.v
    ctx.extra["rule"] += (" || aliasing sessions: every entry point (LasWriter / laspy.open mode w on BytesIO, file stream, path; closefd on/off; plain, "
                          "with-block with the exceptions caught inside, with-block left by the first refused call or by the caller's own exception), "
                          "2..12 steps over {write_points of 0/1/2/5/17/40 records built on one of the caller's five PointFormat objects (the header's own, "
                          "equal copies, one extended / restored in place, a foreign one incl. near misses), records kept from before and stale ones, "
                          "ScaleAwarePointRecord in the scaling of the header at open, 0-d records; an IN-PLACE or re-binding edit of the caller's header / "
                          "of the LasData owning it / of a format object (40 kinds: every scale/offset setter, scales[i], vlrs append/pop/payload, global "
                          "encoding bits, uuid, strings, stale statistics, add/remove extra dimensions ...); write_evlrs; close; raise}. After the open a "
                          "structural sharing probe (object graphs of the caller's world and of the writer) perturbs every mutable object reachable from both. "
                          "Plus the enumerated near-miss formats (same id and width, one attribute of the extra dimension differs). "
                          "non-trivial = an edit or a refusal happened between two accepted chunks, or the block was left by an exception")
    al = [r for r in alias_sessions_for(ctx) if r.get("cmd")]
    mouts = common.run_model([r["cmd"] for r in al], name="c04")
    for r, mo in zip(al, mouts):
        ctx.traces += 1
        ops = r["desc"]["ops"]
        ctx.case(repr(r["desc"]), nontrivial=(len(ops) > 3), sample=None)
        ctx.count("alias:mode:" + r["mode"])
        ctx.count("alias:entry:" + str(r["desc"].get("entry", "LasWriter")) + "/" + str(r["desc"].get("dest", "bytesio")))
        for e, o in zip(r["expect"], r["outs"]):
            ctx.count(f"alias:expect:{e}->{o}")
        for p in r["probe"]:
            ctx.count("alias:probe-shared:" + p.split(" (")[-1].rstrip(")"))
        ctx.count("alias:edits", sum(1 for l in ops if not l.startswith(("w.", "w =", "with", "#", "raise"))))
        if r["left"]:
            ctx.count("alias:block-left-by:" + r["left"].split(":")[0])
        m = mo.split(" ")
        exp_outs = ",".join(r["outs"]) or "-"
        if len(m) < 6:
            dis.append({"kind": "aliasing session: model", "input": r["desc"], "model": mo[:160], "impl": exp_outs})
            continue
        if m[0] != exp_outs:
            k = "aliasing session outcomes"
            bad = [i for i, (a, b) in enumerate(zip(m[0].split(","), r["outs"])) if a != b]
            if bad and r["expect"][bad[0]] == "refused" and r["outs"][bad[0]] == "ok":
                k = leak_kind(r, bad[0])
            dis.append({"kind": k, "input": r["desc"], "model": m[0], "impl": exp_outs})
        elif r["raw"] is not None and m[1] != common.hexb(r["raw"]):
            raw = common.hexb(r["raw"])
            diff = next((i for i, (a, b) in enumerate(zip(m[1], raw)) if a != b), min(len(m[1]), len(raw)))
            dis.append({"kind": "aliasing session file bytes", "input": r["desc"], "model": f"{(len(m[1]) - 1) // 2} bytes", "impl": f"{len(r['raw'])} bytes, first difference at byte {(diff - 1) // 2}"})
        fw = r.get("final_world")
        if fw is not None:
            a = dict(eval(fw[0]))
            ma = lasio.parse_assoc(m[2])
            for k in ("point_format_id", "point_size"):
                ma.pop(k, None)
                a.pop(k, None)
            if ma != a or lasio.parse_vlrs(m[3]) != fw[1] or [int(m[4])] != fw[4] or m[5] != "|".join(sessions.fmt_tok(v) for v in fw[3]):
                bad = sorted(k for k in set(ma) | set(a) if ma.get(k) != a.get(k))
                dis.append({"kind": "aliasing session: the caller's world after the session", "input": r["desc"], "model": f"fields differing: {bad[:6]}", "impl": "see input"})
    return dis


def header_diff(a, b):
    """which statistics of the two headers differ (positions of the public header block: LAS 1.1-1.4)"""
    if a is None or b is None or len(a) < 227 or len(b) < 227:
        return ""
    import struct
    out = []

    def f(raw, off, fmt):
        return struct.unpack_from("<" + fmt, raw, off)
    for name, off, fmt in (("legacy point count", 107, "I"), ("legacy points by return", 111, "5I"), ("max x, min x, max y, min y, max z, min z", 179, "6d")):
        if f(a, off, fmt) != f(b, off, fmt):
            out.append(f"{name}: {f(a, off, fmt)} vs {f(b, off, fmt)}")
    if a[25] >= 4 and b[25] >= 4 and len(a) >= 375 and len(b) >= 375:
        for name, off, fmt in (("point count", 247, "Q"), ("points by return", 255, "15Q")):
            if f(a, off, fmt) != f(b, off, fmt):
                out.append(f"{name}: {f(a, off, fmt)} vs {f(b, off, fmt)}")
    return ("; header fields: " + "; ".join(out)) if out else ""


def judge_r6(s):
    """C04 on one r6 session, on the implementation alone; returns [(kind, observed)]"""
    import numpy as np
    import laspy
    run = s["run"]
    h = s["header"]
    outs = run["outs"]
    if run["raw"] is None or (outs and outs[0].startswith("open-err")):
        return []
    res = []
    size = h.point_format.size
    finished = False
    evl_bytes_stored = False
    pts = b""
    presented = []          # per accepted scale-aware chunk: (index of its first record, real coordinates it presented)
    evl_ok = None
    clean = True            # no fault tore the EVLR section
    for op, o, same_bytes, grown in zip(s["ops"], outs, run["unchanged"], run["grown"]):
        if op[0] in ("P", "PF"):
            rec, info = op[1], op[3]
            n = len(rec)
            rep = info.get("representation", "plain")
            if n == 0:
                if o != "ok" or not same_bytes:
                    res.append(("empty chunk not ignored", f"empty chunk: outcome {o}, unchanged={same_bytes}"))
                continue
            if not op[2]:
                if o != "err:ELaspy" or not same_bytes:
                    res.append(("foreign-format chunk not refused", f"write_points of a foreign format: outcome {o}, file unchanged={same_bytes}"))
                continue
            if finished:
                if o != "err:ELaspy" or not same_bytes:
                    k = "write after finish not refused" if not evl_bytes_stored or clean else "chunk accepted after a failed write_evlrs had put EVLR bytes behind the points"
                    res.append((k, f"write_points of {n} records after the writer was finished: outcome {o}, file unchanged={same_bytes} (grew by {grown} bytes)"))
                continue
            if op[0] == "PF":
                if o == "ok" or not same_bytes:
                    res.append(("chunk refused by the destination left a trace", f"outcome {o}, file unchanged={same_bytes}"))
                continue
            want = sessions.in_writers_system(rec, h) if hasattr(rec, "scales") else lasio.rec_bytes(rec)
            if want is None:
                if o != "err:EOverflow" or not same_bytes:
                    res.append(("chunk that does not fit the writer's scaling not refused cleanly", f"outcome {o}, file unchanged={same_bytes}"))
                continue
            if o != "ok":
                res.append(("chunk refused although the writer is not finished", f"write_points of {n} records ({rep}) before any EVLR/close: {o}"))
                continue
            if grown != n * size:
                res.append(("a chunk does not add exactly its records to the file", f"{n} records of {size} bytes ({rep}): the destination grew by {grown} bytes"))
            if hasattr(rec, "scales"):
                a = np.atleast_1d(rec.array)
                presented.append((len(pts) // size, info.get("scaling"),
                                  [np.asarray(a[k], dtype=np.float64) * float(rec.scales[i]) + float(rec.offsets[i]) for i, k in enumerate("XYZ")]))
            pts += want
        elif op[0] == "E":
            if o == "ok" and len(op[1]) and evl_ok is None and h.version.minor >= 4:
                evl_ok = op[1]
                finished = True
                evl_bytes_stored = True
        elif op[0] == "EF":
            if o == "ok":
                res.append(("harness: the injected write_evlrs fault did not fire", str(op[2])))
            if grown > 0:
                evl_bytes_stored = True
            finished = True
            clean = False
        elif op[0] == "CF":
            if o == "ok" or not same_bytes:
                res.append(("a close() refused by the destination left a trace (or did not raise)", f"outcome {o}, file unchanged={same_bytes}"))
            finished = True
        else:
            if o != "ok":
                res.append(("close failed", f"close: {o}"))
            finished = True
    for what, op in run["problems"]:
        res.append((what, f"chunk: {op[3]}"))
    raw = run["raw"]
    if res:
        return res
    try:
        hd = lasio.parse_raw(raw)
        off = hd["offset"]
        cnt = hd["count"]
    except Exception as ex:
        return [("file of the session cannot be parsed", f"{type(ex).__name__}: {ex}")]
    if clean:
        try:
            ref = sessions.one_shot(h, pts, evl_ok if h.version.minor >= 4 else None)
        except Exception:
            ref = None
        if ref is not None and ref != raw:
            diff = next((i for i, (a, b) in enumerate(zip(ref, raw)) if a != b), min(len(ref), len(raw)))
            sc = sorted({p[1] for p in presented})
            kind = "chunked differs from one-shot"
            if sc and len(ref) == len(raw):
                kind = "chunked differs from one-shot of the points in the writer's system (a scale-aware chunk of another scaling)"
            res.append((kind, f"first differing byte at {diff} (lengths {len(raw)} vs {len(ref)}; point data starts at {off}); scalings of the scale-aware chunks vs the header's: {sc}{header_diff(raw, ref)}"))
    else:
        if raw[off:off + len(pts)] != pts or cnt * size != len(pts):
            res.append(("after a failed write_evlrs the point section is not that of the accepted chunks",
                        f"header count {cnt}, {len(pts) // size} records accepted; point bytes equal: {raw[off:off + len(pts)] == pts}; file length {len(raw)}"))
    # independent of laspy's change_scaling: what a scale-aware chunk presented is read back to within half a step of the file's scaling
    if presented and not res:
        try:
            arr = np.frombuffer(raw[off:off + len(pts)], dtype=h.point_format.dtype())
            for first, how, cols in presented:
                m = len(cols[0])
                for i, k in enumerate("XYZ"):
                    got = np.asarray(arr[k][first:first + m], dtype=np.float64) * float(h.scales[i]) + float(h.offsets[i])
                    err = np.abs(got - cols[i])
                    tol = 0.5 * float(h.scales[i]) * (1 + 1e-9) + 2e-15 * max(1.0, float(np.abs(cols[i]).max()), abs(float(h.offsets[i])))
                    if float(err.max()) > tol:
                        res.append(("a scale-aware chunk of another scaling was stored without being re-expressed",
                                    f"{k} of the chunk at record {first} (scaling vs the header's: {how}): presented {cols[i][:3].tolist()}, "
                                    f"stored as {got[:3].tolist()}; error {float(err.max())!r} > half a step {0.5 * float(h.scales[i])!r}"))
                        break
        except Exception as ex:
            res.append(("file of the session cannot be read", f"{type(ex).__name__}: {ex}"))
    return res


def search(ctx, seeds):
    failing, seen = [], set()

    def add(kind, inp, why):
        if kind not in seen:
            seen.add(kind)
            failing.append({"kind": kind, "input": inp, "observed": why})
    for s in sessions_for(ctx) + stat_sessions_for(ctx):
        iouts, raw, unchanged, _ = s["run"]
        d = describe(s)
        if iouts and iouts[0].startswith("open-err"):
            continue
        # (a) refusals: after the writer is finished, or a foreign format -> raise and leave the file unchanged
        finished = False
        for op, o, same_bytes in zip(s["ops"], iouts, unchanged):
            if op[0] == "P" and len(op[1]):
                if not op[2]:
                    if o != "err:ELaspy" or not same_bytes:
                        add("foreign-format chunk not refused", d, f"write_points of a foreign format: outcome {o}, file unchanged={same_bytes}")
                elif finished:
                    if o != "err:ELaspy" or not same_bytes:
                        add("write after finish not refused", d, f"write_points after the writer was finished: outcome {o}, file unchanged={same_bytes}")
            if op[0] == "P" and len(op[1]) == 0 and (o != "ok" or not same_bytes):
                add("empty chunk not ignored", d, f"empty chunk: outcome {o}, unchanged={same_bytes}")
            if op[0] == "P" and len(op[1]) and op[2] and not finished and o not in ("ok", "err:EOverflow"):
                add("chunk refused although the writer is not finished", d, f"write_points of {len(op[1])} points of the writer's format before any EVLR/close: {o}")
            if (op[0] == "E" and o == "ok" and len(op[1])) or (op[0] == "C" and o == "ok"):
                finished = True
        # (b) chunked == one-shot, byte for byte
        pts, evl = sessions.accepted_points(s, iouts)
        if s["header"].version.minor < 4:
            evl = None
        if sessions.has_rescaled_chunk(s):
            # the stored integers of a rescaled chunk are C11's business: take the points as stored, and require the rest of
            # the file (header statistics, offsets, EVLRs) to be that of writing these points at once
            try:
                import io as _io
                import laspy as _laspy
                pts = lasio.rec_bytes(_laspy.read(_io.BytesIO(raw)).points)
            except Exception as ex:
                add("file of a session with a rescaled chunk cannot be read", d, repr(ex))
                continue
        try:
            ref = sessions.one_shot(s["header"], pts, evl)
        except Exception as ex:
            continue
        if ref != raw:
            diff = next((i for i, (a, b) in enumerate(zip(ref, raw)) if a != b), min(len(ref), len(raw)))
            add("chunked differs from one-shot", d, f"first differing byte at {diff} (lengths {len(raw)} vs {len(ref)}){header_diff(raw, ref)}")
        elif "note" in s and not sessions.has_rescaled_chunk(s):
            try:
                ref2 = one_shot_lasdata(s["header"], pts, evl)
            except Exception as ex:
                add("one-shot LasData.write of the accepted points failed", d, f"{type(ex).__name__}: {ex}")
                continue
            if ref2 != raw:
                diff = next((i for i, (a, b) in enumerate(zip(ref2, raw)) if a != b), min(len(ref2), len(raw)))
                add("chunked differs from one-shot (LasData.write)", d, f"first differing byte at {diff} (lengths {len(raw)} vs {len(ref2)}){header_diff(raw, ref2)}")
    # ---- SIZE sessions: every way of cutting the same points gives the same bytes; the file says how many points it holds
    for r in size_sessions_for(ctx):
        d = r["desc"]
        ctx.case(repr(d), nontrivial=True, sample=None)
        ctx.count("size:points:" + ("2^20+k" if (1 << 20) < r["n"] < (1 << 21) else ">=2^21" if r["n"] >= (1 << 21) else "multiple-of-65536" if r["n"] % 65536 == 0 else "65536*m+-1"))
        if d["stride_of_the_one_shot_record"] != 1:
            ctx.count("size:strided-one-shot-record")
        for f in r["files"]:
            lab = f["label"]
            if f["error"] is not None:
                add("writing a large record failed", dict(d, route=lab), f["error"])
                continue
            off, w = r["count_field"]
            b = f["head"]
            cnt = int.from_bytes(b[off:off + w], "little")
            data_off = int.from_bytes(b[96:100], "little")
            if cnt != r["n"] or f["length"] != data_off + r["n"] * d["record_size"]:
                add("point count of the file differs from the points written", dict(d, route=lab),
                    f"{r['n']} points were written by: {lab}; the header says {cnt}, the file holds {(f['length'] - data_off) // d['record_size']} records")
            if not f["same"]:
                add("chunked differs from one-shot", dict(d, routes=[f["base"], lab]),
                    f"the same {r['n']} points: [{f['base']}] and [{lab}] give files that differ first at byte {f['first_diff']} "
                    f"(lengths {f['base_length']} vs {f['length']}){header_diff(b, f['base_head'])}")
    # ---- round 6: representation / scaling / fault sessions, the property stated on the implementation
    for s in r6_sessions_for(ctx):
        for kind, why in judge_r6(s):
            add(kind, describe_r6(s), why)
    # ---- aliasing sessions: the property stated on the implementation, against the header AS IT WAS WHEN THE WRITER WAS OPENED
    for r in alias_sessions_for(ctx):
        d = r["desc"]
        if r["outs"] and r["outs"][0].startswith("open-err"):
            continue
        nm = r.get("near_miss")
        leaked = False
        for i, (kind, exp, o, same_bytes) in enumerate(zip(r["kinds"], r["expect"], r["outs"], r["unchanged"])):
            if kind == "P" and exp == "refused":
                if o != "err:ELaspy" or same_bytes is False:
                    leaked = True
                    if nm:
                        add(leak_kind(r, i), d,
                            f"write_points of records whose extra dimension is {d['chunk_extra_dim']} on a writer whose header has {d['writer_extra_dim']}: outcome {o}, file unchanged={same_bytes}")
                    else:
                        add(leak_kind(r, i), d, f"expected a refusal that leaves the file unchanged: outcome {o}, file unchanged={same_bytes}")
            elif kind == "P" and exp == "accepted" and o != "ok":
                add("legal chunk refused after the caller edited its own objects", d, f"write_points of records in the format the header had at open, writer not finished: {o}")
            elif kind == "P" and exp == "ok" and (o != "ok" or same_bytes is False):
                add("empty chunk not ignored", d, f"empty chunk: outcome {o}, unchanged={same_bytes}")
            elif kind == "C" and o != "ok":
                add("close failed in an aliasing session", d, f"close: {o}")
            elif kind == "E" and exp == "ok" and o != "ok":
                add("write_evlrs failed in an aliasing session", d, f"write_evlrs: {o}")
        for what, where in r["problems"]:
            add(what, d, f"during: {where}")
        if r["raw"] is None or leaked:
            continue
        try:
            ref = sessions.one_shot(r["open_header"], r["accepted"], r["evl"] if r["open_header"].version.minor >= 4 else None)
        except Exception:
            continue
        if ref != r["raw"]:
            raw = r["raw"]
            diff = next((i for i, (a, b) in enumerate(zip(ref, raw)) if a != b), min(len(ref), len(raw)))
            edited = any(not l.startswith(("w.", "w =", "with", "#", "raise")) for l in d["ops"])
            if r["left"] is not None:
                add("file after a with-block left by an exception is not the file of the accepted calls", d,
                    f"block left by {r['left']}; first differing byte at {diff} (lengths {len(raw)} vs {len(ref)} for the one-shot file of the accepted chunks)")
            elif edited:
                add("chunked file differs from the one-shot file of the header as it was at open (caller edited its objects meanwhile)", d,
                    f"first differing byte at {diff} (lengths {len(raw)} vs {len(ref)}); sharing probe: {r['probe'][:4]}")
            else:
                add("chunked differs from one-shot", d, f"first differing byte at {diff} (lengths {len(raw)} vs {len(ref)})")
    return failing[:8]


def replay(ctx, data):
    print("replay: re-run ./check C04 with the same VERIF_SEED; the failing session is described in the file")
    return 0
