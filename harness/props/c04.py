"""C04 — chunked writing is equivalent to one-shot writing.
Model: Model/Las.v writer (wopen/wstep/wrun) refining file_of (Proofs/WriterProofs.v).
Correspondence: bytes in the destination after random writer sessions (chunks incl. empty and foreign-format ones, write_evlrs,
close at any position) vs the extracted model. Search: chunked bytes vs one-shot bytes on the implementation; refusals leave the file unchanged."""
from harness import common, lasio, sessions

ASSUMPTIONS = ["uncompressed destination (the compressed half of the property is C14)",
               "x -> x*scale+offset is monotone in binary64 for the positive scales used (hypothesis ap_ok of the theorems)"]

_SESS = None


def sessions_for(ctx):
    global _SESS
    if _SESS is None:
        n = ctx.n(500, 4000)
        _SESS = []
        for _ in range(n):
            s = sessions.gen_writer_session(ctx.rng, ctx.thorough())
            s["run"] = sessions.run_writer_session(s)
            _SESS.append(s)
    return _SESS


def describe(s):
    return {"version": str(s["header"].version), "format": s["header"].point_format.id,
            "extra_dims": len(list(s["header"].point_format.extra_dimensions)),
            "ops": [(o[0] + (str(len(o[1])) + ("" if o[0] != "P" or o[2] else "!fmt")) if o[0] != "C" else "C") for o in s["ops"]]}


def correspond(ctx):
    ctx.extra["rule"] = ("random LasWriter sessions: headers of every version/format (35% with extra dimensions, stale statistics in half of them), "
                         "1..12 ops over {write_points(chunk of 0/1/2/5/17/40 records, random/extreme bytes), write_points(foreign format: "
                         "other id or same id with other extra dims), write_evlrs(0..2 records), close}, always closed at the end, "
                         "closefd=False. non-trivial = at least two non-empty chunks or a refused op; distinct by the op shape and header")
    ss_all = sessions_for(ctx)
    # sessions with a differently scaled scale-aware chunk: the rescaling rule is C11's; they are checked by the oracle only
    ss = [s for s in ss_all if not sessions.has_rescaled_chunk(s)]
    ctx.count("sessions:with-rescaled-chunk(oracle only)", len(ss_all) - len(ss))
    outs = common.run_model([sessions.writer_cmd(s) for s in ss])
    dis = []
    for s, mo in zip(ss, outs):
        iouts, raw, unchanged, _ = s["run"]
        expect = ",".join(iouts) + " " + common.hexb(raw)
        d = describe(s)
        nonempty = sum(1 for o in s["ops"] if o[0] == "P" and len(o[1]) and o[2])
        ctx.traces += 1
        ctx.case(repr(d), nontrivial=(nonempty >= 2 or any(o.startswith("err") for o in iouts)), sample={"session": d, "outcomes": iouts, "file_bytes": len(raw)})
        for o in s["ops"]:
            ctx.count("op:" + o[0] + ("" if o[0] != "P" else (":empty" if len(o[1]) == 0 else ":foreign" if not o[2] else "")))
        for o in iouts:
            ctx.count("outcome:" + o)
        if mo != expect:
            mparts = mo.split(" ")
            what = "outcomes" if mparts[0] != ",".join(iouts) else "file bytes"
            dis.append({"kind": f"writer session {what}", "input": d, "model": mo[:120], "impl": expect[:120]})
    return dis


def search(ctx, seeds):
    failing, seen = [], set()

    def add(kind, inp, why):
        if kind not in seen:
            seen.add(kind)
            failing.append({"kind": kind, "input": inp, "observed": why})
    for s in sessions_for(ctx):
        iouts, raw, unchanged, _ = s["run"]
        d = describe(s)
        if iouts and iouts[0].startswith("open-err"):
            continue
        # (a) refusals: after the writer is finished, or a foreign format -> raise and leave the file unchanged
        finished = False
        for op, o, same_bytes in zip(s["ops"], iouts, unchanged):
            if op[0] == "P" and len(op[1]):
                if not op[2]:
                    if o != "err:ELaspy" or not same_bytes:
                        add("foreign-format chunk not refused", d, f"write_points of a foreign format: outcome {o}, file unchanged={same_bytes}")
                elif finished:
                    if o != "err:ELaspy" or not same_bytes:
                        add("write after finish not refused", d, f"write_points after the writer was finished: outcome {o}, file unchanged={same_bytes}")
            if op[0] == "P" and len(op[1]) == 0 and (o != "ok" or not same_bytes):
                add("empty chunk not ignored", d, f"empty chunk: outcome {o}, unchanged={same_bytes}")
            if op[0] == "P" and len(op[1]) and op[2] and not finished and o not in ("ok", "err:EOverflow"):
                add("chunk refused although the writer is not finished", d, f"write_points of {len(op[1])} points of the writer's format before any EVLR/close: {o}")
            if (op[0] == "E" and o == "ok" and len(op[1])) or (op[0] == "C" and o == "ok"):
                finished = True
        # (b) chunked == one-shot, byte for byte
        pts, evl = sessions.accepted_points(s, iouts)
        if s["header"].version.minor < 4:
            evl = None
        if sessions.has_rescaled_chunk(s):
            # the stored integers of a rescaled chunk are C11's business: take the points as stored, and require the rest of
            # the file (header statistics, offsets, EVLRs) to be that of writing these points at once
            try:
                import io as _io
                import laspy as _laspy
                pts = lasio.rec_bytes(_laspy.read(_io.BytesIO(raw)).points)
            except Exception as ex:
                add("file of a session with a rescaled chunk cannot be read", d, repr(ex))
                continue
        try:
            ref = sessions.one_shot(s["header"], pts, evl)
        except Exception as ex:
            continue
        if ref != raw:
            diff = next((i for i, (a, b) in enumerate(zip(ref, raw)) if a != b), min(len(ref), len(raw)))
            add("chunked differs from one-shot", d, f"first differing byte at {diff} (lengths {len(raw)} vs {len(ref)})")
    return failing[:6]


def replay(ctx, data):
    print("replay: re-run ./check C04 with the same VERIF_SEED; the failing session is described in the file")
    return 0
