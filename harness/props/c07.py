"""C07 — header fields survive serialisation, layout arithmetic exact, no incompatible (version, format) pair.
Model: header codec of Model/Las.v (layouts from write_to/read_from on every run), Model/HeaderOps.v (API ops, calendar).
Correspondence: LasHeader.write_to / read_from bytes and fields vs enc_header / dec_header on boundary values; every API entry on every
(version, format) pair vs hstep; dates vs yday/of_yday. Search: field-by-field round trip, size/offset identities, in-place rewrite,
compat invariant, directly on the implementation."""
import io
from datetime import date, timedelta

import numpy as np

from harness import common, lasio

ASSUMPTIONS = ["struct.pack('<d') is the identity on 64-bit patterns (exercised with NaN payloads, +-inf, -0.0, subnormals)",
               "ASCII strings; creation_date is a datetime.date"]

VERS = [(1, 1), (1, 2), (1, 3), (1, 4)]


def special_doubles(rng):
    pats = [0, 1 << 63, 0x7FF0000000000000, 0xFFF0000000000000, 0x7FF8000000000001, 0x7FF0000000000001, 1, 0x000FFFFFFFFFFFFF,
            0x7FEFFFFFFFFFFFFF, 0x3FF0000000000000, rng.getrandbits(64)]
    return lasio.bits_f64(rng.choice(pats))


def boundary_header(rng, ver=None):
    import laspy
    import uuid
    ver = ver or rng.choice(lasio.VERSIONS)
    fmt = rng.choice(lasio.COMPAT[ver])
    h = laspy.LasHeader(version=ver, point_format=fmt)
    h.file_source_id = rng.choice([0, 65535, rng.randrange(65536)])
    h.global_encoding.value = rng.choice([0, 0xFFFF, rng.randrange(65536)])
    h.uuid = uuid.UUID(bytes=bytes(rng.randrange(256) for _ in range(16)))
    h.system_identifier = lasio.rand_ascii(rng, rng.choice([0, 1, 31, 32, rng.randrange(33)]))
    h.generating_software = lasio.rand_ascii(rng, rng.choice([0, 1, 31, 32, rng.randrange(33)]))
    y = rng.choice([1, 4, 100, 400, 1900, 2000, 2020, 2023, 2024, 9996, 9999, rng.randrange(1, 10000)])
    k = rng.random()
    h.creation_date = date(y, 1, 1) if k < 0.2 else date(y, 12, 31) if k < 0.45 else date(y, 2, 28) + timedelta(rng.choice([0, 1])) if k < 0.6 else date(y, 1, 1) + timedelta(rng.randrange(365))
    for nm in ("scales", "offsets", "maxs", "mins"):
        setattr(h, nm, np.array([special_doubles(rng) if rng.random() < 0.5 else rng.uniform(-1e9, 1e9) for _ in range(3)]))
    h.point_count = rng.choice([0, 1, 2 ** 32 - 1]) if ver < "1.4" else rng.choice([0, 1, 2 ** 32 - 1, 2 ** 32, 2 ** 64 - 1])
    lim = 2 ** 32 - 1 if ver < "1.4" else 2 ** 64 - 1
    h.number_of_points_by_return = np.array([rng.choice([0, 1, lim]) for _ in range(15)], dtype=np.uint64)
    if ver >= "1.3":
        h.start_of_waveform_data_packet_record = rng.choice([0, 1, 2 ** 64 - 1, rng.getrandbits(64)])
    if ver >= "1.4":
        h.start_of_first_evlr = rng.choice([0, 1, 2 ** 64 - 1, rng.getrandbits(64)])
        h.number_of_evlrs = rng.choice([0, 1, 2 ** 32 - 1])
    h.extra_header_bytes = bytes(rng.randrange(256) for _ in range(rng.choice([0, 0, 1, 7, 300])))
    h.extra_vlr_bytes = bytes(rng.randrange(256) for _ in range(rng.choice([0, 0, 1, 5, 100])))
    for _ in range(rng.choice([0, 0, 1, 3])):
        h.vlrs.append(lasio.rand_vlr(rng, max_payload=rng.choice([0, 10, 65535])))
    if rng.random() < 0.25:
        # a coordinate-system record in the header must not make the reader/writer touch the global encoding bits
        from laspy.vlrs.known import WktCoordinateSystemVlr
        h.vlrs.append(WktCoordinateSystemVlr('GEOGCS["WGS 84"]'))
    return h


_HDRS = None


def headers(ctx):
    global _HDRS
    if _HDRS is None:
        _HDRS = [boundary_header(ctx.rng) for _ in range(ctx.n(400, 5000))]
        # every string length 0..32 exhaustively
        for L in range(33):
            h = boundary_header(ctx.rng)
            h.system_identifier = lasio.rand_ascii(ctx.rng, L)
            h.generating_software = lasio.rand_ascii(ctx.rng, 32 - L)
            _HDRS.append(h)
    return _HDRS


def write_header(h):
    b = io.BytesIO()
    h.write_to(b)
    return b.getvalue()


def api_ops(ctx):
    """sequences of API calls starting from a created header; every (version, format) pair legal or not appears"""
    rng = ctx.rng
    seqs = []
    pairs = [(v, f) for v in VERS for f in range(11)] + [((1, 0), 0), ((1, 5), 3), ((2, 0), 1), ((1, 2), 11), ((1, 4), 64)]
    singles = []
    for v, f in pairs:
        singles += [("N", v, f), ("B", v, f), ("C", f, v)]
    for v in VERS + [(1, 0), (1, 5)]:
        singles += [("N", v, None), ("V", v)]
    for f in list(range(11)) + [11, 64]:
        singles += [("N", None, f), ("F", f), ("C", f, None)]
    singles += [("N", None, None), ("W",)]
    for s in singles + [("C", None, None), ("C", None, (1, 4)), ("C", None, (1, 1))]:
        # convert without an explicit format takes the format of the point record: only from a fresh LasData,
        # where header and record agree
        for start in [(1, 2, 3), (1, 4, 6), (1, 1, 0), (1, 3, 5)]:
            seqs.append((start, [s]))
    for _ in range(ctx.n(300, 3000)):
        start = rng.choice([(1, 2, 3), (1, 4, 6), (1, 1, 1), (1, 3, 4), (1, 4, 10)])
        seqs.append((start, [rng.choice(singles) for _ in range(rng.randrange(2, 8))]))
    return seqs


def op_tok(op):
    def vt(v):
        return "-" if v is None else f"{v[0]}.{v[1]}"
    def ft(f):
        return "-" if f is None else str(f)
    if op[0] == "N":
        return f"N{vt(op[1])}:{ft(op[2])}"
    if op[0] == "V":
        return f"V{vt(op[1])}"
    if op[0] == "F":
        return f"F{op[1]}"
    if op[0] == "B":
        return f"B{vt(op[1])}:{op[2]}"
    if op[0] == "C":
        return f"C{ft(op[1])}:{vt(op[2])}"
    return "W"


def run_api(start, ops):
    """execute on laspy; state is a LasData whose header carries (version, format)"""
    import laspy
    from laspy.header import Version
    las = laspy.create(point_format=start[2], file_version=f"{start[0]}.{start[1]}")
    outs = []
    for op in ops:
        before = (las.header.version.major, las.header.version.minor, las.header.point_format.id)
        try:
            if op[0] == "N":
                kw = {}
                if op[1] is not None:
                    kw["version"] = f"{op[1][0]}.{op[1][1]}"
                if op[2] is not None:
                    kw["point_format"] = op[2]
                las = laspy.LasData(header=laspy.LasHeader(**kw))
            elif op[0] == "V":
                las.header.version = Version(*op[1])
            elif op[0] == "F":
                las.header.point_format = laspy.PointFormat(op[1])
            elif op[0] == "B":
                las.header.set_version_and_point_format(Version(*op[1]), laspy.PointFormat(op[2]))
            elif op[0] == "C":
                kw = {}
                if op[1] is not None:
                    kw["point_format_id"] = op[1]
                if op[2] is not None:
                    kw["file_version"] = f"{op[2][0]}.{op[2][1]}"
                las = laspy.convert(las, **kw)
            else:
                w = laspy.LasWriter(io.BytesIO(), las.header, closefd=False)
                w.close()
            st = (las.header.version.major, las.header.version.minor, las.header.point_format.id)
            outs.append(("ok", st))
        except Exception as ex:
            st = (las.header.version.major, las.header.version.minor, las.header.point_format.id)
            outs.append(("err", common.exc_kind(ex), st, st == before))
    return outs


def dates(ctx):
    out = []
    years = list(range(1, 10000)) if ctx.thorough() else sorted(set([1, 2, 3, 4, 5, 100, 200, 400, 1000, 1582, 1900, 1999, 2000, 2001, 2020, 2023, 2024, 2100, 9996, 9999] + [ctx.rng.randrange(1, 10000) for _ in range(150)]))
    for y in years:
        for md in [(1, 1), (1, 31), (2, 1), (2, 28), (3, 1), (6, 30), (7, 1), (12, 30), (12, 31)]:
            out.append((y,) + md)
        try:
            date(y, 2, 29)
            out.append((y, 2, 29))
        except ValueError:
            pass
        d = date(y, 1, 1) + timedelta(ctx.rng.randrange(365))
        out.append((d.year, d.month, d.day))
    return out


def correspond(ctx):
    ctx.extra["rule"] = ("headers with boundary values in every field (u16/u32/u64 extremes, all-ones encodings, random GUIDs, strings of every length "
                         "0..32, leap-year dates, non-finite / subnormal / NaN-payload doubles, extra header bytes, padding, VLRs with empty and 65535-byte "
                         "payloads) over versions 1.1-1.4: write_to bytes vs enc_header, read_from vs dec_header; API histories over every (version, format) "
                         "pair legal or not through LasHeader(), setters, set_version_and_point_format, create, convert, LasWriter vs hstep; dates vs "
                         "yday/of_yday. non-trivial = non-default field values / an op on an illegal pair; distinct by bytes / op list")
    dis = []
    hs = headers(ctx)
    cmds, exp = [], []
    for h in hs:
        try:
            raw = write_header(h)
        except Exception as ex:
            raw = None
            err = common.exc_kind(ex)
        d = lasio.header_assoc(h)
        cmds.append(f"enc_header {lasio.assoc_tok(d)} {lasio.vlrs_tok(h.vlrs)} F")
        exp.append(("ok " + common.hexb(raw)) if raw is not None else ("err " + err))
        if raw is not None and h.number_of_evlrs <= 100000:   # the model bounds EVLR counts (MAX_VLRS); larger ones: oracle only
            cmds.append(f"dec_header {common.hexb(raw + b'trailing-bytes')} F")
            exp.append(raw)
    outs = common.run_model(cmds)
    import laspy
    for c, e, o in zip(cmds, exp, outs):
        ctx.traces += 1
        if c.startswith("enc_header"):
            ctx.case(e, nontrivial=True, sample={"written_header_bytes": len(e) // 2})
            ctx.count("header:" + ("ok" if e.startswith("ok") else e))
            got = o.split(" ")
            if (e.startswith("ok") and (got[0] != "ok" or got[1] != e[3:])) or (e.startswith("err") and o != e):
                dis.append({"kind": "header write_to bytes", "input": {"cmd": c[:200]}, "model": o[:120], "impl": e[:120]})
        else:
            back = laspy.LasHeader.read_from(io.BytesIO(e + b"trailing-bytes"))
            t = o.split(" ")
            if t[0] != "ok":
                dis.append({"kind": "header read_from", "input": {"len": len(e)}, "model": o[:80], "impl": "ok"})
                continue
            md = lasio.parse_assoc(t[1])
            hd = lasio.header_assoc(back)
            bad = [k for k, v in hd.items() if k != "header_size" and md.get(k, 0 if isinstance(v, int) else b"") != v]
            if bad or lasio.parse_vlrs(t[2]) != [lasio.vlr_tuple(v) for v in back.vlrs]:
                dis.append({"kind": "header read_from fields", "input": {"fields": bad[:5]}, "model": str({k: md.get(k) for k in bad[:3]}), "impl": str({k: hd[k] for k in bad[:3]})})
    # API histories
    seqs = api_ops(ctx)
    outs = common.run_model([f"hrun {s[0]} {s[1]} {s[2]} " + " ".join(op_tok(o) for o in ops) for s, ops in seqs])
    for (s, ops), mo in zip(seqs, outs):
        im = run_api(s, ops)
        ctx.traces += 1
        ctx.case((s, tuple(map(op_tok, ops))), nontrivial=True, sample={"start": s, "ops": [op_tok(o) for o in ops], "model": mo})
        for o in ops:
            ctx.count("api:" + o[0])
        toks = mo.split(" ")
        for j, (t, r) in enumerate(zip(toks, im)):
            if r[0] == "ok":
                e = f"ok:{r[1][0]}.{r[1][1]}:{r[1][2]}"
                good = t == e
            else:
                good = t.startswith("err")
            if not good:
                dis.append({"kind": f"API op {op_tok(ops[j])[0]}", "input": {"start": s, "ops": [op_tok(o) for o in ops], "at": j}, "model": t, "impl": str(r)})
                break
    # dates
    ds = dates(ctx)
    outs = common.run_model([f"yday {y} {m} {d}" for y, m, d in ds])
    outs2 = common.run_model([f"of_yday {y} {date(y, m, d).timetuple().tm_yday}" for y, m, d in ds])
    for (y, m, d), a, b in zip(ds, outs, outs2):
        ctx.traces += 1
        ctx.case(("date", y, m, d), nontrivial=True)
        py = date(y, m, d).timetuple().tm_yday
        back = date(y, 1, 1) + timedelta(py - 1)
        if a != str(py) or b != f"{back.year}-{back.month}-{back.day}":
            dis.append({"kind": "calendar", "input": [y, m, d], "model": [a, b], "impl": [py, str(back)]})
    ctx.count("dates", len(ds))
    return dis


def search(ctx, seeds):
    import laspy
    failing, seen = [], set()

    def add(kind, inp, why):
        if kind not in seen:
            seen.add(kind)
            failing.append({"kind": kind, "input": inp, "observed": why})
    sizes = {"1.1": 227, "1.2": 227, "1.3": 235, "1.4": 375}
    for h in headers(ctx):
        d0 = lasio.header_assoc(h)
        inp = {"version": str(h.version), "system_identifier": h.system_identifier, "generating_software": h.generating_software,
               "creation_date": str(h.creation_date), "vlrs": len(h.vlrs), "extra": len(h.extra_header_bytes), "pad": len(h.extra_vlr_bytes)}
        try:
            raw = write_header(h)
        except Exception as ex:
            add("header write failed", inp, repr(ex))
            continue
        vlr_bytes = sum(54 + len(v.record_data_bytes()) for v in h.vlrs)
        hs = sizes[str(h.version)] + len(h.extra_header_bytes)
        if int.from_bytes(raw[94:96], "little") != hs:
            add("header size field", inp, f"{int.from_bytes(raw[94:96], 'little')} != {hs}")
        off = int.from_bytes(raw[96:100], "little")
        if off != hs + vlr_bytes + len(h.extra_vlr_bytes) or len(raw) != off:
            add("offset identity", inp, f"offset {off}, header {hs} + vlrs {vlr_bytes} + pad {len(h.extra_vlr_bytes)}, written {len(raw)}")
        try:
            back = laspy.LasHeader.read_from(io.BytesIO(raw))
        except Exception as ex:
            add("header read failed", inp, repr(ex))
            continue
        d1 = lasio.header_assoc(back)
        for k, v in d0.items():
            if k in ("header_size", "offset_to_point_data", "number_of_vlrs"):
                continue
            if k.startswith("number_of_points_by_return") and str(h.version) < "1.4" and int(k.split("[")[1][:-1]) >= 5:
                continue
            if k in ("start_of_first_evlr", "number_of_evlrs") and str(h.version) < "1.4":
                continue
            if k == "start_of_waveform" and str(h.version) < "1.3":
                continue
            if d1.get(k) != v:
                add(f"field {k.split('[')[0]} not reproduced", dict(inp, field=k), f"wrote {v!r}, read {d1.get(k)!r}")
        if back.creation_date != h.creation_date:
            add("creation date not reproduced", inp, f"wrote {h.creation_date}, read {back.creation_date}")
        if [lasio.vlr_tuple(v) for v in back.vlrs] != [lasio.vlr_tuple(v) for v in h.vlrs]:
            add("VLRs of the header not reproduced", inp, "")
    # in-place rewrite: the header changes size between open and close
    for trial in range(ctx.n(60, 400)):
        rng = ctx.rng
        h = lasio.rand_header(rng, nvlrs=rng.choice([1, 2, 3]))
        if not h.extra_vlr_bytes:
            h.extra_vlr_bytes = b"\x07" * 5
        pts = lasio.rand_points(rng, h, 6, pattern="random")
        bio = io.BytesIO()
        w = laspy.LasWriter(bio, h, closefd=False)
        w.write_points(pts)
        off0 = int.from_bytes(bio.getvalue()[96:100], "little")
        how = rng.choice(["pop", "shorten-pad", "append", "grow-pad", "none"])
        if how == "pop":
            w.header.vlrs.pop()
        elif how == "shorten-pad":
            w.header.extra_vlr_bytes = w.header.extra_vlr_bytes[:-1]
        elif how == "append":
            w.header.vlrs.append(lasio.rand_vlr(rng))
        elif how == "grow-pad":
            w.header.extra_vlr_bytes = w.header.extra_vlr_bytes + b"\0\0"
        raised = None
        try:
            w.close()
        except Exception as ex:
            raised = ex
        raw = bio.getvalue()
        off1 = int.from_bytes(raw[96:100], "little")
        inp = {"version": str(h.version), "change": how}
        if how != "none" and raised is None:
            add("in-place rewrite of a resized header accepted", inp, f"offset field {off0} -> {off1}, no exception")
        if off1 != off0:
            add("in-place rewrite changed offset_to_point_data", inp, f"{off0} -> {off1}")
        if raw[off0:off0 + len(pts) * h.point_format.size] != lasio.rec_bytes(pts):
            add("in-place rewrite moved or damaged the points", inp, "")
    # a header READ from a file that announces an illegal (version, format) pair (reading stays lenient) must be refused by the writer
    for ver_minor, fmt in [(1, 2), (1, 3), (2, 5), (1, 6), (3, 7), (2, 10)]:
        good = laspy.LasHeader(version="1.4" if fmt >= 6 else "1.3" if fmt >= 4 else "1.2", point_format=fmt)
        bio = io.BytesIO()
        with laspy.LasWriter(bio, good, closefd=False) as w:
            w.write_points(laspy.PackedPointRecord.zeros(2, good.point_format))
        raw = bytearray(bio.getvalue())
        # shrink the header to the older version's size is not needed for 1.1/1.2 (same 227 bytes); only patch those
        if good.version.minor > 2:
            continue
        raw[25] = ver_minor
        try:
            las = laspy.read(io.BytesIO(bytes(raw)))
        except Exception:
            continue
        inp = {"file_says": f"1.{ver_minor} / format {fmt}"}
        out = io.BytesIO()
        try:
            las.write(out)
            add("incompatible pair written to a file", inp, f"a header read from a file announcing 1.{ver_minor} with format {fmt} was written out ({len(out.getvalue())} bytes)")
        except Exception as ex:
            if common.exc_kind(ex) != "ELaspy":
                add("incompatible pair: unexpected exception on write", inp, repr(ex))
        try:
            laspy.LasWriter(io.BytesIO(), las.header, closefd=False)
            add("incompatible pair accepted by LasWriter", inp, "LasWriter(dest, header) did not raise")
        except Exception:
            pass
    # compat invariant on the implementation
    for s, ops in api_ops(ctx):
        tbl = {(1, 1): (0, 1), (1, 2): (0, 1, 2, 3), (1, 3): tuple(range(6)), (1, 4): tuple(range(11))}
        for j, r in enumerate(run_api(s, ops)):
            st = r[1] if r[0] == "ok" else r[2]
            legal = st[2] in tbl.get((st[0], st[1]), ())
            if not legal:
                add("incompatible pair produced", {"start": s, "ops": [op_tok(o) for o in ops[:j + 1]]}, f"header is {st[0]}.{st[1]} / format {st[2]} after {op_tok(ops[j])} ({r[0]})")
            if r[0] == "err" and not r[3]:
                add("failed call changed the header", {"start": s, "ops": [op_tok(o) for o in ops[:j + 1]]}, f"header became {st}")
    return failing[:8]


def replay(ctx, data):
    print("replay: re-run ./check C07 with the same VERIF_SEED; the failing case is described in the file")
    return 0
