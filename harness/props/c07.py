"""C07 — header fields survive serialisation, layout arithmetic exact, no incompatible (version, format) pair.
Model: header codec of Model/Las.v (layouts from write_to/read_from on every run), Model/HeaderOps.v (API ops, calendar).
Correspondence: LasHeader.write_to / read_from bytes and fields vs enc_header / dec_header on boundary values; every API entry on every
(version, format) pair vs hstep; dates vs yday/of_yday. Search: field-by-field round trip, size/offset identities, in-place rewrite,
compat invariant, directly on the implementation. Every header is written as an OBJECT carrying auxiliary state chosen independently of
its fields (EVLR list None / empty / shorter / longer than the counter, attached LasData with points, extra dimensions, compressed flag,
stale offset, read from a file / deep-copied, ensure_same_size) and the written bytes are parsed here, with struct at the ASPRS offsets,
and compared field by field with the attribute's own value; the headers that LasWriter / LasAppender / LasData.write put into files are
judged the same way.
Round 5 (Model/HeaderAttr.v, Model/HeaderSession.v): (a) EVERY public attribute of a header object - enumerated by introspection: data
descriptors of the class, instance attributes, plain class attributes, the old laspy alias names - is assigned every kind of value
(Version objects and look-alikes, point formats, ints, strings, None ...) from every legal pair, alone and inside API histories: the pair
stays compatible, a refused assignment changes nothing, what write_to serialises afterwards is a compatible pair; (b) the header OWNED
by an open LasWriter / LasAppender is edited between open and close (vlrs assigned / appended / popped / payload grown, extra header and
padding bytes, extra dimensions, point_format, version, strings, plain fields, alone and combined): close() keeps the offset or refuses,
and the point records already in the file are intact (raw bytes at the original offset, and re-read through laspy).
Round 6 (Model/HeaderRoute.v): every ROUTE that puts a header into a file - LasWriter(), laspy.open(mode='w'), LasData.write (of a file read,
of a LasData built on the caller's header, after a points assignment / update_header), convert + write, the appender's rewrite at close with
something / nothing / empty chunks appended and fields assigned on its header in between - is judged against the CALLER's header: every field the
route does not compute itself (statistics, EVLR bookkeeping, format of the record) is in the file as the caller's header held it, with
non-default values, in every version that has the field (the waveform pointer of 1.3 / 1.4 included - except that LasData.update_header, a
data-sync operation reached explicitly or by `las.points = ...`, defines the pointer of a header >= 1.4 as 0: on those routes the file must
hold 0), and a writer leaves the caller's object alone. Correspondence: the set of fields LasHeader.partial_reset() / the private header of a fresh LasWriter / LasData.update_header() touch
vs route_computed of the model."""
import copy
import inspect
import io
import re
import struct
from datetime import date, timedelta

import numpy as np

from harness import common, lasio

DRIVER = "c07"
ASSUMPTIONS = ["struct.pack('<d') is the identity on 64-bit patterns (exercised with NaN payloads, +-inf, -0.0, subnormals)",
               "ASCII strings; creation_date is a datetime.date",
               "LasData.update_header() (explicit, or through `las.points = ...`) is a data-sync operation, not a serialisation: besides the statistics it "
               "defines start_of_waveform_data_packet_record of a header of version >= 1.4 as 0 (upstream behaviour). On the routes that go through it the "
               "pointer is judged as a COMPUTED field (the file holds 0; sync_computed of Model/HeaderRoute.v); on every other route (write_to, LasWriter, "
               "laspy.open(mode='w'), LasData.write of an object that was not re-synchronised, the appender's rewrite, convert) and before 1.4 it is the caller's"]

VERS = [(1, 1), (1, 2), (1, 3), (1, 4)]


def special_doubles(rng):
    pats = [0, 1 << 63, 0x7FF0000000000000, 0xFFF0000000000000, 0x7FF8000000000001, 0x7FF0000000000001, 1, 0x000FFFFFFFFFFFFF,
            0x7FEFFFFFFFFFFFFF, 0x3FF0000000000000, rng.getrandbits(64)]
    return lasio.bits_f64(rng.choice(pats))


def boundary_header(rng, ver=None):
    import laspy
    ver = ver or rng.choice(lasio.VERSIONS)
    fmt = rng.choice(lasio.COMPAT[ver])
    return fill_fields(rng, laspy.LasHeader(version=ver, point_format=fmt))


def fill_fields(rng, h):
    """boundary values in every field of an existing header object (whatever else it carries)"""
    import uuid
    ver = str(h.version)
    h.file_source_id = rng.choice([0, 65535, rng.randrange(65536)])
    h.global_encoding.value = rng.choice([0, 0xFFFF, rng.randrange(65536)])
    h.uuid = uuid.UUID(bytes=bytes(rng.randrange(256) for _ in range(16)))
    h.system_identifier = lasio.rand_ascii(rng, rng.choice([0, 1, 31, 32, rng.randrange(33)]))
    h.generating_software = lasio.rand_ascii(rng, rng.choice([0, 1, 31, 32, rng.randrange(33)]))
    y = rng.choice([1, 4, 100, 400, 1900, 2000, 2020, 2023, 2024, 9996, 9999, rng.randrange(1, 10000)])
    k = rng.random()
    h.creation_date = date(y, 1, 1) if k < 0.2 else date(y, 12, 31) if k < 0.45 else date(y, 2, 28) + timedelta(rng.choice([0, 1])) if k < 0.6 else date(y, 1, 1) + timedelta(rng.randrange(365))
    for nm in ("scales", "offsets", "maxs", "mins"):
        setattr(h, nm, np.array([special_doubles(rng) if rng.random() < 0.5 else rng.uniform(-1e9, 1e9) for _ in range(3)]))
    h.point_count = rng.choice([0, 1, 2 ** 32 - 1]) if ver < "1.4" else rng.choice([0, 1, 2 ** 32 - 1, 2 ** 32, 2 ** 64 - 1])
    lim = 2 ** 32 - 1 if ver < "1.4" else 2 ** 64 - 1
    h.number_of_points_by_return = np.array([rng.choice([0, 1, lim]) for _ in range(15)], dtype=np.uint64)
    if ver >= "1.3":
        h.start_of_waveform_data_packet_record = rng.choice([0, 1, 2 ** 64 - 1, rng.getrandbits(64)])
    if ver >= "1.4":
        h.start_of_first_evlr = rng.choice([0, 1, 2 ** 64 - 1, rng.getrandbits(64)])
        h.number_of_evlrs = rng.choice([0, 1, 2 ** 32 - 1])
    h.extra_header_bytes = bytes(rng.randrange(256) for _ in range(rng.choice([0, 0, 1, 7, 300])))
    h.extra_vlr_bytes = bytes(rng.randrange(256) for _ in range(rng.choice([0, 0, 1, 5, 100])))
    for _ in range(rng.choice([0, 0, 1, 3])):
        h.vlrs.append(lasio.rand_vlr(rng, max_payload=rng.choice([0, 10, 65535])))
    if rng.random() < 0.25:
        # a coordinate-system record in the header must not make the reader/writer touch the global encoding bits
        from laspy.vlrs.known import WktCoordinateSystemVlr
        h.vlrs.append(WktCoordinateSystemVlr('GEOGCS["WGS 84"]'))
    return h


class Item:
    """a header object to be written: h, ensure_same_size, the auxiliary state it carries (labels), objects kept alive"""

    def __init__(self, h, es=False, aux=(), keep=None):
        self.h, self.es, self.aux, self.keep = h, es, tuple(aux), keep


EVLR_STATES = ["none", "empty", "one", "three"]


def aux_header(rng):
    """a header object whose auxiliary state is chosen independently of its field values"""
    import laspy
    from laspy.vlrs.vlrlist import VLRList
    ver = rng.choice(["1.1", "1.2", "1.3", "1.4", "1.4", "1.4"])
    fmt = rng.choice(lasio.COMPAT[ver])
    aux, keep = [], []
    origin = rng.choice(["constructor", "constructor", "file", "file-evlrs-deferred", "file-undocumented-extra-bytes", "writer", "lasdata"])
    h = laspy.LasHeader(version=ver, point_format=fmt)
    if rng.random() < 0.3:
        lasio.add_extra_dims(rng, h, rng.choice([1, 2, 3]))
        aux.append("extra-dims")
    if origin != "constructor":
        # the header object comes out of the file API: it carries whatever that API attached to it
        src = laspy.LasHeader(version=ver, point_format=h.point_format)
        pts = lasio.rand_points(rng, src, rng.choice([0, 1, 5]))
        evl = VLRList([lasio.rand_vlr(rng, 30) for _ in range(rng.choice([0, 1, 2]))]) if ver == "1.4" else []
        raw = lasio.write_las(src, pts, evl)
        if origin == "file":
            h = laspy.open(io.BytesIO(raw)).header
        elif origin == "file-undocumented-extra-bytes":
            # records longer than what the format and its ExtraBytes VLR (if any) document: the header object read from
            # such a file carries a point format padded to the record length
            h = laspy.open(io.BytesIO(undocumented_extra(raw, rng.choice([1, 3, 16]), rng))).header
        elif origin == "file-evlrs-deferred":
            h = laspy.open(io.BytesIO(raw), read_evlrs=False).header
        elif origin == "writer":
            w = laspy.LasWriter(io.BytesIO(), laspy.open(io.BytesIO(raw)).header, closefd=False)
            if len(pts):
                w.write_points(pts)
            h = w.header
            keep.append(w)
        else:
            las = laspy.read(io.BytesIO(raw))
            h = las.header
            keep.append(las)
        aux.append("from-" + origin + (f"(evlrs{len(evl)})" if ver == "1.4" else ""))
    if rng.random() < 0.25 and origin in ("constructor", "file"):
        las = laspy.LasData(h)
        las.points = lasio.rand_points(rng, h, rng.choice([1, 4]))
        keep.append(las)
        aux.append("attached-to-LasData-with-points")
    fill_fields(rng, h)
    # attributes of later versions exist on every header object (not serialised before 1.3 / 1.4)
    if ver < "1.3":
        h.start_of_waveform_data_packet_record = rng.choice([0, 1, rng.getrandbits(64)])
    if ver < "1.4":
        h.start_of_first_evlr = rng.choice([0, 375, rng.getrandbits(64)])
    # the EVLR list, whatever the counter says (and in every version: before 1.4 neither is serialised)
    st = rng.choice(EVLR_STATES)
    h.evlrs = None if st == "none" else VLRList([lasio.rand_vlr(rng, 20) for _ in range({"empty": 0, "one": 1, "three": 3}[st])])
    h.number_of_evlrs = rng.choice([0, 0, 1, 2, 3, 4, 2 ** 32 - 1])
    aux.append(f"evlrs-{st}/counter-{h.number_of_evlrs}")
    if rng.random() < 0.2:
        h.are_points_compressed = True
        aux.append("compressed-flag")
    if rng.random() < 0.2:
        h.system_identifier = h.system_identifier.encode("ascii")
        h.generating_software = h.generating_software.encode("ascii")
        aux.append("bytes-strings")
    if rng.random() < 0.2:
        h = copy.deepcopy(h)
        aux.append("deep-copied")
    # offset_to_point_data as left by an earlier life of the object; ensure_same_size asks write_to to respect it
    es = rng.random() < 0.35
    k = rng.random()
    if k < 0.3:
        h.offset_to_point_data = rng.choice([0, 1, 227, 375, 2 ** 32 - 1, rng.randrange(1, 5000)])
        aux.append("stale-offset")
    elif k < 0.75:
        h.offset_to_point_data = expected_offset(h) + rng.choice([0, 0, 0, 1, -1])
        aux.append("offset-kept")
    if es:
        aux.append("ensure_same_size")
    return Item(h, es, aux, keep)


def undocumented_extra(raw, delta, rng):
    """the same file with `delta` undocumented bytes appended to every point record (byte surgery, as in harness/props/c05.py)"""
    minor = raw[25]
    off = struct.unpack_from("<I", raw, 96)[0]
    L = struct.unpack_from("<H", raw, 105)[0]
    n = struct.unpack_from("<Q", raw, 247)[0] if minor >= 4 else struct.unpack_from("<I", raw, 107)[0]
    out = bytearray(raw[:off])
    for i in range(n):
        out += raw[off + i * L: off + (i + 1) * L] + bytes(rng.randrange(256) for _ in range(delta))
    out += raw[off + n * L:]
    struct.pack_into("<H", out, 105, L + delta)
    if minor >= 4 and struct.unpack_from("<Q", out, 235)[0]:
        struct.pack_into("<Q", out, 235, struct.unpack_from("<Q", out, 235)[0] + n * delta)
    return bytes(out)


SIZES = {"1.1": 227, "1.2": 227, "1.3": 235, "1.4": 375}


def expected_offset(h):
    return SIZES[str(h.version)] + len(h.extra_header_bytes) + sum(54 + len(v.record_data_bytes()) for v in h.vlrs) + len(h.extra_vlr_bytes)


_HDRS = None


def headers(ctx):
    global _HDRS
    if _HDRS is None:
        _HDRS = [Item(boundary_header(ctx.rng)) for _ in range(ctx.n(300, 5000))]
        _HDRS += [aux_header(ctx.rng) for _ in range(ctx.n(300, 5000))]
        # every string length 0..32 exhaustively
        for L in range(33):
            h = boundary_header(ctx.rng)
            h.system_identifier = lasio.rand_ascii(ctx.rng, L)
            h.generating_software = lasio.rand_ascii(ctx.rng, 32 - L)
            _HDRS.append(Item(h))
        for it in _HDRS:
            # the fields as the object holds them BEFORE it is written (write_to updates offset_to_point_data)
            it.before = lasio.header_assoc(it.h)
            it.vlrs_before = [lasio.vlr_tuple(v) for v in it.h.vlrs]
            try:
                it.raw, it.err = write_header(it.h, it.es), None
            except Exception as ex:
                it.raw, it.err = None, ex
    return _HDRS


def write_header(h, es=False):
    b = io.BytesIO()
    if es:
        h.write_to(b, ensure_same_size=True)
    else:
        h.write_to(b)
    return b.getvalue()


def parse_header_bytes(raw):
    """the public header block read with struct at the offsets of the ASPRS tables; names as in lasio.header_assoc"""
    d = {}
    u = lambda fmt, off: struct.unpack_from("<" + fmt, raw, off)[0]   # noqa: E731
    d["signature"] = bytes(raw[0:4])
    d["file_source_id"] = u("H", 4)
    d["global_encoding"] = u("H", 6)
    d["uuid"] = bytes(raw[8:24])
    d["version.major"], d["version.minor"] = raw[24], raw[25]
    d["system_identifier"] = bytes(raw[26:58]).rstrip(b"\0")
    d["generating_software"] = bytes(raw[58:90]).rstrip(b"\0")
    d["creation_yday"], d["creation_year"] = u("H", 90), u("H", 92)
    d["header_size"] = u("H", 94)
    d["offset_to_point_data"] = u("I", 96)
    d["number_of_vlrs"] = u("I", 100)
    d["point_format_id"] = raw[104]
    d["point_size"] = u("H", 105)
    d["legacy_point_count"] = u("I", 107)
    legacy = [u("I", 111 + 4 * i) for i in range(5)]
    for j, nm in enumerate(("scales", "offsets")):
        for i in range(3):
            d[f"{nm}[{i}]"] = u("Q", 131 + 24 * j + 8 * i)
    for i in range(3):
        d[f"maxs[{i}]"] = u("Q", 179 + 16 * i)
        d[f"mins[{i}]"] = u("Q", 187 + 16 * i)
    minor = raw[25]
    if minor >= 3:
        d["start_of_waveform"] = u("Q", 227)
    if minor >= 4:
        d["start_of_first_evlr"] = u("Q", 235)
        d["number_of_evlrs"] = u("I", 243)
        d["point_count"] = u("Q", 247)
        for i in range(15):
            d[lasio.BY_RET[i]] = u("Q", 255 + 8 * i)
    else:
        d["point_count"] = d["legacy_point_count"]
        for i in range(5):
            d[lasio.BY_RET[i]] = legacy[i]
    d["extra_header_bytes"] = bytes(raw[SIZES[f"{raw[24]}.{minor}"]:d["header_size"]]) if f"{raw[24]}.{minor}" in SIZES else b""
    return d


DERIVED = ("header_size", "offset_to_point_data", "number_of_vlrs")


def own_fields(d, version):
    """the plain fields of a header of that version: name -> the attribute's own value"""
    out = {}
    for k, v in d.items():
        if k in DERIVED or k == "extra_vlr_bytes":
            continue
        if k.startswith("number_of_points_by_return") and version < "1.4" and int(k.split("[")[1][:-1]) >= 5:
            continue
        if k in ("start_of_first_evlr", "number_of_evlrs") and version < "1.4":
            continue
        if k == "start_of_waveform" and version < "1.3":
            continue
        out[k] = v
    return out


def api_ops(ctx):
    """sequences of API calls starting from a created header; every (version, format) pair legal or not appears"""
    rng = ctx.rng
    seqs = []
    pairs = [(v, f) for v in VERS for f in range(11)] + [((1, 0), 0), ((1, 5), 3), ((2, 0), 1), ((1, 2), 11), ((1, 4), 64)]
    singles = []
    for v, f in pairs:
        singles += [("N", v, f), ("B", v, f), ("C", f, v)]
    for v in VERS + [(1, 0), (1, 5)]:
        singles += [("N", v, None), ("V", v)]
    for f in list(range(11)) + [11, 64]:
        singles += [("N", None, f), ("F", f), ("C", f, None)]
    singles += [("N", None, None), ("W",)]
    for s in singles + [("C", None, None), ("C", None, (1, 4)), ("C", None, (1, 1))]:
        # convert without an explicit format takes the format of the point record: only from a fresh LasData,
        # where header and record agree
        for start in [(1, 2, 3), (1, 4, 6), (1, 1, 0), (1, 3, 5)]:
            seqs.append((start, [s]))
    attrs = public_attributes()
    vals = assign_values()
    usable = [i for i, v in enumerate(vals) if v[2]]

    def xop():
        name = rng.choice(sorted(attrs))
        # version / point_format keep holding what was assigned: only real Version / PointFormat objects inside a longer history
        return ("X", name, rng.choice(usable) if attrs[name] in "vf" or rng.random() < 0.5 else rng.randrange(len(vals)))
    for _ in range(ctx.n(300, 3000)):
        start = rng.choice([(1, 2, 3), (1, 4, 6), (1, 1, 1), (1, 3, 4), (1, 4, 10)])
        seqs.append((start, [xop() if rng.random() < 0.35 else rng.choice(singles) for _ in range(rng.randrange(2, 8))]))
    return seqs


def op_tok(op):
    def vt(v):
        return "-" if v is None else f"{v[0]}.{v[1]}"
    def ft(f):
        return "-" if f is None else str(f)
    if op[0] == "N":
        return f"N{vt(op[1])}:{ft(op[2])}"
    if op[0] == "V":
        return f"V{vt(op[1])}"
    if op[0] == "F":
        return f"F{op[1]}"
    if op[0] == "B":
        return f"B{vt(op[1])}:{op[2]}"
    if op[0] == "C":
        return f"C{ft(op[1])}:{vt(op[2])}"
    if op[0] == "X":
        return f"X[header.{op[1]} = {assign_values()[op[2]][0]}]"
    return "W"


def model_op_tok(op):
    if op[0] == "X":
        return f"X{public_attributes().get(op[1], 'p')}:{value_tok(assign_values()[op[2]][1]())}"
    return op_tok(op)


def run_api(start, ops):
    """execute on laspy; state is a LasData whose header carries (version, format)"""
    import laspy
    from laspy.header import Version
    las = laspy.create(point_format=start[2], file_version=f"{start[0]}.{start[1]}")
    outs = []
    for op in ops:
        before = (las.header.version.major, las.header.version.minor, las.header.point_format.id)
        if op[0] == "X":
            raised, st = assign(las.header, op[1], assign_values()[op[2]][1](), restore=public_attributes().get(op[1], "p") in "pr")
            outs.append(("ok", st) if raised is None else ("err", common.exc_kind(raised), st, st == before))
            continue
        try:
            if op[0] == "N":
                kw = {}
                if op[1] is not None:
                    kw["version"] = f"{op[1][0]}.{op[1][1]}"
                if op[2] is not None:
                    kw["point_format"] = op[2]
                las = laspy.LasData(header=laspy.LasHeader(**kw))
            elif op[0] == "V":
                las.header.version = Version(*op[1])
            elif op[0] == "F":
                las.header.point_format = laspy.PointFormat(op[1])
            elif op[0] == "B":
                las.header.set_version_and_point_format(Version(*op[1]), laspy.PointFormat(op[2]))
            elif op[0] == "C":
                kw = {}
                if op[1] is not None:
                    kw["point_format_id"] = op[1]
                if op[2] is not None:
                    kw["file_version"] = f"{op[2][0]}.{op[2][1]}"
                las = laspy.convert(las, **kw)
            else:
                w = laspy.LasWriter(io.BytesIO(), las.header, closefd=False)
                w.close()
            st = (las.header.version.major, las.header.version.minor, las.header.point_format.id)
            outs.append(("ok", st))
        except Exception as ex:
            st = (las.header.version.major, las.header.version.minor, las.header.point_format.id)
            outs.append(("err", common.exc_kind(ex), st, st == before))
    return outs


def dates(ctx):
    out = []
    years = list(range(1, 10000)) if ctx.thorough() else sorted(set([1, 2, 3, 4, 5, 100, 200, 400, 1000, 1582, 1900, 1999, 2000, 2001, 2020, 2023, 2024, 2100, 9996, 9999] + [ctx.rng.randrange(1, 10000) for _ in range(150)]))
    for y in years:
        for md in [(1, 1), (1, 31), (2, 1), (2, 28), (3, 1), (6, 30), (7, 1), (12, 30), (12, 31)]:
            out.append((y,) + md)
        try:
            date(y, 2, 29)
            out.append((y, 2, 29))
        except ValueError:
            pass
        d = date(y, 1, 1) + timedelta(ctx.rng.randrange(365))
        out.append((d.year, d.month, d.day))
    return out


# ---------------------------------------------------------------------------------
# (a) every public attribute of a header object
# ---------------------------------------------------------------------------------
LEGAL = {(1, 1): (0, 1), (1, 2): (0, 1, 2, 3), (1, 3): tuple(range(6)), (1, 4): tuple(range(11))}     # typed in from the LAS specifications


def legal_pair(st):
    return st[2] in LEGAL.get((st[0], st[1]), ())


def public_attributes():
    """name -> class of what an assignment does, found by introspection of the class and of a fresh instance:
    'v' version, 'f' point_format, 'r' property without setter, 'p' everything else that can be assigned (property with a setter,
    instance attribute, plain class attribute, old laspy alias). Methods and names starting with '_' are not attributes to assign."""
    import laspy
    cls = laspy.LasHeader
    out = {}
    for name in dir(cls):
        if name.startswith("_"):
            continue
        obj = inspect.getattr_static(cls, name)
        if isinstance(obj, property):
            out[name] = "r" if obj.fset is None else "p"
        elif inspect.isdatadescriptor(obj):
            out[name] = "p"
        elif callable(obj) or isinstance(obj, (classmethod, staticmethod)):
            continue
        else:
            out[name] = "p"
    for name in vars(cls()):
        if not name.startswith("_"):
            out.setdefault(name, "p")
    for name in getattr(cls, "_OLD_LASPY_NAMES", {}):
        if not name.startswith("_"):
            out.setdefault(name, "p")
    if "version" in out:
        out["version"] = "v"
    if "point_format" in out:
        out["point_format"] = "f"
    return out


def assign_values():
    """(label, factory, usable inside a longer history) - what is assigned; built afresh for every assignment"""
    import laspy
    from laspy.header import Version
    vals = []
    for v in [(1, 0), (1, 1), (1, 2), (1, 3), (1, 4), (1, 5), (2, 0)]:
        vals.append((f"Version{v}", (lambda v=v: Version(*v)), True))
    for t in ["1.1", "1.2", "1.3", "1.4", "1.5", "abc", ""]:
        vals.append((f"str {t!r}", (lambda t=t: t), False))
    vals.append(("float 1.2", lambda: 1.2, False))
    vals.append(("tuple (1, 1)", lambda: (1, 1), False))
    for f in range(11):
        vals.append((f"PointFormat({f})", (lambda f=f: laspy.PointFormat(f)), True))
    for i in [0, 1, 2, 3, 4, 5, 6, 10, 11, 64, 255, -1]:
        vals.append((f"int {i}", (lambda i=i: i), False))
    vals.append(("numpy uint8 2", lambda: np.uint8(2), False))
    vals.append(("None", lambda: None, False))
    vals.append(("True", lambda: True, False))
    vals.append(("bytes", lambda: b"xy", False))
    vals.append(("array of 3 doubles", lambda: np.array([1.0, 2.0, 3.0]), False))
    vals.append(("date", lambda: date(2020, 2, 29), False))
    vals.append(("empty VLRList", lambda: __import__("laspy").vlrs.vlrlist.VLRList(), False))
    return vals


def value_tok(x):
    """the value as the setters see it: str(x) is a version M.m | x has an integer id | anything else"""
    m = re.fullmatch(r"(\d+)\.(\d+)", str(x)) if not hasattr(x, "id") else None
    if m:
        return f"v{int(m.group(1))}.{int(m.group(2))}"
    if isinstance(getattr(x, "id", None), int):
        return f"f{x.id}"
    return "o"


def pair_of(h):
    """(major, minor, format id) of a header object, also when the version it holds is a look-alike (a string ...)"""
    v = h.version
    try:
        vv = (int(v.major), int(v.minor))
    except AttributeError:
        m = re.fullmatch(r"(\d+)\.(\d+)", str(v))
        vv = (int(m.group(1)), int(m.group(2))) if m else (-1, -1)
    return vv + (int(h.point_format.id),)


_MISSING = object()


def assign(h, name, val, restore):
    """header.<name> = val. Returns (raised or None, pair right after). restore: put the attribute back (an attribute that is not
    version / point_format must not be left holding garbage inside a longer history; the pair was observed before)."""
    had = name in vars(h)
    try:
        old = getattr(h, name)
    except Exception:
        old = _MISSING
    raised = None
    try:
        setattr(h, name, val)
    except Exception as ex:  # noqa
        raised = ex
    after = pair_of(h)
    if restore and raised is None:
        try:
            if had or isinstance(inspect.getattr_static(type(h), name, None), property) or name in getattr(type(h), "_OLD_LASPY_NAMES", {}):
                if old is not _MISSING:
                    setattr(h, name, old)
            else:
                delattr(h, name)
        except Exception:  # noqa
            pass
    return raised, after


def written_pair(h):
    """what write_to serialises: (major, minor, format id) from the bytes, 'refused' (LaspyException), or None (cannot be written
    for another reason: a field now holds a value that is no field value)"""
    import laspy
    try:
        raw = write_header(h)
    except laspy.errors.LaspyException:
        return "refused"
    except Exception:  # noqa
        return None
    if raw[:4] != b"LASF" or len(raw) != layout_size(h):
        return None          # not a header block: an attribute that is a field now holds something that is not a value of that field
    return (raw[24], raw[25], raw[104] & 0x3F)


_SWEEP = None


def assignment_sweep(ctx):
    """every attribute x every value from legal start pairs, one fresh header each"""
    global _SWEEP
    if _SWEEP is not None:
        return _SWEEP
    import laspy
    attrs = public_attributes()
    vals = assign_values()
    pairs = [((1, int(v[2])), f) for v in lasio.VERSIONS for f in lasio.COMPAT[v]]
    if not ctx.thorough():
        keep = [((1, 1), 1), ((1, 2), 3), ((1, 3), 5), ((1, 4), 6), ((1, 4), 10), ((1, 4), 0)]
        pairs = keep + [ctx.rng.choice(pairs) for _ in range(2)]
    out = []
    for (v, f) in pairs:
        for name, cl in sorted(attrs.items()):
            for label, make, _ in vals:
                h = laspy.LasHeader(version=f"{v[0]}.{v[1]}", point_format=f)
                x = make()
                before = pair_of(h)
                raised, after = assign(h, name, x, restore=False)
                out.append({"start": before, "attr": name, "class": cl, "value": label, "tok": value_tok(x), "raised": raised, "after": after,
                            "written": written_pair(h) if raised is None else "not-tried"})
    _SWEEP = out
    return out


# ---------------------------------------------------------------------------------
# (b) the header owned by an open writer / appender, edited between open and close
# ---------------------------------------------------------------------------------
def _e_vlrs_assign_longer(h, rng):
    h.vlrs = list(h.vlrs) + [lasio.rand_vlr(rng, 80)]


def _e_vlrs_assign_new(h, rng):
    h.vlrs = [lasio.rand_vlr(rng, 200) for _ in range(rng.choice([1, 2]))]


def _e_vlrs_assign_shorter(h, rng):
    h.vlrs = list(h.vlrs)[:-1]


def _e_vlrs_assign_same(h, rng):
    h.vlrs = list(h.vlrs)


def _e_vlrs_assign_same_size(h, rng):
    import laspy
    vl = list(h.vlrs)
    user = [i for i, v in enumerate(vl) if type(v) is laspy.VLR]
    if user:
        i = rng.choice(user)
        vl[i] = laspy.VLR(user_id="other", record_id=9, description="same size", record_data=bytes(len(vl[i].record_data_bytes())))
    h.vlrs = vl


def _e_vlrs_append(h, rng):
    h.vlrs.append(lasio.rand_vlr(rng, 80))


def _e_vlrs_pop(h, rng):
    h.vlrs.pop()


def _e_vlr_payload_grows(h, rng):
    import laspy
    user = [v for v in h.vlrs if type(v) is laspy.VLR]
    rng.choice(user).record_data += b"\x01" * rng.choice([1, 7])


def _e_extra_header_longer(h, rng):
    h.extra_header_bytes = bytes(h.extra_header_bytes) + bytes(rng.randrange(256) for _ in range(rng.choice([1, 2, 60])))


def _e_extra_header_shorter(h, rng):
    h.extra_header_bytes = bytes(h.extra_header_bytes)[:-1]


def _e_extra_header_same_length(h, rng):
    h.extra_header_bytes = bytes(rng.randrange(256) for _ in range(len(h.extra_header_bytes)))


def _e_pad_longer(h, rng):
    h.extra_vlr_bytes = bytes(h.extra_vlr_bytes) + b"\0" * rng.choice([1, 2, 54])


def _e_pad_shorter(h, rng):
    h.extra_vlr_bytes = bytes(h.extra_vlr_bytes)[:-1]


def _e_pad_to_header(h, rng):
    # the same total: what is taken from the padding goes to the extra header bytes
    k = min(len(h.extra_vlr_bytes), rng.choice([1, 2, 5]))
    h.extra_vlr_bytes = bytes(h.extra_vlr_bytes)[k:]
    h.extra_header_bytes = bytes(h.extra_header_bytes) + b"\xEE" * k


def _e_add_extra_dims(h, rng):
    import laspy
    h.add_extra_dims([laspy.ExtraBytesParams(f"late{len(list(h.point_format.extra_dimension_names))}", rng.choice(["u1", "f8", "3i2"]))])


def _e_remove_extra_dims(h, rng):
    h.remove_extra_dims(list(h.point_format.extra_dimension_names))


def _e_point_format(h, rng):
    import laspy
    ids = [f for f in LEGAL[(h.version.major, h.version.minor)] if f != h.point_format.id]
    h.point_format = laspy.PointFormat(rng.choice(ids))


def _e_point_format_same(h, rng):
    import laspy
    h.point_format = laspy.PointFormat(h.point_format.id)       # the extra dimensions go: the ExtraBytes VLR is resynchronised


def _e_version(h, rng):
    from laspy.header import Version
    h.version = Version(1, rng.choice([m for m in (1, 2, 3, 4) if m != h.version.minor]))


def _e_version_and_format(h, rng):
    import laspy
    from laspy.header import Version
    h.set_version_and_point_format(Version(1, 4), laspy.PointFormat(rng.choice([6, 7, h.point_format.id])))


def _e_strings(h, rng):
    h.system_identifier = lasio.rand_ascii(rng, rng.choice([0, 1, 31, 32]))
    h.generating_software = lasio.rand_ascii(rng, rng.choice([0, 1, 31, 32]))


def _e_fields(h, rng):
    import uuid
    h.file_source_id = rng.randrange(65536)
    h.uuid = uuid.UUID(bytes=bytes(rng.randrange(256) for _ in range(16)))
    h.creation_date = date(rng.randrange(1, 10000), 12, 31)
    h.global_encoding.value = rng.randrange(65536)
    h.start_of_waveform_data_packet_record = rng.getrandbits(64)


def _e_evlrs(h, rng):
    from laspy.vlrs.vlrlist import VLRList
    h.evlrs = VLRList([lasio.rand_vlr(rng, 30)])


def _e_none(h, rng):
    pass


EDITS = [_e_vlrs_assign_longer, _e_vlrs_assign_new, _e_vlrs_assign_shorter, _e_vlrs_assign_same, _e_vlrs_assign_same_size, _e_vlrs_append,
         _e_vlrs_pop, _e_vlr_payload_grows, _e_extra_header_longer, _e_extra_header_shorter, _e_extra_header_same_length, _e_pad_longer,
         _e_pad_shorter, _e_pad_to_header, _e_add_extra_dims, _e_remove_extra_dims, _e_point_format, _e_point_format_same, _e_version,
         _e_version_and_format, _e_strings, _e_fields, _e_evlrs, _e_none]
OPENERS = ["LasWriter()", "open(mode='w')", "LasAppender()", "open(mode='a')", "open(mode='a')+append"]


def layout_size(h):
    """bytes the header + VLR block of this object takes, computed here: version's size + extra header bytes + VLRs + padding"""
    return SIZES.get(str(h.version), 0) + len(h.extra_header_bytes) + sum(54 + len(v.record_data_bytes()) for v in h.vlrs) + len(h.extra_vlr_bytes)


_SESSIONS = None


def rewrite_sessions(ctx):
    """open a writer / an appender, store points, edit ITS header object through the public API, close. Returns one record per session."""
    global _SESSIONS
    if _SESSIONS is not None:
        return _SESSIONS
    import laspy
    from laspy.vlrs.vlrlist import VLRList
    rng = ctx.rng
    out = []
    for trial in range(ctx.n(260, 3000)):
        ver = rng.choice(lasio.VERSIONS)
        h = lasio.rand_header(rng, version=ver, nvlrs=rng.choice([0, 1, 2, 3]))
        if rng.random() < 0.3:
            lasio.add_extra_dims(rng, h, rng.choice([1, 2]))
        if rng.random() < 0.5 and not h.extra_vlr_bytes:
            h.extra_vlr_bytes = b"\x07" * 5
        pts = lasio.rand_points(rng, h, rng.choice([1, 6, 25]), pattern="random")
        opener = rng.choice(OPENERS)
        edits = [rng.choice(EDITS) for _ in range(rng.choice([1, 1, 1, 2, 3]))]
        rec = {"opener": opener, "version": ver, "format": h.point_format.id, "points": len(pts), "edits": [e.__name__[3:] for e in edits], "trial": trial}
        try:
            bio = io.BytesIO()
            if opener in ("LasWriter()", "open(mode='w')"):
                obj = laspy.LasWriter(bio, h, closefd=False) if opener == "LasWriter()" else laspy.open(bio, mode="w", header=h, closefd=False)
                k = rng.randrange(len(pts) + 1)
                if k:
                    obj.write_points(pts[:k])
                if k < len(pts):
                    obj.write_points(pts[k:])
                stored = lasio.rec_bytes(pts)
            else:
                evl = VLRList([lasio.rand_vlr(rng, 40)]) if ver == "1.4" and rng.random() < 0.5 else VLRList()
                bio = io.BytesIO(lasio.write_las(h, pts, evl))
                obj = laspy.lasappender.LasAppender(bio, closefd=False) if opener == "LasAppender()" else laspy.open(bio, mode="a", closefd=False)
                stored = lasio.rec_bytes(pts)
                if opener.endswith("+append"):
                    more = lasio.rand_points(rng, obj.header, rng.choice([1, 4]), pattern="random")
                    obj.append_points(more)
                    stored += lasio.rec_bytes(more)
        except Exception as ex:  # noqa
            rec["setup_error"] = repr(ex)
            out.append(rec)
            continue
        own = obj.header
        raw0 = bio.getvalue()
        off0 = int.from_bytes(raw0[96:100], "little")
        rec["offset_first_written"] = off0
        rec["points_in_place_before_edit"] = raw0[off0:off0 + len(stored)] == stored
        fmt0 = lasio.format_key(own.point_format)
        rec["edit_errors"] = []
        for e in edits:
            try:
                e(own, rng)
            except Exception as ex:  # noqa
                rec["edit_errors"].append(f"{e.__name__[3:]}: {type(ex).__name__}")
        rec["size_after_edit"] = layout_size(own)
        rec["format_kept"] = lasio.format_key(own.point_format) == fmt0
        try:
            d = lasio.header_assoc(own)
            d["offset_to_point_data"] = off0          # what the object remembers from the first write, as the model has it
            rec["model_cmd"] = f"enc_header {lasio.assoc_tok(d)} {lasio.vlrs_tok([lasio.vlr_tuple(v) for v in own.vlrs])} T"
        except Exception as ex:  # noqa
            rec["model_cmd"] = None
        raised = None
        try:
            obj.close()
        except Exception as ex:  # noqa
            raised = ex
        raw1 = bio.getvalue()
        rec["raised"] = raised
        rec["offset_after_close"] = int.from_bytes(raw1[96:100], "little")
        rec["points_intact"] = raw1[off0:off0 + len(stored)] == stored
        rec["first_damaged_byte"] = next((off0 + i for i in range(len(stored)) if off0 + i >= len(raw1) or raw1[off0 + i] != stored[i]), None)
        rec["reread"] = None
        if raised is None and rec["format_kept"]:
            try:
                back = laspy.read(io.BytesIO(raw1))
                rec["reread"] = "same" if lasio.rec_bytes(back.points) == stored else f"{len(back.points)} other records"
            except Exception as ex:  # noqa
                rec["reread"] = "raises " + repr(ex)[:120]
        out.append(rec)
    _SESSIONS = out
    return out


def session_input(r):
    return {k: r[k] for k in ("opener", "version", "format", "points", "edits", "trial", "offset_first_written", "size_after_edit") if k in r}


def loaded_header(rng, ver):
    """a header of that version in which EVERY field holds a non-default value (so that a reset of any of them shows)"""
    h = lasio.rand_header(rng, version=ver, nvlrs=1)
    h.file_source_id = rng.randrange(1, 65536)
    h.global_encoding.value = rng.randrange(1, 65536)
    h.point_count = rng.choice([1, 7, 1000])
    h.maxs = np.array([rng.uniform(1, 1e5) for _ in range(3)])
    h.mins = np.array([rng.uniform(-1e5, -1) for _ in range(3)])
    h.number_of_points_by_return = np.array([rng.randrange(1, 5) for _ in range(15)], dtype=np.uint64)
    h.start_of_waveform_data_packet_record = rng.choice([1, 2 ** 64 - 1, rng.randrange(1, 2 ** 64)])
    h.start_of_first_evlr = rng.choice([375, 1234, 99999])
    h.number_of_evlrs = rng.choice([1, 3])
    h.extra_header_bytes = b"\x01\x02\x03"
    h.extra_vlr_bytes = b"\xaa\xbb"
    return h


def route_reset_correspondence(ctx):
    import laspy
    dis = []
    rng = ctx.rng
    for ver in lasio.VERSIONS:
        for what in ("LasHeader.partial_reset()", "the private header of a freshly opened LasWriter", "LasData.update_header() of an empty LasData",
                     "LasData.update_header() after points were stored"):
            h = loaded_header(rng, ver)
            before = lasio.header_assoc(h)
            if what.startswith("LasHeader"):
                h.partial_reset()
                after = lasio.header_assoc(h)
            elif what.startswith("the private"):
                w = laspy.LasWriter(io.BytesIO(), h, closefd=False)
                after = lasio.header_assoc(w.header)
            else:
                las = laspy.LasData(header=h)
                if "after points" in what:
                    las.points = lasio.rand_points(rng, h, 3)
                    before = dict(lasio.header_assoc(h), start_of_waveform=before["start_of_waveform"])
                las.update_header()
                after = lasio.header_assoc(las.header)
            names = [k for k in before if k not in DERIVED and k != "header_size"]
            changed = sorted(k for k in names if before[k] != after[k])
            sync = what.startswith("LasData.update_header")
            model = common.run_model([(f"sync_computed {ver.split('.')[1]} " if sync else "route_computed ") + " ".join(names)], name=DRIVER)[0].split(" ")
            computed = sorted(k for k, t in zip(names, model) if t == "T")
            ctx.traces += 1
            ctx.case(("route-reset", ver, what), nontrivial=True, sample={"version": ver, "operation": what, "fields_changed": changed})
            ctx.count("route-reset:" + what)
            extra = [k for k in changed if k not in computed]
            # a reset touches exactly the computed fields; update_header recomputes some of them (which ones depends on the record) and
            # must touch nothing else
            # (update_header of a header >= 1.4 also defines the waveform pointer as 0: sync_computed of the model)
            if extra or (changed != computed and not sync) or (sync and ver >= "1.4" and "start_of_waveform" not in changed):
                dis.append({"kind": f"fields reset / recomputed by {what}", "input": {"version": ver, "operation": what},
                            "model": f"computed by the route: {computed}", "impl": f"changed: {changed} (beyond the model: {extra}; not changed: {[k for k in computed if k not in changed]})"})
    return dis


def correspond(ctx):
    ctx.extra["rule"] = ("headers with boundary values in every field (u16/u32/u64 extremes, all-ones encodings, random GUIDs, strings of every length "
                         "0..32, leap-year dates, non-finite / subnormal / NaN-payload doubles, extra header bytes, padding, VLRs with empty and 65535-byte "
                         "payloads) over versions 1.1-1.4: write_to bytes vs enc_header, read_from vs dec_header; API histories over every (version, format) "
                         "pair legal or not through LasHeader(), setters, set_version_and_point_format, create, convert, LasWriter vs hstep; dates vs "
                         "yday/of_yday; every route that puts a header into a file (writer, LasData.write, convert, appender sessions appending something / nothing) "
                         "against the caller's header with non-default values in every field of every version; the fields partial_reset / a fresh writer / "
                         "update_header touch vs route_computed. non-trivial = non-default field values / an op on an illegal pair; distinct by bytes / op list")
    dis = []
    hs = headers(ctx)
    cmds, exp, who = [], [], []
    for it in hs:
        h = it.h
        cmds.append(f"enc_header {lasio.assoc_tok(it.before)} {lasio.vlrs_tok(it.vlrs_before)} {'T' if it.es else 'F'}")
        exp.append(("ok " + common.hexb(it.raw)) if it.raw is not None else ("err " + common.exc_kind(it.err)))
        who.append(it)
        if it.raw is not None and it.before["number_of_evlrs"] <= 100000:   # the model bounds EVLR counts (MAX_VLRS); larger ones: oracle only
            cmds.append(f"dec_header {common.hexb(it.raw + b'trailing-bytes')} F")
            exp.append(it.raw)
            who.append(it)
    outs = common.run_model(cmds)
    import laspy
    for c, e, o, it in zip(cmds, exp, outs, who):
        ctx.traces += 1
        if c.startswith("enc_header"):
            ctx.case(e, nontrivial=True, sample={"written_header_bytes": len(e) // 2, "auxiliary_state": list(it.aux)})
            ctx.count("header:" + ("ok" if e.startswith("ok") else e))
            for a in it.aux:
                ctx.count("aux:" + a.split("(")[0].split("/")[0])
            got = o.split(" ")
            if (e.startswith("ok") and (got[0] != "ok" or got[1] != e[3:])) or (e.startswith("err") and o != e):
                where = ""
                if e.startswith("ok") and got[0] == "ok":
                    a, b = bytes.fromhex(got[1][1:]), bytes.fromhex(e[4:])
                    where = next((i for i in range(min(len(a), len(b))) if a[i] != b[i]), min(len(a), len(b)))
                dis.append({"kind": "header write_to bytes", "input": {"auxiliary_state": list(it.aux), "version": str(it.h.version), "first_differing_byte": where, "cmd": c[:200]},
                            "model": o[:120], "impl": e[:120]})
        else:
            back = laspy.LasHeader.read_from(io.BytesIO(e + b"trailing-bytes"))
            t = o.split(" ")
            if t[0] != "ok":
                dis.append({"kind": "header read_from", "input": {"len": len(e)}, "model": o[:80], "impl": "ok"})
                continue
            md = lasio.parse_assoc(t[1])
            hd = lasio.header_assoc(back)
            bad = [k for k, v in hd.items() if k != "header_size" and md.get(k, 0 if isinstance(v, int) else b"") != v]
            if bad or lasio.parse_vlrs(t[2]) != [lasio.vlr_tuple(v) for v in back.vlrs]:
                dis.append({"kind": "header read_from fields", "input": {"fields": bad[:5]}, "model": str({k: md.get(k) for k in bad[:3]}), "impl": str({k: hd[k] for k in bad[:3]})})
    # API histories
    seqs = api_ops(ctx)
    outs = common.run_model([f"hrun2 {s[0]} {s[1]} {s[2]} " + " ".join(model_op_tok(o) for o in ops) for s, ops in seqs], name=DRIVER)
    for (s, ops), mo in zip(seqs, outs):
        im = run_api(s, ops)
        ctx.traces += 1
        ctx.case((s, tuple(map(op_tok, ops))), nontrivial=True, sample={"start": s, "ops": [op_tok(o) for o in ops], "model": mo})
        for o in ops:
            ctx.count("api:" + o[0])
        toks = mo.split(" ")
        for j, (t, r) in enumerate(zip(toks, im)):
            st = r[1] if r[0] == "ok" else r[2]
            good = t == f"{r[0]}:{st[0]}.{st[1]}:{st[2]}"
            if ops[j][0] == "X" and public_attributes().get(ops[j][1], "p") == "p":
                # an attribute that is neither version nor point_format: its own setter may refuse a value that is no value of
                # the field; the model speaks about the pair only
                good = t.split(":", 1)[1] == f"{st[0]}.{st[1]}:{st[2]}"
            if not good:
                dis.append({"kind": f"API op {op_tok(ops[j])[0]}", "input": {"start": s, "ops": [op_tok(o) for o in ops], "at": j}, "model": t, "impl": str(r)})
                break
    # every public attribute x every value, from legal pairs
    sweep = assignment_sweep(ctx)
    uniq = sorted({(r["start"], r["class"], r["tok"]) for r in sweep})
    mo = dict(zip(uniq, common.run_model([f"hrun2 {st[0]} {st[1]} {st[2]} X{cl}:{tok}" for st, cl, tok in uniq], name=DRIVER)))
    ctx.extra["public_attributes"] = public_attributes()
    for r in sweep:
        ctx.traces += 1
        ctx.case(("assign", r["start"], r["attr"], r["value"]), nontrivial=True,
                 sample={"start": r["start"], "assignment": f"header.{r['attr']} = {r['value']}", "model": mo[(r["start"], r["class"], r["tok"])]})
        ctx.count("assign:" + {"v": "version", "f": "point_format", "r": "read-only property", "p": "other attribute"}[r["class"]] +
                  (":refused" if r["raised"] is not None else ":stored"))
        st = r["after"]
        e = f"{'ok' if r['raised'] is None else 'err'}:{st[0]}.{st[1]}:{st[2]}"
        if (mo[(r["start"], r["class"], r["tok"])].split(":", 1)[1] != e.split(":", 1)[1]) if r["class"] == "p" else (mo[(r["start"], r["class"], r["tok"])] != e):
            dis.append({"kind": f"assignment to header.{r['attr']}", "input": {"start": r["start"], "attribute": r["attr"], "value": r["value"]},
                        "model": mo[(r["start"], r["class"], r["tok"])], "impl": e + (f" ({r['raised']!r})"[:120] if r["raised"] is not None else "")})
    # the header of an open writer / appender edited between open and close: the decision of close()
    sess = [r for r in rewrite_sessions(ctx) if r.get("model_cmd")]
    for r, o in zip(sess, common.run_model([r["model_cmd"] for r in sess])):
        ctx.traces += 1
        ctx.case(("session", r["trial"], r["opener"], tuple(r["edits"])), nontrivial=True,
                 sample={"session": session_input(r), "model": o[:40], "impl": "refused" if r["raised"] is not None else "rewritten"})
        ctx.count("session:" + r["opener"])
        for e in r["edits"]:
            ctx.count("edit:" + e)
        ctx.count("close:" + ("rewritten" if r["raised"] is None else "refused"))
        if o.startswith("ok") != (r["raised"] is None):
            dis.append({"kind": "close() of an edited header", "input": session_input(r), "model": o[:60],
                        "impl": "rewritten" if r["raised"] is None else repr(r["raised"])[:120]})
    # the fields a writing route computes itself (Model/HeaderRoute.v) vs what the implementation resets / recomputes on the header
    # object a route works with: LasHeader.partial_reset(), the private header of a freshly opened LasWriter, LasData.update_header()
    dis += route_reset_correspondence(ctx)
    # dates
    ds = dates(ctx)
    outs = common.run_model([f"yday {y} {m} {d}" for y, m, d in ds])
    outs2 = common.run_model([f"of_yday {y} {date(y, m, d).timetuple().tm_yday}" for y, m, d in ds])
    for (y, m, d), a, b in zip(ds, outs, outs2):
        ctx.traces += 1
        ctx.case(("date", y, m, d), nontrivial=True)
        py = date(y, m, d).timetuple().tm_yday
        back = date(y, 1, 1) + timedelta(py - 1)
        if a != str(py) or b != f"{back.year}-{back.month}-{back.day}":
            dis.append({"kind": "calendar", "input": [y, m, d], "model": [a, b], "impl": [py, str(back)]})
    ctx.count("dates", len(ds))
    return dis


def search(ctx, seeds):
    import laspy
    failing, seen = [], set()

    def add(kind, inp, why):
        if kind not in seen:
            seen.add(kind)
            failing.append({"kind": kind, "input": inp, "observed": why})
    for it in headers(ctx):
        h, d0 = it.h, it.before
        ver = f"{d0['version.major']}.{d0['version.minor']}"
        inp = {"version": ver, "auxiliary_state": list(it.aux), "ensure_same_size": it.es, "system_identifier": lasio.sbytes(h.system_identifier).decode("ascii"),
               "generating_software": lasio.sbytes(h.generating_software).decode("ascii"),
               "creation_date": str(h.creation_date), "vlrs": len(h.vlrs), "extra": len(h.extra_header_bytes), "pad": len(h.extra_vlr_bytes),
               "number_of_evlrs": d0["number_of_evlrs"], "evlrs_attached": None if h.evlrs is None else len(h.evlrs), "point_count": d0["point_count"]}
        vlr_bytes = sum(54 + len(v[3]) for v in it.vlrs_before)
        hs = SIZES[ver] + len(d0["extra_header_bytes"])
        want_off = hs + vlr_bytes + len(d0["extra_vlr_bytes"])
        if it.es and d0["offset_to_point_data"] != want_off:
            # an in-place rewrite that would move the points must be refused
            if it.raw is not None:
                add("in-place rewrite of a resized header accepted", inp, f"the object says offset {d0['offset_to_point_data']}, the header occupies {want_off}; write_to(ensure_same_size=True) wrote {len(it.raw)} bytes")
            elif common.exc_kind(it.err) != "ELaspy":
                add("header write failed", inp, repr(it.err))
            continue
        if it.raw is None:
            add("header write failed", inp, repr(it.err))
            continue
        raw = it.raw
        if int.from_bytes(raw[94:96], "little") != hs:
            add("header size field", inp, f"{int.from_bytes(raw[94:96], 'little')} != {hs}")
        off = int.from_bytes(raw[96:100], "little")
        if off != want_off or len(raw) != off:
            add("offset identity", inp, f"offset {off}, header {hs} + vlrs {vlr_bytes} + pad {len(d0['extra_vlr_bytes'])}, written {len(raw)}")
        # the bytes, field by field, against the attribute's own value (no reader involved)
        p = parse_header_bytes(raw)
        for k, v in own_fields(d0, ver).items():
            if p.get(k) != v:
                add(f"field {k.split('[')[0]} not written from its own value", dict(inp, field=k), f"the attribute holds {v!r}, the bytes of the field hold {p.get(k)!r}")
        if p["number_of_vlrs"] != len(it.vlrs_before):
            add("field number_of_vlrs not written from its own value", inp, f"{len(it.vlrs_before)} VLRs, the field holds {p['number_of_vlrs']}")
        if raw[off - len(d0["extra_vlr_bytes"]):off] != d0["extra_vlr_bytes"] if d0["extra_vlr_bytes"] else False:
            add("field extra_vlr_bytes not written from its own value", inp, "")
        try:
            back = laspy.LasHeader.read_from(io.BytesIO(raw))
        except Exception as ex:
            add("header read failed", inp, repr(ex))
            continue
        d1 = lasio.header_assoc(back)
        for k, v in own_fields(d0, ver).items():
            if d1.get(k) != v:
                add(f"field {k.split('[')[0]} not reproduced", dict(inp, field=k), f"wrote {v!r}, read {d1.get(k)!r}")
        if d1["extra_vlr_bytes"] != d0["extra_vlr_bytes"]:
            add("field extra_vlr_bytes not reproduced", inp, f"wrote {d0['extra_vlr_bytes']!r}, read {d1['extra_vlr_bytes']!r}")
        cd = date(d0["creation_year"], 1, 1) + timedelta(d0["creation_yday"] - 1)
        if back.creation_date != cd:
            add("creation date not reproduced", inp, f"wrote {cd}, read {back.creation_date}")
        if [lasio.vlr_tuple(v) for v in back.vlrs] != it.vlrs_before:
            add("VLRs of the header not reproduced", inp, "")
        # writing must not change the object's own fields (the three computed ones aside)
        d2 = lasio.header_assoc(h)
        for k, v in own_fields(d0, ver).items():
            if d2.get(k) != v:
                add(f"write_to changed the attribute {k.split('[')[0]}", dict(inp, field=k), f"{v!r} -> {d2.get(k)!r}")
    file_api(ctx, add)
    # in-place rewrite: the writer's / appender's own header edited between open and close
    for r in rewrite_sessions(ctx):
        inp = session_input(r)
        if "setup_error" in r:
            add("rewrite session: opening / storing points raises", inp, r["setup_error"])
            continue
        off0 = r["offset_first_written"]
        if not r["points_in_place_before_edit"]:
            add("points are not at the offset first written", inp, "")
        if r["offset_after_close"] != off0:
            add("in-place rewrite changed offset_to_point_data", inp, f"{off0} -> {r['offset_after_close']}" + (", no exception" if r["raised"] is None else f", {r['raised']!r}"))
        if not r["points_intact"]:
            add("in-place rewrite moved or damaged the points", inp,
                f"the point records stored at byte {off0} were overwritten (first damaged byte {r['first_damaged_byte']}); the edited header + VLR block takes "
                f"{r['size_after_edit']} bytes; close() " + ("did not raise" if r["raised"] is None else f"raised {r['raised']!r}"))
        if r["size_after_edit"] != off0 and r["raised"] is None:
            add("in-place rewrite of a resized header accepted", inp, f"first written with {off0} bytes, now {r['size_after_edit']}, no exception")
        if r["size_after_edit"] == off0 and r["raised"] is not None:
            add("in-place rewrite of a same-size header fails", inp, repr(r["raised"]))
        if r["reread"] not in (None, "same"):
            add("rewritten file does not give back the stored points", inp, r["reread"])
    # every public attribute x every value: the pair after the assignment, and what is serialised afterwards
    for r in assignment_sweep(ctx):
        inp = {"start": r["start"], "statement": f"header.{r['attr']} = {r['value']}", "attribute_found_by_introspection_as":
               {"v": "version", "f": "point_format", "r": "property without setter", "p": "assignable attribute / property"}[r["class"]]}
        if not legal_pair(r["after"]):
            add(f"incompatible pair produced by assigning header.{r['attr']}", inp,
                f"header is {r['after'][0]}.{r['after'][1]} / format {r['after'][2]} afterwards" + (f" (raised {r['raised']!r})" if r["raised"] is not None else ""))
        if r["raised"] is not None and r["after"] != r["start"]:
            add(f"failed assignment to header.{r['attr']} changed the header", inp, f"{r['start']} -> {r['after']}, raised {r['raised']!r}")
        if isinstance(r["written"], tuple):
            if not legal_pair(r["written"]):
                add(f"incompatible pair written after assigning header.{r['attr']}", inp, f"write_to serialised {r['written'][0]}.{r['written'][1]} / format {r['written'][2]}")
            elif r["written"] != r["after"]:
                add("written pair differs from the header's pair", inp, f"header {r['after']}, bytes {r['written']}")
    # a header READ from a file that announces an illegal (version, format) pair (reading stays lenient) must be refused by the writer
    for ver_minor, fmt in [(1, 2), (1, 3), (2, 5), (1, 6), (3, 7), (2, 10)]:
        good = laspy.LasHeader(version="1.4" if fmt >= 6 else "1.3" if fmt >= 4 else "1.2", point_format=fmt)
        bio = io.BytesIO()
        with laspy.LasWriter(bio, good, closefd=False) as w:
            w.write_points(laspy.PackedPointRecord.zeros(2, good.point_format))
        raw = bytearray(bio.getvalue())
        # shrink the header to the older version's size is not needed for 1.1/1.2 (same 227 bytes); only patch those
        if good.version.minor > 2:
            continue
        raw[25] = ver_minor
        try:
            las = laspy.read(io.BytesIO(bytes(raw)))
        except Exception:
            continue
        inp = {"file_says": f"1.{ver_minor} / format {fmt}"}
        out = io.BytesIO()
        try:
            las.write(out)
            add("incompatible pair written to a file", inp, f"a header read from a file announcing 1.{ver_minor} with format {fmt} was written out ({len(out.getvalue())} bytes)")
        except Exception as ex:
            if common.exc_kind(ex) != "ELaspy":
                add("incompatible pair: unexpected exception on write", inp, repr(ex))
        try:
            laspy.LasWriter(io.BytesIO(), las.header, closefd=False)
            add("incompatible pair accepted by LasWriter", inp, "LasWriter(dest, header) did not raise")
        except Exception:
            pass
    # compat invariant on the implementation
    for s, ops in api_ops(ctx):
        tbl = {(1, 1): (0, 1), (1, 2): (0, 1, 2, 3), (1, 3): tuple(range(6)), (1, 4): tuple(range(11))}
        for j, r in enumerate(run_api(s, ops)):
            st = r[1] if r[0] == "ok" else r[2]
            legal = st[2] in tbl.get((st[0], st[1]), ())
            if not legal:
                add("incompatible pair produced", {"start": s, "ops": [op_tok(o) for o in ops[:j + 1]]}, f"header is {st[0]}.{st[1]} / format {st[2]} after {op_tok(ops[j])} ({r[0]})")
            if r[0] == "err" and not r[3]:
                add("failed call changed the header", {"start": s, "ops": [op_tok(o) for o in ops[:j + 1]]}, f"header became {st}")
    return failing[:8]


def walk_evlrs(raw, start, count):
    """position after `count` EVLRs laid out from `start`, or None if they do not fit the file"""
    pos = start
    for _ in range(count):
        if pos + 60 > len(raw):
            return None
        pos += 60 + struct.unpack_from("<Q", raw, pos + 20)[0]
    return pos if pos <= len(raw) else None


# fields a writing ROUTE computes itself from what it stores (statistics, layout of the new file, the format of the record); every
# other field of the header handed over by the caller is the CALLER's: it must be in the file as the caller's header held it
ROUTE_COMPUTED = ("point_count", "maxs", "mins", "number_of_points_by_return", "start_of_first_evlr", "number_of_evlrs",
                  "point_format_id", "point_size")
ROUTES = ["chunked-copy", "chunked-copy+evlrs", "writer-no-points", "appender", "appender-no-points", "appender-empty-chunks", "lasdata-write",
          "lasdata-write-evlrs-cleared", "lasdata-write-evlrs-grown", "convert-write", "convert-same-format-write", "writer-of-modified-header",
          "open-w-of-caller-header", "LasWriter-of-caller-header", "lasdata-of-caller-header-write", "lasdata-points-assigned-write",
          "lasdata-update_header-write"]


def caller_fields(d, version):
    return {k: v for k, v in own_fields(d, version).items() if k.split("[")[0] not in ROUTE_COMPUTED}


def judge_route(add, inp, route, given, raw, via_update_header=False):
    """the header in the file `raw` against the fields of the caller's header (`given` = lasio.header_assoc at hand-over): with struct
    at the ASPRS offsets, and read back through laspy. On a route that goes through LasData.update_header() (explicit call / assignment
    of las.points) the waveform pointer of a header >= 1.4 is COMPUTED by that data-sync operation (defined as 0; sync_computed of
    Model/HeaderRoute.v): the file must hold 0; before 1.4, and on every other route, it is the caller's"""
    import laspy
    p = parse_header_bytes(raw)
    over = f"{p['version.major']}.{p['version.minor']}"
    if via_update_header and p["version.minor"] >= 4:
        given = dict(given, start_of_waveform=0)
    try:
        back = lasio.header_assoc(laspy.read(io.BytesIO(raw)).header)
    except Exception as ex:  # noqa
        add(f"file written through {route} cannot be read", inp, repr(ex))
        back = None
    for k, v in caller_fields(given, over).items():
        name = k.split("[")[0]
        if p.get(k) != v:
            kind = f"field {name} lost through {route}"
            add(kind, dict(inp, field=k, route=route), f"the caller's header holds {v!r}, the header in the file holds {p.get(k)!r}")
        elif back is not None and back.get(k) != v:
            add(f"field {name} written through {route} not reproduced", dict(inp, field=k, route=route), f"wrote {v!r}, read {back.get(k)!r}")
    off = p["offset_to_point_data"]
    if given["extra_vlr_bytes"] and raw[off - len(given["extra_vlr_bytes"]):off] != given["extra_vlr_bytes"]:
        add(f"field extra_vlr_bytes lost through {route}", dict(inp, route=route), "")


def edit_plain_fields(h, rng):
    """non-default values in the plain fields of a header that is already in a file (same size: nothing moves)"""
    import uuid
    h.file_source_id = rng.choice([1, 65535, rng.randrange(65536)])
    h.global_encoding.value = rng.choice([1, 0xFFFF, rng.randrange(65536)])
    h.uuid = uuid.UUID(bytes=bytes(rng.randrange(256) for _ in range(16)))
    h.system_identifier = lasio.rand_ascii(rng, rng.choice([0, 1, 31, 32]))
    h.generating_software = lasio.rand_ascii(rng, rng.choice([0, 1, 31, 32]))
    h.creation_date = date(rng.randrange(1, 10000), rng.choice([1, 2, 12]), rng.choice([1, 28]))
    h.start_of_waveform_data_packet_record = rng.choice([1, 2 ** 64 - 1, rng.getrandbits(64)])
    if len(h.extra_header_bytes):
        h.extra_header_bytes = bytes(rng.randrange(256) for _ in range(len(h.extra_header_bytes)))
    if len(h.extra_vlr_bytes):
        h.extra_vlr_bytes = bytes(rng.randrange(256) for _ in range(len(h.extra_vlr_bytes)))


def file_api(ctx, add):
    """every ROUTE that puts a header into a file - LasWriter(), laspy.open(mode='w'), LasData.write (of a file read, of a LasData built on
    the caller's header, after points assignment / update_header), laspy.convert + write, the appender's rewrite at close (something /
    nothing / empty chunks appended, fields assigned on its header in between): (a) every field the route does not compute itself is in the
    file as the CALLER's header held it, in every version that has the field, and the caller's own object is not modified by a writer;
    (b) the header in the file holds the fields of the object that was serialised; (c) its EVLR fields describe the EVLRs in the file"""
    import laspy
    from laspy.vlrs.vlrlist import VLRList
    rng = ctx.rng
    for trial in range(ctx.n(170, 2000)):
        ver = rng.choice(["1.1", "1.2", "1.3", "1.3", "1.4", "1.4", "1.4", "1.4"])
        h = lasio.rand_header(rng, version=ver)
        if ver >= "1.3" and rng.random() < 0.7:
            h.start_of_waveform_data_packet_record = rng.choice([1, 2 ** 32 + 5, 2 ** 64 - 1, rng.getrandbits(64)])
        if rng.random() < 0.25:
            lasio.add_extra_dims(rng, h, rng.choice([1, 2]))
        pts = lasio.rand_points(rng, h, rng.choice([0, 1, 7]))
        evl = VLRList([lasio.rand_vlr(rng, 40) for _ in range(rng.choice([0, 1, 1, 2, 3]))]) if ver == "1.4" else VLRList()
        scen = rng.choice(ROUTES)
        inp = {"scenario": scen, "version": ver, "format": h.point_format.id, "points": len(pts), "evlrs_in_source": len(evl), "seed_trial": trial,
               "start_of_waveform_data_packet_record": int(h.start_of_waveform_data_packet_record), "global_encoding": int(h.global_encoding.value)}
        ctx.count("file-api:" + scen)
        ctx.count(f"file-api:version {ver}" + (", waveform pointer non-zero" if ver >= "1.3" and h.start_of_waveform_data_packet_record else ""))
        full = True       # the object compared is the very object that was serialised
        try:
            given = lasio.header_assoc(h)
            src = lasio.write_las(h, pts, evl)
            judge_route(add, inp, "LasWriter(dest, header)", given, src)
            after = lasio.header_assoc(h)
            for k, v in given.items():
                if after.get(k) != v:
                    add("LasWriter modified the caller's header", dict(inp, field=k), f"{k}: {v!r} -> {after.get(k)!r}")
            route = scen
            out = io.BytesIO()
            if scen.startswith("chunked-copy") or scen in ("writer-no-points", "writer-of-modified-header"):
                with laspy.open(io.BytesIO(src), read_evlrs=rng.random() < 0.7) as rd:
                    hdr = rd.header
                    if scen == "writer-of-modified-header":
                        # stale counters in the header handed over; the caller keeps modifying ITS object after the writer exists
                        hdr = copy.deepcopy(hdr)
                        hdr.number_of_evlrs = rng.choice([0, 2, 7])
                        hdr.start_of_first_evlr = rng.choice([0, 12345])
                        hdr.point_count = rng.choice([0, 99])
                    w = laspy.open(out, mode="w", header=hdr, closefd=False)
                    if scen == "writer-of-modified-header":
                        hdr.file_source_id = (hdr.file_source_id + 1) % 65536
                        hdr.start_of_waveform_data_packet_record = 77
                        hdr.number_of_evlrs = 5
                        hdr.evlrs = VLRList([lasio.rand_vlr(rng, 10)])
                    if scen != "writer-no-points":
                        for chunk in rd.chunk_iterator(rng.choice([1, 3, 100])):
                            w.write_points(chunk)
                    written = 0
                    if scen == "chunked-copy+evlrs" and ver == "1.4":
                        if rd.evlrs is None:
                            rd.read_evlrs()
                        w.write_evlrs(rd.evlrs)
                        written = len(rd.evlrs)
                    w.close()
                    obj = w.header
            elif scen in ("open-w-of-caller-header", "LasWriter-of-caller-header"):
                w = laspy.open(out, mode="w", header=h, closefd=False) if scen.startswith("open") else laspy.LasWriter(out, h, closefd=False)
                with w:
                    if len(pts):
                        w.write_points(pts)
                    if rng.random() < 0.5:
                        # what the caller does to ITS header while the writer is open does not reach the file
                        h.start_of_waveform_data_packet_record = 5
                        h.file_source_id = (h.file_source_id + 7) % 65536
                obj, written = w.header, 0
            elif scen.startswith("appender"):
                out = io.BytesIO(src)
                with laspy.open(out, mode="a", closefd=False) as ap:
                    edit_first = rng.random() < 0.5
                    edit = rng.random() < 0.7
                    if edit and edit_first:
                        edit_plain_fields(ap.header, rng)
                    if scen == "appender":
                        ap.append_points(lasio.rand_points(rng, ap.header, rng.choice([1, 3])))
                    elif scen == "appender-empty-chunks":
                        for _ in range(rng.choice([1, 2])):
                            ap.append_points(lasio.rand_points(rng, ap.header, 0))
                    if edit and not edit_first:
                        edit_plain_fields(ap.header, rng)
                    obj = ap.header
                    given = lasio.header_assoc(obj)
                    inp = dict(inp, fields_assigned_on_appender_header=("before appending" if edit_first else "before close") if edit else "no")
                route = f"the appender's rewrite at close ({scen})"
                written = len(evl)
            else:
                if scen in ("lasdata-of-caller-header-write", "lasdata-points-assigned-write", "lasdata-update_header-write"):
                    las = laspy.LasData(header=h) if scen != "lasdata-of-caller-header-write" or not len(pts) else laspy.LasData(header=h, points=pts)
                    if scen == "lasdata-points-assigned-write":
                        las.points = pts
                    elif scen == "lasdata-update_header-write":
                        las.update_header()
                        given2 = lasio.header_assoc(las.header)
                        want = dict(given, start_of_waveform=0) if ver >= "1.4" else given      # data-sync: the pointer of a header >= 1.4 is defined as 0
                        for k, v in caller_fields(want, ver).items():
                            if given2.get(k) != v:
                                add(f"field {k.split('[')[0]} not as LasData.update_header defines / leaves it", dict(inp, field=k), f"{given.get(k)!r} -> {given2.get(k)!r}, expected {v!r}")
                else:
                    las = laspy.read(io.BytesIO(src))
                if scen == "lasdata-write-evlrs-cleared" and ver == "1.4":
                    las.evlrs = VLRList()
                elif scen == "lasdata-write-evlrs-grown" and ver == "1.4":
                    las.evlrs.append(lasio.rand_vlr(rng, 30))
                elif scen == "convert-write":
                    if rng.random() < 0.5:
                        las = laspy.convert(las, file_version="1.4")
                        given = dict(given, **{"version.major": 1, "version.minor": 4})
                    else:
                        las = laspy.convert(las)
                elif scen == "convert-same-format-write":
                    las = laspy.convert(las, point_format_id=las.header.point_format.id)
                if scen.startswith("convert"):
                    # the version convert chooses (never lower than the source's) is judged with the (version, format) pairs
                    given = dict(given, **{"version.major": int(las.header.version.major), "version.minor": int(las.header.version.minor)})
                las.write(out)
                obj, full = las.header, False     # LasData.write serialises a private copy of las.header
                written = len(las.evlrs) if las.evlrs is not None and obj.version.minor >= 4 else 0
                route = "convert + LasData.write" if scen.startswith("convert") else f"LasData.write ({scen})"
            raw = out.getvalue()
            judge_route(add, inp, route, given, raw, via_update_header=scen in ("lasdata-points-assigned-write", "lasdata-update_header-write"))
            p = parse_header_bytes(raw)
            d = lasio.header_assoc(obj)
            over = f"{p['version.major']}.{p['version.minor']}"
            skip = () if full else ("point_count", "maxs", "mins", "number_of_points_by_return", "start_of_first_evlr", "number_of_evlrs")
            for k, v in own_fields(d, over).items():
                if k.split("[")[0] in skip:
                    continue
                if p.get(k) != v:
                    add(f"file header: field {k.split('[')[0]} differs from the header object that was written", dict(inp, field=k),
                        f"after close the object holds {v!r}, the file holds {p.get(k)!r}")
            if p["version.minor"] >= 4:
                if p["number_of_evlrs"] != written:
                    add("file header: number_of_evlrs does not count the EVLRs in the file", inp,
                        f"the header announces {p['number_of_evlrs']} EVLR(s) at offset {p['start_of_first_evlr']}; {written} were written")
                elif written:
                    end = walk_evlrs(raw, p["start_of_first_evlr"], written)
                    pts_end = p["offset_to_point_data"] + p["point_count"] * p["point_size"]
                    if end != len(raw) or p["start_of_first_evlr"] < pts_end:
                        add("file header: start_of_first_evlr does not lead to the EVLRs", inp,
                            f"start_of_first_evlr {p['start_of_first_evlr']}, points end at {pts_end}, {written} EVLR(s) from there end at {end}, file has {len(raw)} bytes")
        except Exception as ex:
            add("file API scenario raises", inp, repr(ex))


def replay(ctx, data):
    print("replay: re-run ./check C07 with the same VERIF_SEED; the failing case is described in the file")
    return 0
