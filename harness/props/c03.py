"""C03 — header statistics always describe the points actually stored.
Model: stats_of / grow / file_of / read_file of Model/Las.v; Model/LasMulti.v for several writers alive together (theorem C03_ensemble: the file
of each writer depends on its own operations only). Correspondence: the re-read header of files produced by one-shot, chunked and append
sessions vs the model's reader on the same bytes; each writer of an ensemble vs the model's wrun on its own operations; in-memory header after
las.points = ..., las[ix], update_header() vs stats_of. Search: exact recomputation of count / extrema / histogram / offsets / length from the
BYTES of every produced file (no laspy code in the oracle): writer sessions opened in every way (class, laspy.open, encoding_errors, do_compress,
laz_backend), append sessions, every (version, format) pair with every return number the format can store, ensembles of writers / appenders /
LasData built from ONE header object and used interleaved, refused and torn writes followed by continued use. Round 5: records of the LENGTHS where
block-wise copies change behaviour (exact multiples of 2**16, 2**17 +- 1, one chunk beyond 2**20 points) selected as strided / reversed views (not
contiguous), by index arrays and masks, stored through LasData[ix].write (stream and path), a chunked writer (stream and path) and an appender,
judged by the file length equation and the exact statistics recomputed from the bytes; LasData(header with stale counters, points) then sliced /
masked / updated. Round 6: RICH sessions of writers and appenders (lasio.rs_session; the appender ones are C06's): chunks SELECTED in every way (slice, stepped / negative slice, mask as
ndarray or list, index ndarray, list, tuple, int) from every record class, the source's PointFormat object changed in place between chunks, other files with the same
kinds of known VLRs read / written meanwhile, the writer's / appender's OWN header edited between chunks (VLR added / removed / grown, extra bytes, strings), every way
of ending (close twice, close inside the with-block, chunks after close; closefd False / True): whenever the first close succeeds the file must satisfy every header
equality, recomputed from its bytes, and hold exactly the accepted chunks."""
import io

import numpy as np

from harness import common, lasio
from harness.props import c06

ASSUMPTIONS = ["positive finite scales: the generic theorems assume ap_ok of the float formula x -> x*scale+offset; for the Gallina binary64 formula ap64 "
               "(Model/F64Bits.v, compared bit for bit with numpy and with LasHeader.grow/update in every run) ap_ok is PROVED on good_scaling and "
               "C03_extrema_binary64 / C03_grow_app_binary64 need no hypothesis on the formula",
               "non-contiguous records (las[::2], points[::-1], las[1::3]) are handed to the writer / appender AS VIEWS (not materialised by the harness), in "
               "small sizes and at the sizes where block-wise copies change behaviour (exact multiples of 2**16, 2**17 +- 1, a single chunk beyond 2**20 points)",
               "I/O faults judged here: a write_points / append_points whose low-level write fails with OSError BEFORE storing any byte, followed by "
               "anything (with-block exit, more chunks, the same chunk again, close): the refused chunk counts as not accepted and the file must be the "
               "file of the accepted chunks. Torn writes (bytes stored) are C19's (reading never yields other records); C03 does not range over them",
               "round 6: a session produces a file when its FIRST close returns normally (a writer / appender whose own header was resized while open refuses at close: "
               "no file is produced, C19 judges what is left); whatever follows the first close (a second close, chunks that are accepted or refused) the file must "
               "keep satisfying every header equality and hold exactly the accepted chunks"]

_WS = None
_WS_ERRORS = []
_ENS = None


def writer_sessions(ctx):
    global _WS
    if _WS is None:
        _WS = []
        for _ in range(ctx.n(420, 4000)):
            try:
                s = lasio.ws_gen(ctx.rng, ctx.thorough())
                s["run"] = lasio.ws_run(s)
            except Exception as ex:
                import traceback
                ctx.notes.append("writer session generator raised: " + traceback.format_exc()[-600:])
                _WS_ERRORS.append(f"{type(ex).__name__}: {ex} | " + traceback.format_exc()[-400:])
                continue
            _WS.append(s)
        # round 7: sessions whose FIRST chunk(s) lie at the real-world origin (offsets 0, X = Y = Z = 0 on all / some axes): the statistics gathered so
        # far are then the zeros an empty cloud has, while points ARE stored; the later chunks lie on one side of the origin, which must stay
        # inside the bounding box
        for _ in range(ctx.n(45, 400)):
            try:
                s = lasio.ws_gen(ctx.rng, ctx.thorough(), nonascii=False)
                _origin_first(ctx.rng, s)
                s["run"] = lasio.ws_run(s)
            except Exception as ex:
                import traceback
                _WS_ERRORS.append(f"{type(ex).__name__}: {ex} | " + traceback.format_exc()[-400:])
                continue
            _WS.append(s)
    return _WS


def _origin_first(rng, s):
    h = s["header"]
    axes = (0, 1, 2) if rng.random() < 0.6 else tuple(sorted(rng.sample([0, 1, 2], rng.choice([1, 2]))))
    of = np.array(h.offsets, dtype=np.float64)
    for ax in axes:
        of[ax] = 0.0
    h.offsets = of
    side = rng.choice([1, -1])
    npre = rng.choice([1, 1, 2])
    for op in s["ops"]:
        if op[0] == "P" and op[2] and len(op[1]) and not hasattr(op[1], "scales") and op[1].array.ndim:
            for ax in axes:
                kx = "XYZ"[ax]
                if npre > 0:
                    op[1].array[kx] = np.int32(0)
                else:
                    op[1].array[kx] = (side * (np.abs(op[1].array[kx].astype(np.int64)) % 100000 + 1)).astype(np.int32)
            npre -= 1
    s["origin_first"] = {"axes": ["XYZ"[ax] for ax in axes], "later_chunks_on_side": side}


def ensembles(ctx):
    global _ENS
    if _ENS is None:
        _ENS = []
        for _ in range(ctx.n(260, 2500)):
            try:
                e = lasio.ens_gen(ctx.rng, ctx.thorough())
            except Exception as ex:
                ctx.notes.append(f"ensemble generator raised {type(ex).__name__}: {ex}")
                continue
            e["a"] = lasio.ens_run(e)
            e["b"] = lasio.ens_run(e, isolated=True)
            _ENS.append(e)
    return _ENS


_INMEM_SEL = []


def inmem_selection_cases(ctx):
    """round 6: a LasData indexed in EVERY way the API offers (lasio.RS_SELECTIONS: slice, stepped / negative slice, mask as ndarray or python list,
    index ndarray - also negative -, python list - also with repetitions, empty -, tuple, python int - also negative), once and twice in a row
    (las[a][b]); the object built by assignment or by LasData(header with stale counters, points). Returns (label, LasData) like inmem_cases and
    records in _INMEM_SEL what the selection must hold (numpy on a private copy of the array) and the parent's state before / after"""
    import laspy
    rng = ctx.rng
    out = []
    kinds = sorted(set(lasio.RS_SELECTIONS))
    for it in range(ctx.n(90, 900)):
        h = lasio.rand_header(rng)
        if rng.random() < 0.2:
            lasio.add_extra_dims(rng, h, 1)
        n = rng.choice([2, 3, 9, 33])
        pts = lasio.sweep_points(rng, h, n, start=rng.randrange(16))
        if rng.random() < 0.5:
            las = laspy.LasData(header=h, points=pts)
        else:
            las = laspy.LasData(header=h)
            las.points = pts
        kind = kinds[it % len(kinds)]
        ix, npix = lasio.rs_selection(rng, n, kind)
        snap = las.points.array.copy()
        parent_before = (lasio.fingerprint(las.header), int(las.header.point_count), lasio.rec_bytes(las.points))
        label = f"las[{kind}]"
        try:
            sub = las[ix]
            want = snap[npix]
            if rng.random() < 0.3 and len(want) >= 2 and type(sub).__name__ == "LasData":
                k2 = rng.choice(kinds)
                ix2, npix2 = lasio.rs_selection(rng, len(want), k2)
                sub = sub[ix2]
                want = want[npix2]
                label = f"las[{kind}][{k2}]"
        except Exception as ex:
            _INMEM_SEL.append((label, lasio.rs_label(ix), None, None, f"{type(ex).__name__}: {ex}", n))
            continue
        parent_after = (lasio.fingerprint(las.header), int(las.header.point_count), lasio.rec_bytes(las.points))
        _INMEM_SEL.append((label, lasio.rs_label(ix), sub, np.ascontiguousarray(want).tobytes(), None if parent_after == parent_before else "parent changed", n))
        out.append((label, sub))
    return out


def inmem_cases(ctx):
    """(label, LasData) after in-memory operations"""
    import laspy
    rng = ctx.rng
    out = inmem_selection_cases(ctx)
    for _ in range(ctx.n(120, 1200)):
        h = lasio.rand_header(rng)
        n = rng.choice([0, 1, 2, 9, 33])
        las = laspy.LasData(header=h)
        pts = lasio.rand_points(rng, h, n) if rng.random() < 0.5 else lasio.sweep_points(rng, h, n)
        kind = rng.choice(["assign", "slice", "mask", "list", "update", "int", "resample", "ctor", "ctor"])
        via_ctor = False
        if kind == "ctor":
            # LasData(header, points=...) is how laspy.read builds its result: the header handed over may carry STALE counters (rand_header:
            # point_count / extrema / histogram of another cloud, half of the time). The constructed object itself is not judged (nothing
            # was assigned), what is derived from it by slicing / masking / update_header() is
            las = laspy.LasData(header=h, points=pts)
            via_ctor = True
            kind = rng.choice(["slice", "mask", "list", "update", "resample"])
            if n == 0:
                continue
        if not via_ctor:
            las.points = pts
        if kind == "assign" or n == 0:
            out.append(("points assigned", las))
            continue
        if kind == "slice":
            a, b, st = rng.randrange(-n, n + 1), rng.randrange(-n, n + 2), rng.choice([1, 2, 3, -1])
            sub = las[slice(a, b, st)]
            out.append((f"las[{a}:{b}:{st}]", sub))
        elif kind == "mask":
            mk = np.array([rng.random() < 0.5 for _ in range(n)])
            out.append(("las[mask]", las[mk]))
        elif kind == "list":
            ix = [rng.randrange(n) for _ in range(rng.choice([0, 0, 1, 2, 5]))]
            out.append((f"las[{ix}]", las[np.array(ix, dtype=np.int64)]))
        elif kind == "resample":
            # exactly len(las) indices, with repetitions: same count, different multiset
            ix = [rng.randrange(n) for _ in range(n)] if rng.random() < 0.6 else [rng.randrange(n)] * n
            out.append((f"las[resample {n}]", las[np.array(ix, dtype=np.int64)]))
        elif kind == "int":
            continue
        else:
            # modify coordinates and return numbers in place, then update_header()
            las.points.array["X"][:] = np.array([rng.randrange(-2 ** 31, 2 ** 31) for _ in range(n)], dtype=np.int64)
            las.points.array["bit_fields"][:] = np.array([rng.randrange(256) for _ in range(n)], dtype=np.uint8)
            las.update_header()
            out.append(("update_header()", las))
    # round 7: points assigned (the header is in sync), then the record is REBUILT by the library itself - add_extra_dim(s) / remove_extra_dim(s) make a
    # new record of the grown / shrunk format and put it in place of the assigned one: the header must describe that record (same count, extrema,
    # histogram: the points are the same) and the standard dimensions must be the ones assigned. (A header that was ALREADY stale before the call -
    # dimensions edited in place, no update_header() - is outside the statement: it lists assignment, indexing and update_header().)
    for _ in range(ctx.n(40, 400)):
        h = lasio.rand_header(rng)
        pre = rng.choice([0, 1, 2])
        if pre:
            lasio.add_extra_dims(rng, h, pre)
        n = rng.choice([0, 1, 2, 9])
        pts = lasio.rand_points(rng, h, n) if rng.random() < 0.5 else lasio.sweep_points(rng, h, n)
        las = laspy.LasData(header=h)
        las.points = pts
        std = [nm for nm in pts.array.dtype.names if nm not in set(h.point_format.extra_dimension_names)]
        want = [pts.array[nm].copy() for nm in std]
        names = list(h.point_format.extra_dimension_names)
        op = rng.choice(["add_extra_dim", "add_extra_dims"] + (["remove_extra_dim", "remove_extra_dims"] if names else []))
        try:
            if op == "add_extra_dim":
                las.add_extra_dim(laspy.ExtraBytesParams("q_" + lasio.rand_ascii(rng, 4, [c for c in range(97, 123)]), rng.choice(["u1", "i4", "f8", "3u2"])))
            elif op == "add_extra_dims":
                las.add_extra_dims([laspy.ExtraBytesParams(f"q{j}_" + lasio.rand_ascii(rng, 3, [c for c in range(97, 123)]), rng.choice(["u2", "f4", "2i1"])) for j in range(rng.choice([1, 2]))])
            elif op == "remove_extra_dim":
                las.remove_extra_dim(rng.choice(names))
            else:
                las.remove_extra_dims(names if rng.random() < 0.5 else [rng.choice(names)])
            kept = all(las.points.array[nm].tobytes() == w.tobytes() for nm, w in zip(std, want))
        except Exception as ex:
            _INMEM_REBUILD.append((op, n, f"{type(ex).__name__}: {ex}"))
            continue
        if not kept:
            _INMEM_REBUILD.append((op, n, "the standard dimensions of the rebuilt record are not the ones assigned"))
        out.append((f"points assigned, then {op}", las))
    return out


_INMEM_REBUILD = []


def header_stats_problems(h, rec):
    """the property's equalities on an in-memory header vs the record it describes"""
    n = len(rec)
    problems = []
    if h.point_count != n:
        problems.append(f"point_count {h.point_count} != {n}")
    for i, k in enumerate("XYZ"):
        if n:
            mx = float(rec.array[k].max() * h.scales[i] + h.offsets[i]); mn = float(rec.array[k].min() * h.scales[i] + h.offsets[i])
        else:
            mx = mn = 0.0
        if lasio.f64bits(h.maxs[i]) != lasio.f64bits(mx) or lasio.f64bits(h.mins[i]) != lasio.f64bits(mn):
            problems.append(f"{k} extrema ({float(h.mins[i])!r},{float(h.maxs[i])!r}) exact ({mn!r},{mx!r})")
    mask = 0x0F if h.point_format.id >= 6 else 0x07
    rn = rec.array["bit_fields"] & mask if n else np.zeros(0, dtype=np.uint8)
    bins = 15 if h.version.minor >= 4 else 5
    hist = [int((rn == k).sum()) for k in range(1, bins + 1)]
    got = [int(v) for v in h.number_of_points_by_return[:bins]]
    if hist != got:
        problems.append(f"points by return {got} exact {hist}")
    return problems


_INMEM = None


_RICHW = None


def rich_writer_sessions(ctx):
    global _RICHW
    if _RICHW is None:
        _RICHW = []
        for i in range(ctx.n(220, 2200)):
            try:
                _RICHW.append(lasio.rs_session(ctx.rng, "writer", ctx.thorough()))
            except Exception as ex:
                import traceback
                _RICHW.append({"error": f"{type(ex).__name__}: {ex} | " + traceback.format_exc()[-600:], "desc": {"generator": "rich writer session"}})
    return _RICHW


def rich_results(ctx):
    """round 6: the header equalities on the files of rich writer and appender sessions: [(kind, description, why)]"""
    out = []
    for s in rich_writer_sessions(ctx) + c06.rich_sessions(ctx):
        if "error" in s:
            out.append(("rich session could not be run", s["desc"], s["error"]))
            continue
        d = s["desc"]
        tag = lasio.rs_tag(s)
        ctx.case(("rich", s["kind"], repr(d["ops"]), s["final"]), nontrivial=any(o["outcome"] == "ok" and o["n"] for o in s["outs"]), sample={"session": d})
        ctx.count("rich:" + tag.split(":")[0])
        for o in s["outs"]:
            ctx.count("rich-chunk:" + s["kind"] + ":" + o["label"].split("[")[0] + ":" + ("empty" if o["n"] == 0 else o["expected"]) + ":" + o["outcome"])
        for k, why in lasio.rs_outcome_problems(s):
            out.append((tag + k, d, why))
        if not s["closes"] or s["closes"][0] != "ok":
            if not s["edited"]:
                out.append((tag + "close raised", d, f"closing calls: {s['closes']}"))
            continue       # the session did not produce a file (its own header was edited: refusing at close is allowed)
        if any(a is None for a in s["accepted"]):
            continue
        fin = s["final"]
        probs = lasio.raw_stats_problems(fin)
        try:
            if not probs and not s["rescaled"] and lasio.raw_records(fin) != s["accepted_bytes"]:
                probs = [f"records: the file holds {len(lasio.raw_records(fin))} bytes of records, the accepted chunks are {len(s['accepted_bytes'])} bytes"]
        except ValueError as ex:
            probs = [f"header: {ex}"]
        if not probs:
            probs = ["coordinates: " + p for p in lasio.rs_world_problems(s)]
        if probs:
            out.append((tag + probs[0].split(" ")[0], d, "; ".join(probs[:3])))
    return out


def correspond(ctx):
    global _INMEM
    ctx.extra["rule"] = ("files from random writer sessions (opened through the class or laspy.open with every optional parameter; 40% with return numbers "
                         "sweeping the whole range of the format), append sessions (C06 generator) and ensembles (2-4 writers / appenders / LasData created "
                         "from ONE header object, operations interleaved, the same record handed to several): the model's read_file on the produced bytes vs "
                         "laspy.read (every header field, VLRs, EVLRs, records); each writer of an ensemble vs the model's wrun on its own operations; in-memory "
                         "LasData after points assignment, slice / mask / index list, update_header() - also on objects built by LasData(header with stale counters, points) -: "
                         "header statistics vs the model's stats_of. Search adds large selections (lengths 2**16 k, 2**17 +- 1, > 2**20; strided / reversed / fancy). non-trivial = "
                         "at least one point; distinct by file bytes / record bytes. Round 6: rich writer / appender sessions - chunks selected from a source cloud by slice / "
                         "stepped / negative slice / mask (ndarray, list) / index ndarray / list / tuple / int from plain and scale-aware records, LasData.points[..], "
                         "LasData[..].points; the source's PointFormat object changed in place between chunks; other files with known VLRs read / written meanwhile; the "
                         "writer's / appender's own header edited between chunks; close / close twice / close inside with / chunks after close, closefd False / True")
    import laspy
    dis = []
    files = []
    # the binary64 formula inside the model (Model/F64Bits.v, theorems C03_*_binary64): extracted ap64 vs numpy and vs LasHeader.grow/update
    from harness import ap_corr
    dis += ap_corr.correspond(ctx)
    for s in writer_sessions(ctx):
        iouts, raw, _, _ = s["run"]
        if iouts and not iouts[0].startswith("open-err"):
            files.append(("writer", raw))
    for a in c06.sessions_for(ctx):
        if a.get("final") is not None:
            files.append(("append", a["final"]))
    for s in rich_writer_sessions(ctx) + c06.rich_sessions(ctx):
        if "error" not in s and s["closes"] and s["closes"][0] == "ok" and len(s["final"]) < 60000:
            files.append(("rich-" + s["kind"], s["final"]))
    ens_cmds, ens_meta = [], []
    for e in ensembles(ctx):
        if e["a"]["error"]:
            continue
        for j, p in enumerate(e["parts"]):
            files.append(("ensemble-" + p["kind"], e["a"]["files"][j]))
            if p["kind"] in ("writer", "open-w"):
                # Model/LasMulti.v, theorem C03_ensemble: the j-th file is the file of the j-th writer's own operations
                ops = [(op[0], op[1], True) if op[0] == "P" else op for i, op in e["ops"] if i == j] + [("C",)]
                ens_cmds.append(lasio.ws_cmd({"header": e["header0"], "ops": ops}))
                ens_meta.append((e, j))
    # round 6: the rich WRITER sessions that are within the model (nothing rescaled, own header untouched): every call in order - chunks selected in
    # every way, the EVLRs, close, close again, chunks after close - through the model's wrun: outcome of every chunk call and the bytes of the file
    rw = [(s, lasio.rs_wrun_cmd(s)) for s in rich_writer_sessions(ctx)]
    rw = [(s, c) for s, c in rw if c]
    for (s, _), mo in zip(rw, common.run_model([c for _, c in rw])):
        ctx.traces += 1
        ctx.count("wrun-rich:" + lasio.rs_tag(s).split(":")[0])
        why = lasio.rs_wrun_problem(s, mo)
        if why:
            dis.append({"kind": "rich writer session (calls in order, closes included)", "input": s["desc"], "model": mo[:80], "impl": why})
    outs = common.run_model(["read_file " + common.hexb(raw) for _, raw in files] + ens_cmds)
    for (src, raw), mo in zip(files, outs):
        ctx.traces += 1
        try:
            las = laspy.read(io.BytesIO(raw))
        except Exception as ex:
            if not mo.startswith("err"):
                dis.append({"kind": f"read {src} file", "input": {"len": len(raw)}, "model": mo[:60], "impl": common.exc_kind(ex)})
            continue
        ctx.case(raw, nontrivial=len(las.points) > 0, sample={"source": src, "bytes": len(raw), "points": len(las.points)})
        ctx.count("file:" + src)
        t = mo.split(" ")
        if t[0] != "ok":
            dis.append({"kind": f"read {src} file", "input": {"len": len(raw)}, "model": mo[:60], "impl": "ok"})
            continue
        md = lasio.parse_assoc(t[1])
        hd = lasio.header_assoc(las.header)
        bad = [k for k, v in hd.items() if k != "header_size" and md.get(k, 0 if isinstance(v, int) else b"") != v]
        if bad or common.unhex(t[7]) != lasio.rec_bytes(las.points):
            dis.append({"kind": f"read {src} file fields", "input": {"len": len(raw), "fields": bad[:5]}, "model": str({k: md.get(k) for k in bad[:3]}), "impl": str({k: hd[k] for k in bad[:3]})})
    for (e, j), mo in zip(ens_meta, outs[len(files):]):
        ctx.traces += 1
        got = e["a"]["files"][j]
        t = mo.split(" ")
        if len(t) != 2 or t[1] != common.hexb(got):
            dis.append({"kind": "file of one writer among several alive together", "input": dict(lasio.ens_describe(e), participant=j),
                        "model": mo[:80], "impl": common.hexb(got)[:80]})
    # in-memory
    _INMEM = inmem_cases(ctx)
    cmds = []
    for label, las in _INMEM:
        h = las.header if type(las).__name__ == "LasData" else las.point_format and __import__("laspy").LasHeader(point_format=las.point_format.id, version="1.4")
        d = {f"{nm}[{i}]": lasio.f64bits(getattr(h, nm)[i]) for nm in ("scales", "offsets") for i in range(3)}
        recs = las.points if type(las).__name__ == "LasData" else las
        cmds.append(f"stats_of {h.point_format.id} {h.point_format.size} {lasio.assoc_tok(d)} {common.hexb(lasio.rec_bytes(recs))}")
    for (label, las), mo in zip(_INMEM, common.run_model(cmds)):
        if type(las).__name__ != "LasData":
            dis.append({"kind": "indexing a LasData did not return a LasData", "input": {"op": label}, "model": "LasData", "impl": type(las).__name__})
            continue
        h = las.header
        t = mo.split(" ")
        ctx.traces += 1
        ctx.case((label, lasio.rec_bytes(las.points)), nontrivial=len(las.points) > 0, sample={"op": label, "points": len(las.points), "model": mo[:80]})
        ctx.count("inmem:" + label.split("[")[0])
        exp = (int(t[0]), [int(x) for x in t[1].split(",")], [int(x) for x in t[2].split(",")], [int(x) for x in t[3].split(",")])
        bins = 15
        got = (int(h.point_count), [lasio.f64bits(v) for v in h.maxs], [lasio.f64bits(v) for v in h.mins], [int(v) for v in h.number_of_points_by_return[:bins]])
        if exp != got:
            dis.append({"kind": f"in-memory header after {label.split('[')[0]}", "input": {"op": label, "points": len(las.points)}, "model": str(exp)[:120], "impl": str(got)[:120]})
    return dis


class RefusingStream(io.BytesIO):
    """refuses (raises OSError, storing nothing) the k-th write that is at least `big` bytes long: a transient I/O fault"""

    def __init__(self, k, big):
        super().__init__()
        self.k, self.big, self.seen = k, big, 0

    def write(self, b):
        if memoryview(b).nbytes >= self.big:
            self.seen += 1
            if self.seen == self.k:
                raise OSError(28, "No space left on device (harness)")
        return super().write(b)


def faulted_sessions(ctx):
    """files laspy produces in sessions that are not the plain ones: one write_points refused by the destination (the caller catches the
    error and goes on, or the exception leaves the with-block, which closes the writer); strided / reversed / 0-d chunks; an appender whose
    EVLR list was edited before closing. Every such file must still satisfy the header equalities."""
    import laspy
    from laspy.vlrs.vlrlist import VLRList
    rng = ctx.rng
    out = []
    modes = ["refused-caught", "refused-with", "shapes", "appender-evlrs"]
    edits = ["append", "pop", "clear", "replace"]
    for it in range(ctx.n(60, 600)):
        mode = modes[it % 4]
        h = lasio.rand_header(rng, version="1.4" if mode == "appender-evlrs" else None)
        if rng.random() < 0.3:
            lasio.add_extra_dims(rng, h)
        ps = h.point_format.size
        chunks = [lasio.rand_points(rng, h, rng.choice([1, 2, 5, 9])) for _ in range(rng.choice([1, 2, 3, 4]))]
        evl = VLRList([lasio.rand_vlr(rng) for _ in range(rng.choice([0, 1, 2]))]) if h.version.minor >= 4 else None
        desc = {"version": str(h.version), "format": h.point_format.id, "chunks": [len(c) for c in chunks], "evlrs": len(evl or [])}
        try:
            if mode in ("refused-caught", "refused-with"):
                k = rng.randrange(1, len(chunks) + 1)
                st = RefusingStream(k, ps)      # header/VLR writes are shorter than... not necessarily: count only record-sized writes of chunks
                st.big = 10 ** 9
                w = laspy.LasWriter(st, h, closefd=False)
                st.big = 1
                st.seen = 0
                accepted = b""
                if mode == "refused-caught":
                    for c in chunks:
                        try:
                            w.write_points(c)
                            accepted += lasio.rec_bytes(c)
                        except OSError:
                            pass
                    st.big = 10 ** 9
                    if evl:
                        w.write_evlrs(evl)
                    w.close()
                else:
                    try:
                        with w:
                            for c in chunks:
                                w.write_points(c)
                                accepted += lasio.rec_bytes(c)
                    except OSError:
                        st.big = 10 ** 9
                    st.big = 10 ** 9
                    if not w.done:
                        w.close()
                out.append((f"writer session with write {k} refused ({mode})", dict(desc, refused_write=k), st.getvalue(), accepted))
            elif mode == "shapes":
                bio = io.BytesIO()
                want = b""
                shapes = []
                with laspy.LasWriter(bio, h, closefd=False) as w:
                    for c in chunks:
                        sh = rng.choice(["[::2]", "[::-1]", "[0]", "[1::3]", "whole"])
                        v = {"[::2]": lambda r: r[::2], "[::-1]": lambda r: r[::-1], "[0]": lambda r: r[0], "[1::3]": lambda r: r[1::3], "whole": lambda r: r}[sh](c)
                        shapes.append(sh)
                        w.write_points(v)
                        want += lasio.rec_bytes(v)
                    if evl:
                        w.write_evlrs(evl)
                out.append(("writer session with strided/reversed/0-d chunks", dict(desc, shapes=shapes), bio.getvalue(), want))
            else:
                if h.version.minor < 4:
                    continue
                base = lasio.write_las(h, chunks[0], VLRList([lasio.rand_vlr(rng) for _ in range(rng.choice([1, 2]))]))
                bio = io.BytesIO(base)
                edit = edits[(it // 4) % 4]
                want = lasio.rec_bytes(chunks[0])
                with laspy.open(bio, mode="a", closefd=False) as ap:
                    if edit == "append":
                        ap.evlrs.append(lasio.rand_vlr(rng))
                    elif edit == "pop":
                        ap.evlrs.pop()
                    elif edit == "clear":
                        ap.evlrs.clear()
                    else:
                        ap.evlrs = VLRList([lasio.rand_vlr(rng) for _ in range(rng.choice([1, 3]))])
                    for c in chunks[1:]:
                        ap.append_points(c)
                        want += lasio.rec_bytes(c)
                out.append((f"append session with the EVLR list edited ({edit})", dict(desc, edit=edit), bio.getvalue(), want))
        except Exception as ex:
            out.append((f"session raised ({mode}): {type(ex).__name__}", dict(desc, mode=mode), b"", None))
    return out


def pair_sweep(ctx):
    """(kind, description, why) over EVERY (version, format) pair of the compatibility table: records whose return numbers take every value the
    format can store (0..7 for formats 0-5 - also in 1.4 files, whose header has 15 bins -, 0..15 for 6-10), written one-shot, in chunks, through
    LasData.write and by appending: the statistics of each file must be exact"""
    import laspy
    from laspy.vlrs.vlrlist import VLRList
    rng = ctx.rng
    out = []
    for rep in range(ctx.n(2, 10)):
        for v, f in lasio.ALL_PAIRS:
            h = lasio.rand_header(rng, version=v, fmt=f)
            r = lasio.return_range(f)
            recs = [lasio.sweep_points(rng, h, n, start=rng.randrange(r)) for n in (r, rng.choice([1, 3]), 2 * r + 1)]
            evl = VLRList([lasio.rand_vlr(rng, 40)]) if (v == "1.4" and rng.random() < 0.5) else None
            allb = b"".join(lasio.rec_bytes(c) for c in recs)
            whole = laspy.PackedPointRecord.from_buffer(bytearray(allb), h.point_format)
            d = dict(lasio.describe_header(h), returns=[lasio.chunk_histogram(c, f) for c in recs], evlrs=len(evl or []))
            routes = {}
            try:
                routes["one-shot LasWriter"] = lasio.write_las(h, whole, evl)
                bio = io.BytesIO()
                with laspy.open(bio, mode="w", header=h, closefd=False) as w:
                    for c in recs:
                        w.write_points(c)
                    if evl:
                        w.write_evlrs(evl)
                routes["chunked laspy.open(mode=w)"] = bio.getvalue()
                las = laspy.LasData(header=h)
                las.points = whole
                if evl:
                    las.evlrs = evl
                bio = io.BytesIO()
                wkw = rng.choice([{}, {"do_compress": False}, {"laz_backend": None}, {"do_compress": None, "laz_backend": None}])
                las.write(bio, **wkw)
                routes["LasData.write" + (f"({', '.join(sorted(wkw))})" if wkw else "")] = bio.getvalue()
                if rep == 0:
                    # destinations given as a file name: laspy opens (and closes) the file itself
                    import os
                    import tempfile
                    tmpd = tempfile.mkdtemp(dir="/var/tmp", prefix="c03_")
                    try:
                        p1, p2 = os.path.join(tmpd, "a.las"), os.path.join(tmpd, "b.LAS")
                        with laspy.open(p1, mode="w", header=h) as w:
                            for c in recs:
                                w.write_points(c)
                            if evl:
                                w.write_evlrs(evl)
                        las.write(p2)
                        with open(p1, "rb") as f1, open(p2, "rb") as f2:
                            routes["chunked laspy.open(path, mode=w)"], routes["LasData.write(path)"] = f1.read(), f2.read()
                    finally:
                        import shutil
                        shutil.rmtree(tmpd, ignore_errors=True)
                bio = io.BytesIO(lasio.write_las(h, recs[0], evl))
                with laspy.open(bio, mode="a", closefd=False) as ap:
                    for c in recs[1:]:
                        ap.append_points(c)
                routes["append"] = bio.getvalue()
            except Exception as ex:
                out.append(("version/format sweep: a session raised", d, f"{type(ex).__name__}: {ex}"))
                continue
            for route, raw in routes.items():
                ctx.case(("pair", route, raw), nontrivial=True)
                ctx.count(f"pair:{v}:{f}")
                probs = lasio.raw_stats_problems(raw)
                if not probs and lasio.raw_records(raw) != allb:
                    probs = ["records: the stored records are not the ones written"]
                if probs:
                    out.append((f"(version, format) sweep: {probs[0].split(' ')[0]} not exact", dict(d, route=route), f"{route}: " + "; ".join(probs[:3])))
    return out


def big_shape_sessions(ctx):
    """(kind, description, why): records whose LENGTH sits where block-wise copies change behaviour - exact multiples of 2**16, 2**17 +- 1,
    one single chunk beyond 2**20 points - selected from a larger record as a strided / reversed view (not contiguous: the writer has to
    gather it), by an index array or a mask, or whole; stored through every route (LasData[...].write to a stream / a path, a chunked writer,
    an appender). Judged from the bytes: file length = offset + count x record length + EVLR bytes, count / extrema / histogram exact, the stored
    records are the selected ones."""
    import os
    import tempfile
    import laspy
    from laspy.vlrs.vlrlist import VLRList
    rng = ctx.rng
    out = []
    routes = ["LasData[ix].write(stream)", "LasWriter.write_points(view)", "laspy.open(mode=a).append_points(view)", "LasData[ix].write(path)",
              "laspy.open(path, mode=w).write_points(view)"]
    strided = ["[::2]", "[::-1]", "[1::2]", "[::3]", "[::-2]"]
    plan = []
    for i, L in enumerate(lasio.BIG_LENGTHS):
        shape = rng.choice(strided[:2] if L > (1 << 20) else strided)
        plan.append((L, shape, routes[(i + ctx.seed) % len(routes)]))
    # the sizes a block-wise copy is most likely to get wrong, through the two main routes in every run
    plan += [(1 << 17, rng.choice(strided), routes[0]), (1 << 17, "[::2]", routes[1]), (rng.choice([2, 3, 4]) << 16, rng.choice(strided), routes[2])]
    for _ in range(ctx.n(3, 40)):
        plan.append((rng.choice(lasio.BIG_LENGTHS[:7]), rng.choice(lasio.BIG_SHAPES), rng.choice(routes)))
    for L, shape, route in plan:
        h = lasio.small_header(rng)
        evl = VLRList([lasio.rand_vlr(rng, 40)]) if (h.version.minor >= 4 and rng.random() < 0.5) else None
        d = dict(lasio.describe_header(h), length=L, selection=shape, route=route, evlrs=len(evl or []))
        tmpd = None
        try:
            base, sel, want = lasio.big_selection(rng, h, L, shape)
            extra = lasio.rand_points(rng, h, rng.choice([0, 1, 3]))
            if route.startswith("LasData"):
                las = laspy.LasData(header=h)
                las.points = base
                if evl:
                    las.evlrs = evl
                if shape == "whole":
                    sub = las
                elif shape in ("fancy", "mask"):
                    sub = laspy.LasData(header=h, points=sel)
                    sub.evlrs = evl if evl else sub.evlrs
                else:
                    a, b_, st = {"[::2]": (None, None, 2), "[::-1]": (None, None, -1), "[1::2]": (1, None, 2), "[::3]": (None, None, 3), "[::-2]": (None, None, -2)}[shape]
                    sub = las[slice(a, b_, st)]
                    if evl:
                        sub.evlrs = evl
                if route.endswith("(path)"):
                    tmpd = tempfile.mkdtemp(dir="/var/tmp", prefix="c03_big_")
                    sub.write(os.path.join(tmpd, "big.las"))
                    with open(os.path.join(tmpd, "big.las"), "rb") as f:
                        raw = f.read()
                else:
                    bio = io.BytesIO()
                    sub.write(bio)
                    raw = bio.getvalue()
            elif "append" in route:
                first = lasio.rand_points(rng, h, rng.choice([0, 2]))
                bio = io.BytesIO(lasio.write_las(h, first, evl))
                with laspy.open(bio, mode="a", closefd=False) as ap:
                    ap.append_points(sel)
                    if len(extra):
                        ap.append_points(extra)
                raw = bio.getvalue()
                want = lasio.rec_bytes(first) + want + lasio.rec_bytes(extra)
            else:
                if "path" in route:
                    tmpd = tempfile.mkdtemp(dir="/var/tmp", prefix="c03_big_")
                    dest = os.path.join(tmpd, "big.las")
                    w = laspy.open(dest, mode="w", header=h)
                else:
                    dest = io.BytesIO()
                    w = laspy.LasWriter(dest, h, closefd=False)
                with w:
                    w.write_points(sel)
                    if len(extra):
                        w.write_points(extra)
                    if evl:
                        w.write_evlrs(evl)
                if tmpd:
                    with open(dest, "rb") as f:
                        raw = f.read()
                else:
                    raw = dest.getvalue()
                want = want + lasio.rec_bytes(extra)
        except Exception as ex:
            import traceback
            out.append(("large selection: the session raised", d, f"{type(ex).__name__}: {ex} | " + traceback.format_exc()[-500:]))
            continue
        finally:
            if tmpd:
                import shutil
                shutil.rmtree(tmpd, ignore_errors=True)
        ctx.case(("big", L, shape, route, len(raw), raw[:600]), nontrivial=True)
        ctx.count(f"big:{shape}:{'multiple of 65536' if L % 65536 == 0 else 'other'}")
        probs = lasio.raw_stats_problems(raw)
        if not probs and lasio.raw_records(raw) != want:
            probs = ["records: the stored records are not the selected ones"]
        if probs:
            contiguous = shape in ("fancy", "mask", "whole")
            out.append((f"large {'contiguous' if contiguous else 'non-contiguous'} record ({'exact multiple of 65536' if L % 65536 == 0 else 'not a multiple of 65536'}): "
                        + probs[0].split(" ")[0] + " wrong", d, "; ".join(probs[:3])))
        del base, sel, want, raw
    return out


def _guarded(add, name, fn):
    """runs one section of the search; if the section itself cannot be run on this tree (an exception escaping from laspy where the
    unchanged tree raises none), that is reported as a failing input instead of losing the findings of the other sections"""
    try:
        fn()
    except Exception as ex:
        import traceback
        add(f"search section '{name}' could not be run on this tree", {"section": name}, f"{type(ex).__name__}: {ex} | " + traceback.format_exc()[-700:])


def search(ctx, seeds):
    failing, seen = [], set()

    def add(kind, inp, why):
        if kind not in seen:
            seen.add(kind)
            failing.append({"kind": kind, "input": inp, "observed": why})
    def sec_writer_sessions():
        writer_sessions(ctx)
        for e in _WS_ERRORS[:1]:
            add("writer session could not be generated / run", {}, e)
        for s in writer_sessions(ctx):
            iouts, raw, _, _ = s["run"]
            if iouts and iouts[0].startswith("open-err"):
                continue
            probs = lasio.raw_stats_problems(raw)
            if not probs and not lasio.ws_rescaled(s) and lasio.raw_records(raw) != lasio.ws_accepted(s, iouts):
                probs = ["records: the file does not hold the accepted chunks"]
            if probs:
                add("writer file: " + probs[0].split(" ")[0], lasio.ws_describe(s), "; ".join(probs[:3]))
            # (c) the optional parameters (laspy.open vs the class, closefd, do_compress=False/None, laz_backend=None/(), a lenient
            # encoding_errors) must not change what is written: the same session through the plain constructor gives the same bytes
            via, kw = s.get("open", ("class", {}))
            plain = {k: v for k, v in kw.items() if k == "encoding_errors" and lasio.fingerprint_has_bytes(s["header"])}
            if (via, kw) != ("class", plain):
                o2, raw2, _, _ = lasio.ws_run(dict(s, open=("class", plain)))
                ctx.count("writer-open-variant:" + via + ":" + ",".join(sorted(kw)))
                upto = len(iouts)
                if kw.get("closefd"):
                    # once the writer closed its destination the later calls of the session meet a closed stream: compared up to the first close
                    upto = next((i for i, o in enumerate(s["ops"]) if o[0] == "C"), len(iouts) - 1) + 1
                if o2[:upto] != iouts[:upto] or raw2 != raw:
                    add("an optional parameter of the writer changes the file", lasio.ws_describe(s),
                        f"opened through {via} with {kw}: outcomes {iouts}, {len(raw)} bytes; through the plain constructor: {o2}, {len(raw2)} bytes")
    _guarded(add, 'writer sessions', sec_writer_sessions)
    def sec_append_sessions():
        for a in c06.sessions_for(ctx):
            if a.get("final") is None:
                continue
            probs = lasio.raw_stats_problems(a["final"])
            if probs:
                add("appended file: " + probs[0].split(" ")[0], a["desc"], "; ".join(probs[:3]))
    _guarded(add, 'append sessions', sec_append_sessions)
    def sec_rich_sessions():
        for kind, d, why in rich_results(ctx):
            add(kind, d, why)
    _guarded(add, 'selections / format objects / other files / own header edited / endings', sec_rich_sessions)
    def sec_version_format_sweep():
        for kind, d, why in pair_sweep(ctx):
            add(kind, d, why)
    _guarded(add, 'version/format sweep', sec_version_format_sweep)
    def sec_objects_alive_together():
        # (a) several objects alive at the same time built from one header
        for e in ensembles(ctx):
            d = lasio.ens_describe(e)
            a, b = e["a"], e["b"]
            if a["error"] or b["error"]:
                add("ensemble could not be run", d, str(a["error"] or b["error"]))
                continue
            nld = sum(1 for p in e["parts"] if p["kind"] == "lasdata")
            for j, p in enumerate(e["parts"]):
                fj = a["files"][j]
                ctx.count("ensemble:" + p["kind"])
                dj = dict(d, participant=j)
                probs = lasio.raw_stats_problems(fj)
                if not probs and lasio.raw_records(fj) != a["accepted"][j]:
                    probs = [f"records: the file holds {len(lasio.raw_records(fj))} bytes of records, its own accepted chunks are {len(a['accepted'][j])} bytes"]
                if probs:
                    add(f"objects alive together built from one header ({p['kind']}): " + probs[0].split(" ")[0], dj, "; ".join(probs[:3]))
                elif (p["kind"] != "lasdata" or nld == 1) and (fj != b["files"][j] or a["outs"][j] != b["outs"][j]):
                    add(f"objects alive together built from one header ({p['kind']}): file differs from the same session run alone", dj,
                        f"outcomes {a['outs'][j]} vs {b['outs'][j]}; lengths {len(fj)} vs {len(b['files'][j])}")
            if a["header_touched"]:
                add("the caller's header object was modified by a writer / appender", d, "fields, statistics, VLRs or point format of the header handed to the constructors changed")
    _guarded(add, 'objects alive together', sec_objects_alive_together)
    def sec_refused_writes_and_edited_sessions():
        for kind, desc, raw, want in faulted_sessions(ctx):
            ctx.case(("faulted", raw), nontrivial=True)
            ctx.count("faulted/edited sessions")
            try:
                probs = lasio.raw_stats_problems(raw)
                if not probs and want is not None and lasio.raw_records(raw) != want:
                    probs = [f"records: the file holds {len(lasio.raw_records(raw))} bytes of records, the accepted chunks are {len(want)} bytes"]
            except Exception as ex:
                probs = [f"the produced file cannot be read: {type(ex).__name__}: {ex}"]
            if probs:
                add(kind + ": " + probs[0].split(" ")[0], desc, "; ".join(probs[:3]))
    _guarded(add, 'refused writes and edited sessions', sec_refused_writes_and_edited_sessions)
    def sec_large_selections():
        for kind, d, why in big_shape_sessions(ctx):
            add(kind, d, why)
    _guarded(add, 'large selections', sec_large_selections)
    def sec_torn_writes():
        # (d) one low-level write refused with nothing stored, then continued use (torn writes that stored bytes: C19)
        from harness.props import c19
        for plan, policy, fa, run in c19.faults(ctx):
            d = c19.describe_fault(plan, policy, fa, run)
            if "error" in run or run["fault"] is None or not str(run["where"]).startswith("write_points") or run["fault"][3] != 0:
                continue       # faults inside write_evlrs / close, and torn writes that stored bytes, are C19's
            ctx.case(("torn", plan["kind"], run["final"][:4000], len(run["final"])), nontrivial=True)
            ctx.count(f"torn:{plan['kind']}:{policy}")
            tag = "exception leaves the with-block" if policy == "with" else "caller goes on"
            probs = lasio.raw_stats_problems(run["final"])
            try:
                if not probs and lasio.raw_records(run["final"]) != run["accepted"]:
                    probs = ["records: the announced records are not the accepted chunks"]
            except ValueError as ex:
                probs = [f"header: {ex}"]
            if probs:
                add(f"refused write ({plan['kind']}, nothing stored, {tag}): the header does not describe the accepted chunks", d, "; ".join(probs[:3]))
    _guarded(add, 'torn writes', sec_torn_writes)
    def sec_in_memory_headers():
        for label, las in (_INMEM if _INMEM is not None else inmem_cases(ctx)):
            if type(las).__name__ != "LasData":
                add("indexing a LasData did not return a LasData", {"op": label}, f"{label} returned a {type(las).__name__}: there is no header kept in sync with the selected points")
                continue
            probs = header_stats_problems(las.header, las.points)
            if probs:
                add("in-memory header after " + label.split("[")[0] + ": " + probs[0].split(" ")[0], {"op": label, "points": len(las.points), "version": str(las.header.version), "format": las.header.point_format.id}, "; ".join(probs[:3]))
        for op, n, why in _INMEM_REBUILD:
            add(f"LasData.{op} after points were assigned: " + ("raised" if "Error" in why or "Exception" in why else "points changed"), {"op": op, "points": n}, why)
        # round 6: every index expression; the selection must hold exactly the records numpy selects from the same array, the parent must stay as it was
        for label, ixs, sub, want, note, n in _INMEM_SEL:
            ctx.count("inmem-selection:" + label)
            d = {"op": label, "index": ixs, "points": n}
            if sub is None:
                # (a TUPLE is a multi-dimensional index for numpy: a LasData built on a plain PackedPointRecord refuses it with IndexError, one whose
                # points were assigned - a ScaleAwarePointRecord - reads it as a list of indices; a refusal is not judged, every other kind must work)
                if not (label.endswith("[tuple]") and note.startswith("IndexError")):
                    add("indexing a LasData raised (" + label.split("]")[0] + "])", d, note)
            elif type(sub).__name__ == "LasData":
                if lasio.rec_bytes(sub.points) != want:
                    add("indexing a LasData does not select the indexed points (" + label.split("]")[0] + "])", d,
                        f"{len(sub.points)} points in the selection, numpy selects {len(want) // max(sub.header.point_format.size, 1)} from the same array (or other ones)")
                if note:
                    add("indexing a LasData changed the indexed object", d, "header (fields, statistics, VLRs, point format), point_count or records of the parent differ after las[...]")
    _guarded(add, 'in-memory headers', sec_in_memory_headers)
    return failing[:10]


def replay(ctx, data):
    print("replay: re-run ./check C03 with the same VERIF_SEED; the failing case is described in the file")
    return 0
