"""C03 — header statistics always describe the points actually stored.
Model: stats_of / grow / file_of / read_file of Model/Las.v. Correspondence: the re-read header of files produced by one-shot,
chunked and append sessions vs the model's reader on the same bytes; in-memory header after las.points = ..., las[ix], update_header()
vs stats_of. Search: exact recomputation (numpy) of count / extrema / histogram / offsets / length from the bytes."""
import io

import numpy as np

from harness import common, lasio, sessions
from harness.props import c04, c06

ASSUMPTIONS = ["positive finite scales (x -> x*scale+offset monotone in binary64: hypothesis ap_ok)",
               "non-contiguous records (las[::2]) are materialised before being written by the harness"]


def inmem_cases(ctx):
    """(label, LasData) after in-memory operations"""
    import laspy
    rng = ctx.rng
    out = []
    for _ in range(ctx.n(120, 1200)):
        h = lasio.rand_header(rng)
        n = rng.choice([0, 1, 2, 9, 33])
        las = laspy.LasData(header=h)
        pts = lasio.rand_points(rng, h, n)
        kind = rng.choice(["assign", "slice", "mask", "list", "update", "int", "resample"])
        las.points = pts
        if kind == "assign" or n == 0:
            out.append(("points assigned", las))
            continue
        if kind == "slice":
            a, b, st = rng.randrange(-n, n + 1), rng.randrange(-n, n + 2), rng.choice([1, 2, 3, -1])
            sub = las[slice(a, b, st)]
            out.append((f"las[{a}:{b}:{st}]", sub))
        elif kind == "mask":
            mk = np.array([rng.random() < 0.5 for _ in range(n)])
            out.append(("las[mask]", las[mk]))
        elif kind == "list":
            ix = [rng.randrange(n) for _ in range(rng.choice([0, 0, 1, 2, 5]))]
            out.append((f"las[{ix}]", las[np.array(ix, dtype=np.int64)]))
        elif kind == "resample":
            # exactly len(las) indices, with repetitions: same count, different multiset
            ix = [rng.randrange(n) for _ in range(n)] if rng.random() < 0.6 else [rng.randrange(n)] * n
            out.append((f"las[resample {n}]", las[np.array(ix, dtype=np.int64)]))
        elif kind == "int":
            continue
        else:
            # modify coordinates and return numbers in place, then update_header()
            las.points.array["X"][:] = np.array([rng.randrange(-2 ** 31, 2 ** 31) for _ in range(n)], dtype=np.int64)
            las.points.array["bit_fields"][:] = np.array([rng.randrange(256) for _ in range(n)], dtype=np.uint8)
            las.update_header()
            out.append(("update_header()", las))
    return out


def header_stats_problems(h, rec):
    """the property's equalities on an in-memory header vs the record it describes"""
    n = len(rec)
    problems = []
    if h.point_count != n:
        problems.append(f"point_count {h.point_count} != {n}")
    for i, k in enumerate("XYZ"):
        if n:
            mx = float(rec.array[k].max() * h.scales[i] + h.offsets[i]); mn = float(rec.array[k].min() * h.scales[i] + h.offsets[i])
        else:
            mx = mn = 0.0
        if lasio.f64bits(h.maxs[i]) != lasio.f64bits(mx) or lasio.f64bits(h.mins[i]) != lasio.f64bits(mn):
            problems.append(f"{k} extrema ({float(h.mins[i])!r},{float(h.maxs[i])!r}) exact ({mn!r},{mx!r})")
    mask = 0x0F if h.point_format.id >= 6 else 0x07
    rn = rec.array["bit_fields"] & mask if n else np.zeros(0, dtype=np.uint8)
    bins = 15 if h.version.minor >= 4 else 5
    hist = [int((rn == k).sum()) for k in range(1, bins + 1)]
    got = [int(v) for v in h.number_of_points_by_return[:bins]]
    if hist != got:
        problems.append(f"points by return {got} exact {hist}")
    return problems


_INMEM = None


def correspond(ctx):
    global _INMEM
    ctx.extra["rule"] = ("files from random writer sessions (C04 generator) and append sessions (C06 generator): the model's read_file on the "
                         "produced bytes vs laspy.read (every header field, VLRs, EVLRs, records); in-memory LasData after points assignment, "
                         "slice / mask / index list, update_header(): header statistics vs the model's stats_of. non-trivial = at least one "
                         "point with a non-zero return number or negative coordinate; distinct by file bytes / record bytes")
    import laspy
    dis = []
    files = []
    for s in c04.sessions_for(ctx):
        iouts, raw, _, _ = s["run"]
        if iouts and not iouts[0].startswith("open-err"):
            # sessions whose EVLRs were written after a close are not files the property speaks about
            files.append(("writer", raw))
    for a in c06.sessions_for(ctx):
        if a.get("final") is not None:
            files.append(("append", a["final"]))
    outs = common.run_model(["read_file " + common.hexb(raw) for _, raw in files])
    for (src, raw), mo in zip(files, outs):
        ctx.traces += 1
        try:
            las = laspy.read(io.BytesIO(raw))
        except Exception as ex:
            if not mo.startswith("err"):
                dis.append({"kind": f"read {src} file", "input": {"len": len(raw)}, "model": mo[:60], "impl": common.exc_kind(ex)})
            continue
        ctx.case(raw, nontrivial=len(las.points) > 0, sample={"source": src, "bytes": len(raw), "points": len(las.points)})
        ctx.count("file:" + src)
        t = mo.split(" ")
        if t[0] != "ok":
            dis.append({"kind": f"read {src} file", "input": {"len": len(raw)}, "model": mo[:60], "impl": "ok"})
            continue
        md = lasio.parse_assoc(t[1])
        hd = lasio.header_assoc(las.header)
        bad = [k for k, v in hd.items() if k != "header_size" and md.get(k, 0 if isinstance(v, int) else b"") != v]
        if bad or common.unhex(t[7]) != lasio.rec_bytes(las.points):
            dis.append({"kind": f"read {src} file fields", "input": {"len": len(raw), "fields": bad[:5]}, "model": str({k: md.get(k) for k in bad[:3]}), "impl": str({k: hd[k] for k in bad[:3]})})
    # in-memory
    _INMEM = inmem_cases(ctx)
    cmds = []
    for label, las in _INMEM:
        h = las.header if type(las).__name__ == "LasData" else las.point_format and __import__("laspy").LasHeader(point_format=las.point_format.id, version="1.4")
        d = {f"{nm}[{i}]": lasio.f64bits(getattr(h, nm)[i]) for nm in ("scales", "offsets") for i in range(3)}
        recs = las.points if type(las).__name__ == "LasData" else las
        cmds.append(f"stats_of {h.point_format.id} {h.point_format.size} {lasio.assoc_tok(d)} {common.hexb(lasio.rec_bytes(recs))}")
    for (label, las), mo in zip(_INMEM, common.run_model(cmds)):
        if type(las).__name__ != "LasData":
            dis.append({"kind": "indexing a LasData did not return a LasData", "input": {"op": label}, "model": "LasData", "impl": type(las).__name__})
            continue
        h = las.header
        t = mo.split(" ")
        ctx.traces += 1
        ctx.case((label, lasio.rec_bytes(las.points)), nontrivial=len(las.points) > 0, sample={"op": label, "points": len(las.points), "model": mo[:80]})
        ctx.count("inmem:" + label.split("[")[0])
        exp = (int(t[0]), [int(x) for x in t[1].split(",")], [int(x) for x in t[2].split(",")], [int(x) for x in t[3].split(",")])
        bins = 15
        got = (int(h.point_count), [lasio.f64bits(v) for v in h.maxs], [lasio.f64bits(v) for v in h.mins], [int(v) for v in h.number_of_points_by_return[:bins]])
        if exp != got:
            dis.append({"kind": f"in-memory header after {label.split('[')[0]}", "input": {"op": label, "points": len(las.points)}, "model": str(exp)[:120], "impl": str(got)[:120]})
    return dis


class RefusingStream(io.BytesIO):
    """refuses (raises OSError, storing nothing) the k-th write that is at least `big` bytes long: a transient I/O fault"""

    def __init__(self, k, big):
        super().__init__()
        self.k, self.big, self.seen = k, big, 0

    def write(self, b):
        if memoryview(b).nbytes >= self.big:
            self.seen += 1
            if self.seen == self.k:
                raise OSError(28, "No space left on device (harness)")
        return super().write(b)


def faulted_sessions(ctx):
    """files laspy produces in sessions that are not the plain ones: one write_points refused by the destination (the caller catches the
    error and goes on, or the exception leaves the with-block, which closes the writer); strided / reversed / 0-d chunks; an appender whose
    EVLR list was edited before closing. Every such file must still satisfy the header equalities."""
    import laspy
    from laspy.vlrs.vlrlist import VLRList
    rng = ctx.rng
    out = []
    modes = ["refused-caught", "refused-with", "shapes", "appender-evlrs"]
    edits = ["append", "pop", "clear", "replace"]
    for it in range(ctx.n(60, 600)):
        mode = modes[it % 4]
        h = lasio.rand_header(rng, version="1.4" if mode == "appender-evlrs" else None)
        if rng.random() < 0.3:
            lasio.add_extra_dims(rng, h)
        ps = h.point_format.size
        chunks = [lasio.rand_points(rng, h, rng.choice([1, 2, 5, 9])) for _ in range(rng.choice([1, 2, 3, 4]))]
        evl = VLRList([lasio.rand_vlr(rng) for _ in range(rng.choice([0, 1, 2]))]) if h.version.minor >= 4 else None
        desc = {"version": str(h.version), "format": h.point_format.id, "chunks": [len(c) for c in chunks], "evlrs": len(evl or [])}
        try:
            if mode in ("refused-caught", "refused-with"):
                k = rng.randrange(1, len(chunks) + 1)
                st = RefusingStream(k, ps)      # header/VLR writes are shorter than... not necessarily: count only record-sized writes of chunks
                st.big = 10 ** 9
                w = laspy.LasWriter(st, h, closefd=False)
                st.big = 1
                st.seen = 0
                accepted = b""
                if mode == "refused-caught":
                    for c in chunks:
                        try:
                            w.write_points(c)
                            accepted += lasio.rec_bytes(c)
                        except OSError:
                            pass
                    st.big = 10 ** 9
                    if evl:
                        w.write_evlrs(evl)
                    w.close()
                else:
                    try:
                        with w:
                            for c in chunks:
                                w.write_points(c)
                                accepted += lasio.rec_bytes(c)
                    except OSError:
                        st.big = 10 ** 9
                    st.big = 10 ** 9
                    if not w.done:
                        w.close()
                out.append((f"writer session with write {k} refused ({mode})", dict(desc, refused_write=k), st.getvalue(), accepted))
            elif mode == "shapes":
                bio = io.BytesIO()
                want = b""
                shapes = []
                with laspy.LasWriter(bio, h, closefd=False) as w:
                    for c in chunks:
                        sh = rng.choice(["[::2]", "[::-1]", "[0]", "[1::3]", "whole"])
                        v = {"[::2]": lambda r: r[::2], "[::-1]": lambda r: r[::-1], "[0]": lambda r: r[0], "[1::3]": lambda r: r[1::3], "whole": lambda r: r}[sh](c)
                        shapes.append(sh)
                        w.write_points(v)
                        want += lasio.rec_bytes(v)
                    if evl:
                        w.write_evlrs(evl)
                out.append(("writer session with strided/reversed/0-d chunks", dict(desc, shapes=shapes), bio.getvalue(), want))
            else:
                if h.version.minor < 4:
                    continue
                base = lasio.write_las(h, chunks[0], VLRList([lasio.rand_vlr(rng) for _ in range(rng.choice([1, 2]))]))
                bio = io.BytesIO(base)
                edit = edits[(it // 4) % 4]
                want = lasio.rec_bytes(chunks[0])
                with laspy.open(bio, mode="a", closefd=False) as ap:
                    if edit == "append":
                        ap.evlrs.append(lasio.rand_vlr(rng))
                    elif edit == "pop":
                        ap.evlrs.pop()
                    elif edit == "clear":
                        ap.evlrs.clear()
                    else:
                        ap.evlrs = VLRList([lasio.rand_vlr(rng) for _ in range(rng.choice([1, 3]))])
                    for c in chunks[1:]:
                        ap.append_points(c)
                        want += lasio.rec_bytes(c)
                out.append((f"append session with the EVLR list edited ({edit})", dict(desc, edit=edit), bio.getvalue(), want))
        except Exception as ex:
            out.append((f"session raised ({mode}): {type(ex).__name__}", dict(desc, mode=mode), b"", None))
    return out


def search(ctx, seeds):
    failing, seen = [], set()

    def add(kind, inp, why):
        if kind not in seen:
            seen.add(kind)
            failing.append({"kind": kind, "input": inp, "observed": why})
    for s in c04.sessions_for(ctx):
        iouts, raw, _, _ = s["run"]
        if iouts and iouts[0].startswith("open-err"):
            continue
        try:
            probs = sessions.stats_oracle(raw)
        except Exception as ex:
            probs = [f"the produced file cannot be read: {type(ex).__name__}: {ex}"]
        if probs:
            add("writer file: " + probs[0].split(" ")[0], c04.describe(s), "; ".join(probs[:3]))
    for a in c06.sessions_for(ctx):
        if a.get("final") is None:
            continue
        try:
            probs = sessions.stats_oracle(a["final"])
        except Exception as ex:
            probs = [f"the appended file cannot be read: {type(ex).__name__}: {ex}"]
        if probs:
            add("appended file: " + probs[0].split(" ")[0], a["desc"], "; ".join(probs[:3]))
    for kind, desc, raw, want in faulted_sessions(ctx):
        ctx.case(("faulted", raw), nontrivial=True)
        ctx.count("faulted/edited sessions")
        try:
            probs = sessions.stats_oracle(raw)
            if not probs and want is not None:
                import laspy
                got = lasio.rec_bytes(laspy.read(io.BytesIO(raw)).points)
                if got != want:
                    probs = [f"records: the file holds {len(got)} bytes of records, the accepted chunks are {len(want)} bytes"]
        except Exception as ex:
            probs = [f"the produced file cannot be read: {type(ex).__name__}: {ex}"]
        if probs:
            add(kind + ": " + probs[0].split(" ")[0], desc, "; ".join(probs[:3]))
    for label, las in (_INMEM if _INMEM is not None else inmem_cases(ctx)):
        if type(las).__name__ != "LasData":
            add("indexing a LasData did not return a LasData", {"op": label}, f"{label} returned a {type(las).__name__}: there is no header kept in sync with the selected points")
            continue
        probs = header_stats_problems(las.header, las.points)
        if probs:
            add("in-memory header after " + label.split("[")[0] + ": " + probs[0].split(" ")[0], {"op": label, "points": len(las.points), "version": str(las.header.version), "format": las.header.point_format.id}, "; ".join(probs[:3]))
    return failing[:8]


def replay(ctx, data):
    print("replay: re-run ./check C03 with the same VERIF_SEED; the failing case is described in the file")
    return 0
