"""C18 — stream ownership (closefd) is honoured on every path, including failures.

Model: Model/Ownership.v interpreting Gen/GenOwnership.v (the except clauses of open_las, the close methods, the lazily created
point source, LasData._write_to's closefd, the stream operations of header reading; all regenerated from the source).
Correspondence: the complete matrix modes x closefd x source kinds (among them a non-seekable stream and a source that offers
only read(): no seekable/seek/tell attribute at all) x outcomes x files (+-points, +-EVLRs) x bodies x ways of
letting go, LasData.write and laspy.read matrices, contents that fail AFTER a successful open (point area cut inside a record,
EVLRs that cannot be decoded: at opening or in read() depending on where they are loaded), streams handed over at a position
other than 0 (the LAS content starts where the stream stands), plus random multi-session histories; after every event the result class,
`stream.closed`, the position of the CALLER's stream object (read sessions) and the kind of the lazily created point source are
compared with the extracted model.
Search: the property stated on the implementation only (no model): whenever laspy lets go of a stream that was open when it got
it, `stream.closed == closefd`; LasData.write leaves it open; right after a successful open for reading the caller's stream
stands offset_to_point_data bytes after where it stood and the first read_points returns the file's first records; a stream left open stays open and
usable after the handle is dropped and the garbage collector has run.
Sources by CAPABILITY (both passes): next to BytesIO, a buffered and a raw file and the three doubles (seekable, not seekable, read()
only), the same three doubles WITHOUT a `closed` attribute (a minimal file-like object; whether laspy closed it is read off its close
counter), through the whole matrix. Handles that are DROPPED (both passes; event G, model EDrop): after any body - nothing, points
read, a seek, the point source created, points written / appended, a failed read - the reader / writer / appender is neither closed
nor left through a with statement: the caller forgets it, gc.collect() runs; for every mode, closefd, source kind, also on LAZ-flagged
files, after stream faults, in random histories (the stream is then used again). Oracle: a stream handed over with closefd=False is
not closed by that either (closefd=True: the property does not say when; the model - no finalizer - says the stream is untouched).
CLOSED TWICE (both passes; events C2 / Wc, model EReclose / EUseClosed): after every way of ending a session the same object is closed
again (close() or `with obj: pass`), once or twice, and a closed writer / appender is given points, in every mode, closefd and source
kind, in random histories and under stream faults: the stream is still closed iff closefd (an appender's second close does nothing,
its flag LasAppender.closed is set; points given to it are refused).
Stream faults (both passes): laspy is handed a proxy of the caller's stream on which the k-th call of
read/readinto/seek/tell/write/flush/truncate since laspy got it raises (once, or from then on), for EVERY k of the session - while
opening, under read_points / read / seek / chunk_iterator / read_evlrs / write_points / append_points / write_evlrs, inside
close() / __exit__, inside laspy.read and LasData.write - with OSError and ten other classes (one of them not an Exception);
a fault under a body operation is followed by the rest of the session (caught inside the with block, then normal exit or close())
and by the exception leaving the with block. The oracle is the same iff at every moment laspy lets go of the stream; the model
is told which event the fault came out of (outcome fault-<class>, EOpFault, EEndFault, EReadLasFault) and compared as usual.
LAZ-flagged files (both passes): a valid LAZ header (bit 7 of the point format id, a laszip VLR) with and without points / EVLRs,
in five environments in which the LAZ point reader cannot be built (laz_backend left out - no backend is installed -, an empty
tuple, the unavailable backends, a backend double whose create_reader raises a RuntimeError / a LaspyException): the open must
succeed and leave the stream at the first point record (the point source is lazy), read_points / read / seek / .point_source /
chunk iteration fail, and every way of ending - with-exit, close(), a user exception, the exception of the failed read leaving the
with block, IndexError from seek, laspy.read, a refused appender, a second session on the stream that was left open - must honour
closefd. Position after open (both passes): files whose offset_to_point_data is next to 64 KiB, 1 MiB, 227 + 1 MiB (+-1, +375 ..),
2-8 MiB and multiples of io.DEFAULT_BUFFER_SIZE - unused bytes before the first point record - or whose VLR block is that big
(17 x 65535 bytes, 1200 x 900 bytes ..), in every run one beyond 227 + 1 MiB of each sort, on every source kind, content at byte 0
or 64 of the stream: the stream stands at the first point record and the first read_points returns the file's first records."""
import gc
import io
import os
import random
import shutil
import struct
import sys
import zlib

from harness import common, lasio

DRIVER = "c18"
ASSUMPTIONS = [
    "no LAZ backend is installed: LAZ-flagged files are run in the environments in which their point reader cannot be built (the "
    "model is told the class of the exception building it raises: f_laz); a LAZ point reader that CAN be built - its own reads, "
    "seeks and close - is outside the model and the generator. An empty LAZ-flagged file with EVLRs is generated on every source "
    "(read() raises on a source that cannot seek: the open finding of C14/C17; here only the closing is judged). One laspy handle per "
    "stream at a time. A SECOND close (close() / a with-exit once more on the object that was just closed; events C2) and points given "
    "to a closed writer / appender (Wc) are run for every mode: the oracle judges the stream (still closed iff closefd), the model "
    "(EReclose / EUseClosed over gen_close_*_again, gen_use_after_close) is compared on the stream and - reader, appender - on the "
    "result; what the second close of a WRITER returns (it rewrites its header into the stream once more) is not modelled. A handle that is dropped without close() and collected (event G): the oracle judges "
    "closefd=False (the stream must stay open); with closefd=True the property does not say whether / when the stream is closed, the "
    "model (no class has a finalizer: gen_only_close_closes) says it is left as it is and the correspondence compares that",
    "the stream's close(), closed and seekable() do not fail; its read/readinto/seek/tell/write/flush/truncate may (injected faults: "
    "the k-th such call of the session raises, once or from then on). The non-seekable double refuses seek/tell; the read-only source "
    "has read/close/closed and no other attribute: asking it `x.seekable()` is an AttributeError, which the model predicts from the "
    "way the source asks",
    "after an injected fault positions and read counts are not compared any more; a session in which a body operation follows "
    "a fault, and sessions that call reader.read_evlrs() directly, are judged by the oracle only (the model has no words for them); "
    "the model is told under which event a fault came out as an exception and of which class; which statement of a close method "
    "raised is not observed (the model is given the first fault point: all fault points of one generated close method carry the same "
    "close actions in the source as it is and with the close action in a finally)",
    "positions are modelled and compared for read sessions only; write/append sessions are compared on closed/open and result class",
    "a LAS content that starts at a position other than 0 of a SEEKABLE stream is generated without EVLRs only: LasHeader.read_evlrs and "
    "the point reader's seek use the header's absolute offsets (they would look at other bytes); non-seekable streams and read-only "
    "sources take every file there",
    "once read() has failed on undecodable EVLRs of a stream that cannot seek, the stream stands somewhere inside them and a second "
    "read() would decode whatever bytes follow: not generated (on a stream that can seek the second read() seeks back and fails again: generated)",
    "late failures are generated for read sessions and laspy.read (append mode reads the same header but is compared on open/closed only)",
    "mode 'w' on a non-seekable destination (or one that has no seekable()) is refused by an assertion placed before the try block: that exit is outside the "
    "failures the property lists (invalid content, unusable header) and is stated separately (C18_w_nonseekable_untouched)",
]

SCRATCH = f"/var/tmp/c18_{os.getpid()}"
OUTCOMES = ["ok", "empty", "badsig", "trunc", "badvlr", "incompat"]
LATE = ["cutrec", "badevlr"]      # the header is fine, reading fails later (model outcome: ok, with the facts of the content)
PRE = bytes((i * 37 + 11) % 251 for i in range(4096))      # what a stream holds before the LAS content, when something does
# sources by CAPABILITY. The last three are the doubles again WITHOUT a `closed` attribute (a minimal file-like object: read [write
# seek tell seekable flush] and close, nothing else; asking it for `closed` is an AttributeError): whether laspy closed them is read
# off their close counter
KINDS = ["bytesio", "file", "rawfile", "double", "double_ns", "double_ro", "nc_double", "nc_double_ns", "nc_ro"]
NC_KINDS = ("nc_double", "nc_double_ns", "nc_ro")
FILES = [("1.2", 3, 0, 0), ("1.2", 1, 3, 0), ("1.4", 6, 0, 1), ("1.4", 7, 3, 2), ("1.4", 6, 2, 0), ("1.1", 0, 1, 0)]


# ---------------------------------------------------------------------------------
# stream double
# ---------------------------------------------------------------------------------
class StreamDouble:
    """A minimal binary stream that is not an io.IOBase: read/write/seek/tell/seekable/flush/close/closed only
    (no readinto, no context manager), optionally non-seekable; counts the bytes consumed and the close calls."""

    def __init__(self, data=b"", seekable=True):
        self._b = io.BytesIO(data)
        self._seekable = seekable
        self._shut = False
        self.close_calls = 0
        self.count = 0

    closed = property(lambda self: self._shut)

    def _chk(self):
        if self._shut:
            raise ValueError("I/O operation on closed file.")

    def read(self, n=-1):
        self._chk()
        d = self._b.read(n)
        self.count += len(d)
        return d

    def write(self, b):
        self._chk()
        n = self._b.write(b)
        self.count += n
        return n

    def seekable(self):
        self._chk()
        return self._seekable

    def seek(self, pos, whence=0):
        self._chk()
        if not self._seekable:
            raise io.UnsupportedOperation("seek")
        r = self._b.seek(pos, whence)
        self.count = r
        return r

    def tell(self):
        self._chk()
        if not self._seekable:
            raise io.UnsupportedOperation("tell")
        return self._b.tell()

    def flush(self):
        self._chk()

    def close(self):
        self.close_calls += 1
        self._shut = True

    def position(self):
        return self._b.tell()

    def getvalue(self):
        return self._b.getvalue()


def _no_closed_attribute(self):
    raise AttributeError(f"'{type(self).__name__}' object has no attribute 'closed'")


class StreamDoubleNC(StreamDouble):
    """the same stream double without a `closed` attribute (hasattr(x, "closed") is False)"""
    closed = property(_no_closed_attribute)


class ReadOnlySource:
    """A source that offers only read(): no seekable, seek, tell, readinto, write, flush (asking for any of them is an
    AttributeError). close/closed are what the property is about; counts the close calls."""

    def __init__(self, data=b""):
        self._b = io.BytesIO(data)
        self._shut = False
        self.close_calls = 0

    closed = property(lambda self: self._shut)

    def read(self, n=-1):
        if self._shut:
            raise ValueError("I/O operation on closed file.")
        return self._b.read(n)

    def close(self):
        self.close_calls += 1
        self._shut = True

    def position(self):
        return self._b.tell()


class ReadOnlySourceNC(ReadOnlySource):
    """read() and close(), nothing else: not even a `closed` attribute"""
    closed = property(_no_closed_attribute)


def is_closed(stream):
    """whether the caller's stream has been closed: for the doubles by their close counter (they may have no `closed`
    attribute), for io objects by `closed`"""
    if hasattr(stream, "close_calls"):
        return stream.close_calls > 0
    return stream.closed


# ---------------------------------------------------------------------------------
# fault injection: the k-th stream operation of the session fails
# ---------------------------------------------------------------------------------
FAULT_OPS = ("read", "readinto", "seek", "tell", "write", "flush", "truncate")


class StreamAbort(BaseException):
    """what a stream operation raises when the process is being interrupted: not an Exception (KeyboardInterrupt-like)"""


def fault_class(name):
    import laspy
    return {"OSError": OSError, "TimeoutError": TimeoutError, "UnsupportedOperation": io.UnsupportedOperation,
            "ValueError": ValueError, "EOFError": EOFError, "RuntimeError": RuntimeError, "MemoryError": MemoryError,
            "AttributeError": AttributeError, "IndexError": IndexError, "LaspyException": laspy.errors.LaspyException,
            "StreamAbort": StreamAbort}[name]


FAULT_CLASSES = ["OSError", "ValueError", "StreamAbort", "LaspyException", "AttributeError", "UnsupportedOperation", "MemoryError",
                 "EOFError", "RuntimeError", "TimeoutError", "IndexError"]
CATCH = (Exception, StreamAbort)


class FaultProxy:
    """What laspy is handed instead of the caller's stream when faults are injected: every attribute is the stream's own (an
    attribute the stream does not have is missing here too), but the k-th call of one of FAULT_OPS since laspy got the object
    raises (and, for a sticky fault, every later one does: the device is gone). close()/closed are the stream's own: what the
    harness looks at is the stream itself. k = 0: nothing fails, the operations are only logged."""

    def __init__(self, inner, k, exc, sticky):
        self._inner = inner
        self._k = k
        self._exc = exc
        self._sticky = sticky
        self._n = 0
        self._oplog = []
        self._raised = 0
        self._tag = None
        self._stacks = []       # per fault raised: the names of the functions on the call stack

    def __getattr__(self, name):
        a = getattr(self._inner, name)
        if name in FAULT_OPS and callable(a):
            def op(*args, **kw):
                self._n += 1
                self._oplog.append((self._tag, name))
                if self._k and (self._n == self._k or (self._sticky and self._n > self._k)):
                    self._raised += 1
                    fr, names = sys._getframe(1), []
                    while fr is not None and len(names) < 60:
                        names.append(fr.f_code.co_name)
                        fr = fr.f_back
                    self._stacks.append(names)
                    raise fault_class(self._exc)(f"injected fault: {name} #{self._n}")
                return a(*args, **kw)
            return op
        return a


# ---------------------------------------------------------------------------------
# contents
# ---------------------------------------------------------------------------------
_BASE = {}


class KeepOpen(io.BytesIO):
    def close(self):
        pass


def variant_of(spec):
    """the optional fifth component of a file spec:
       "laz"            the points are FLAGGED as compressed (bit 7 of the point format id, a laszip VLR): a valid LAZ header; the
                        point area is never decoded (no backend can be used: see LAZ_ENVS)
       "off<T>"         offset_to_point_data is T: unused bytes (extra_vlr_bytes) between the VLRs and the first point record
       "vlrs<m>x<p>"    m more VLRs of p payload bytes each: the header + VLR block is that much bigger"""
    spec = tuple(spec)
    v = spec[4] if len(spec) > 4 else ""
    out = {"laz": v == "laz", "off": None, "vlrs": None}
    if v.startswith("off"):
        out["off"] = int(v[3:])
    elif v.startswith("vlrs"):
        m, p_ = v[4:].split("x")
        out["vlrs"] = (int(m), int(p_))
    elif v not in ("", "laz"):
        raise ValueError(spec)
    return out


def is_laz_spec(spec):
    return len(spec) > 4 and spec[4] == "laz"


def base_file(spec):
    """a well-formed LAS file for spec = (version, fmt, npoints, nevlrs[, variant]); one VLR so that it can be made undecodable"""
    spec = tuple(spec)
    if spec in _BASE:
        return _BASE[spec]
    import laspy
    version, fmt, n, nev = spec[:4]
    var = variant_of(spec)
    rng = random.Random(zlib.crc32(repr(spec[:4]).encode()))
    pts0 = ev = None

    def write(pad):
        nonlocal pts0, ev
        h = laspy.LasHeader(version=version, point_format=fmt)
        h.vlrs.append(laspy.VLR(user_id="c18user", record_id=7, description="d", record_data=b"payload"))
        if var["vlrs"]:
            m, p_ = var["vlrs"]
            for i in range(m):
                h.vlrs.append(laspy.VLR(user_id="c18big", record_id=i % 65536, description="v%d" % i, record_data=bytes([(i * 7 + 1) % 256]) * p_))
        if var["laz"]:
            h.vlrs.append(laspy.VLR(user_id="laszip encoded", record_id=22204, description="http://laszip.org", record_data=b"\0" * 52))
        if pad:
            unit = bytes((j * 31 + 5) % 256 for j in range(4096))
            h.extra_vlr_bytes = (unit * (pad // 4096 + 1))[:pad]
        if pts0 is None:
            pts0 = lasio.rand_points(rng, h, n, pattern="random")
            ev = laspy.vlrs.vlrlist.VLRList([laspy.VLR(user_id="ev", record_id=i, description="e", record_data=bytes(range(5 + i)))
                                             for i in range(nev)])
        bio = KeepOpen()          # the contents must come out even when the writer under test closes what it should not
        w = laspy.LasWriter(bio, h, closefd=False)
        if n:
            w.write_points(pts0)
        if nev:
            w.write_evlrs(ev)
        w.close()
        return bio.getvalue()
    raw = write(0)
    if var["off"] is not None:
        off0 = struct.unpack_from("<I", raw, 96)[0]
        if var["off"] < off0:
            raise ValueError(f"{spec}: the header and the VLRs alone take {off0} bytes")
        raw = write(var["off"] - off0)
        assert struct.unpack_from("<I", raw, 96)[0] == var["off"], spec
    if var["laz"]:
        b = bytearray(raw)
        b[104] |= 0x80
        raw = bytes(b)
    _BASE[spec] = raw
    return raw


def applicable(spec, outcome):
    if outcome == "cutrec":
        return spec[2] > 0 and spec[3] == 0
    if outcome == "badevlr":
        return spec[3] > 0
    return True


def finfo_of(raw, base=0):
    """the facts the model's positions depend on, parsed from the bytes (not through laspy); base = where the content
    starts in the stream"""
    minor = raw[25]
    hsize = struct.unpack_from("<H", raw, 94)[0]
    offset = struct.unpack_from("<I", raw, 96)[0]
    psize = struct.unpack_from("<H", raw, 105)[0]
    count = struct.unpack_from("<I", raw, 107)[0]
    nev = ev_start = 0
    if minor >= 4:
        ev_start = struct.unpack_from("<Q", raw, 235)[0]
        nev = struct.unpack_from("<I", raw, 243)[0]
        count = struct.unpack_from("<Q", raw, 247)[0]
    bad = 0
    if nev and ev_start + 18 <= len(raw):
        uid = raw[ev_start + 2:ev_start + 18].split(b"\0")[0]
        bad = int(any(c >= 0x80 for c in uid))
    return {"offset": offset, "count": count, "psize": psize, "minor": minor, "nevlrs": nev, "evlr_start": ev_start,
            "evlr_bytes": max(0, len(raw) - ev_start) if nev else 0, "size": base + len(raw), "hsize": hsize, "evlr_bad": bad,
            "laz": 0, "flagged": bool(raw[104] & 0x80)}


def finfo_tok(fi):
    return ",".join(str(fi[k]) for k in ("offset", "count", "psize", "minor", "nevlrs", "evlr_start", "evlr_bytes", "size", "evlr_bad", "laz"))


ZERO_FI = {"offset": 0, "count": 0, "psize": 0, "minor": 0, "nevlrs": 0, "evlr_start": 0, "evlr_bytes": 0, "size": 0, "hsize": 0,
           "evlr_bad": 0, "laz": 0, "flagged": False}


# ---------------------------------------------------------------------------------
# LAZ-flagged files: environments in which the LAZ point reader cannot be built
# ---------------------------------------------------------------------------------
class FailingBackend:
    """stands for a LAZ backend that is available but whose reader / appender cannot be built on this file (a damaged chunk
    table, say): create_reader and create_appender raise"""
    supports_append = True

    def __init__(self, exc):
        self._exc = exc

    def is_available(self):
        return True

    def create_reader(self, source, header, decompression_selection=None):
        raise self._exc("this backend cannot decode the file")

    def create_appender(self, dest, header):
        raise self._exc("this backend cannot append to the file")

    def __repr__(self):
        return f"FailingBackend({self._exc.__name__})"


# scenario key "laz": what the caller gives as laz_backend (key absent / None: the argument is left out)
LAZ_ENVS = [None, "empty", "unavailable", "fail-o", "fail-l"]


def laz_kwargs(env):
    """-> (keyword arguments for laspy.open / laspy.read, model code of the exception building the LAZ point reader raises:
    1 LaspyException, 2 another Exception); None when the environment cannot be had here (a backend is installed)"""
    import laspy
    if env is None:
        return (None if laspy.LazBackend.detect_available() else ({}, 1))
    if env == "empty":
        return {"laz_backend": ()}, 1
    if env == "unavailable":
        un = [b for b in laspy.LazBackend if not b.is_available()]
        return ({"laz_backend": un}, 1) if un else None
    if env == "fail-o":
        return {"laz_backend": [FailingBackend(RuntimeError)]}, 2
    if env == "fail-l":
        return {"laz_backend": [FailingBackend(laspy.errors.LaspyException)]}, 1
    raise ValueError(env)


def content_for(spec, outcome, variant=0):
    """the bytes a stream holds when it is handed to laspy for reading / appending with the given outcome"""
    raw = base_file(spec)
    if outcome == "ok":
        return raw
    if outcome == "empty":
        return b""
    if outcome == "badsig":
        return [b"LASX", b"\0\0\0\0", b"lasf", b"FSAL"][variant % 4] + raw[4:]
    if outcome == "trunc":
        return raw[:[226, 100, 5, 4][variant % 4]]
    fi = finfo_of(raw)
    if outcome == "cutrec":          # the point area ends inside a record (nothing after it)
        k = variant % fi["count"]
        j = 1 + (variant // 7) % (fi["psize"] - 1)
        return raw[:fi["offset"] + k * fi["psize"] + j]
    if outcome == "badevlr":         # the user id of the first EVLR is not ASCII
        b = bytearray(raw)
        at = fi["evlr_start"] + 2
        b[at:at + 4] = [b"\xff\xfe\xfd\xfc", b"\x80abc", b"\xc3\x28zz", b"\xf8\x88\x80\x80"][variant % 4]
        return bytes(b)
    if outcome == "badvlr":
        b = bytearray(raw)
        at = fi["hsize"] + 2          # user_id of the first VLR
        b[at:at + 4] = [b"\xff\xfe\xfd\xfc", b"\x80abc", b"\xc3\x28zz", b"\xf8\x88\x80\x80"][variant % 4]
        return bytes(b)
    if outcome == "incompat":
        b = bytearray(raw)
        if variant % 3 == 0:
            b[104] = [11, 63, 50][(variant // 3) % 3]                       # unsupported point format id
        elif variant % 3 == 1:
            b[105:107] = struct.pack("<H", max(1, fi["psize"] - 7))         # point size smaller than the format's
        else:
            b[94:96] = struct.pack("<H", 100)                                # header size smaller than the header
        return bytes(b)
    raise ValueError(outcome)


def writer_header(spec, outcome, variant=0):
    """(header, kwargs) for laspy.open(stream, 'w', header=..., **kwargs) / LasData with the given outcome"""
    import laspy
    version, fmt, n, nev = tuple(spec)[:4]
    kw = {}
    if outcome == "incompat":
        h = incompatible_header()
        if h is None:
            h = laspy.LasHeader(version=version, point_format=fmt)
            kw = {"do_compress": True}      # no LAZ backend can be initialised
        return h, kw
    h = laspy.LasHeader(version=version, point_format=fmt)
    if outcome == "badvlr":
        if variant % 2 == 0:
            h.system_identifier = "été"                            # not encodable as ASCII
        else:
            h.vlrs.append(laspy.VLR(user_id="big", record_id=1, description="", record_data=b"\1" * 70000))
    return h, kw


_INCOMPAT = []


def incompatible_header():
    """a header whose point format does not exist in its version, obtained through the public API: read from a crafted file"""
    import laspy
    if not _INCOMPAT:
        raw = bytearray(base_file(("1.2", 3, 0, 0)))
        raw[104] = 6
        raw[105:107] = struct.pack("<H", 30)
        h = None
        try:
            with laspy.open(io.BytesIO(bytes(raw))) as r:
                h = r.header
            if (h.version.minor, h.point_format.id) != (2, 6):
                h = None
        except Exception:
            h = None
        _INCOMPAT.append(h)
    return _INCOMPAT[0]


def las_data(spec, outcome, variant=0):
    """(LasData, kwargs) for LasData.write(stream, **kwargs)"""
    import laspy
    las = laspy.read(io.BytesIO(base_file(tuple(spec)[:4])))
    kw = {}
    if outcome == "incompat":
        kw = {"do_compress": True}
    elif outcome == "badvlr":
        if variant % 2 == 0:
            las.header.system_identifier = "été"
        else:
            las.vlrs.append(laspy.VLR(user_id="big", record_id=1, description="", record_data=b"\1" * 70000))
    return las, kw


# ---------------------------------------------------------------------------------
# sources
# ---------------------------------------------------------------------------------
_SEQ = [0]


def make_stream_at(kind, data, writable, pos):
    """a stream holding `data`, standing at `pos`"""
    st = make_stream(kind, data, writable)
    if pos:
        if not seekable_kind(kind):
            st._b.seek(pos)          # the caller has consumed what comes first
        else:
            st.seek(pos)
    return st


def make_stream(kind, data, writable):
    if kind == "bytesio":
        return io.BytesIO(data)
    if kind == "double":
        return StreamDouble(data, True)
    if kind == "double_ns":
        return StreamDouble(data, False)
    if kind == "double_ro":
        return ReadOnlySource(data)
    if kind == "nc_double":
        return StreamDoubleNC(data, True)
    if kind == "nc_double_ns":
        return StreamDoubleNC(data, False)
    if kind == "nc_ro":
        return ReadOnlySourceNC(data)
    os.makedirs(SCRATCH, exist_ok=True)
    _SEQ[0] += 1
    p = os.path.join(SCRATCH, f"f{_SEQ[0]}.las")
    with open(p, "wb") as f:
        f.write(data)
    mode = "rb+" if writable else "rb"
    return open(p, mode) if kind == "file" else open(p, mode, buffering=0)


def seekable_kind(kind):
    return kind not in ("double_ns", "double_ro", "nc_double_ns", "nc_ro")


def cap_tok(kind):
    """what the model is told about the stream: it answers seekable() with True | with False | it has no seekable attribute"""
    return "T" if seekable_kind(kind) else "A" if kind in ("double_ro", "nc_ro") else "F"


def set_content(stream, data, pos=0):
    """the caller's own preparation of a seekable, writable stream before the next session"""
    stream.seek(0)
    stream.truncate() if hasattr(stream, "truncate") else stream._b.truncate()
    if isinstance(stream, StreamDouble):
        stream._b.seek(0)
    stream.write(data)
    stream.seek(pos)


def pos_of(stream, kind):
    if is_closed(stream):
        return None
    if not seekable_kind(kind):
        return stream.position()
    return stream.tell()


# ---------------------------------------------------------------------------------
# scenarios
# ---------------------------------------------------------------------------------
# events (lists, JSON-able):
#  ["O", mode, closefd, read_evlrs, outcome, variant]   laspy.open
#  ["P", n] ["S", pos, whence] ["A"] ["Q"] ["W"]         body operations
#  ["We"]                write_evlrs (mode w on a 1.4 header; otherwise the same as W); nothing is written after it
#  ["B", "l"|"o"]        the with-body raises a LaspyException / a RuntimeError of the user
#  ["Wbad"]              the with-body calls write_points/append_points with another point format (LaspyException from laspy)
#  ["Sbad"]              the with-body seeks past the end (IndexError from laspy)
#  ["X"] ["C"]           normal exit of the with statement / explicit close()
#  ["C2", "c"|"x"]       the object that was just closed (by X, C, B, ..) is closed AGAIN: close() | `with obj: pass`
#  ["Wc"]                write_points / append_points on the writer / appender that was just closed
#  ["G"]                 the handle is DROPPED: no close(), no with statement - the caller forgets the reader / writer / appender (and
#                        whatever it got from it), the garbage collector runs; the stream is the caller's and may be used again
#  ["D", outcome, variant]            LasData.write(stream)
#  ["L", closefd, outcome, variant]   laspy.read(stream, closefd=)
#  ["N"]                 the caller refills the (seekable, writable) stream for the next session and rewinds it
# scenario key "pre": p > 0 = the stream holds p other bytes first and stands at p when laspy gets it (and after every N)
def model_outcome(o):
    return "ok" if o in LATE else o


def ev_tok(ev, fi, pre=0):
    k = ev[0]
    tf = lambda b: "T" if b else "F"
    if k == "O":
        return f"O{ev[1]}{tf(ev[2])}{tf(ev[3])}:{model_outcome(ev[4])}:{finfo_tok(fi)}"
    if k == "P":
        return f"P{ev[1]}"
    if k == "S":
        return f"S{ev[1]}:{ev[2]}"
    if k in ("A", "Q", "W", "X", "C", "G"):
        return k
    if k == "We":
        return "W"
    if k == "B":
        return "B" + ev[1]
    if k == "Wbad":
        return "Bl"
    if k == "Sbad":
        return "Bo"
    if k == "D":
        return "D" + ev[1]
    if k == "L":
        return f"L{tf(ev[1])}:{model_outcome(ev[2])}:{finfo_tok(fi)}"
    if k == "N":
        return f"Z{pre}"
    raise ValueError(ev)


class UserError(RuntimeError):
    pass


def model_tokens(sc, steps, fis):
    """the model events that tell the scenario as laspy ran it: one list of tokens per event (the model's last step of the
    group is compared with what laspy did), or None when the model has no words for it (judged by the oracle only).
    What the stream did is the environment's choice: an event under which an injected fault came out as an exception is told
    to the model as such (outcome fault-<class> of an open, F<class> for an operation on the handle, Y.. for a close method)."""
    pre = sc.get("pre", 0)
    out = []
    dirty = False          # a stream fault has happened in this session: positions and read counts are not known any more
    spec = sc["file"]
    zero = finfo_tok(ZERO_FI)
    tf = lambda b: "T" if b else "F"
    for ev, st, fi in zip(sc["events"], steps, fis):
        k = ev[0]
        faulted = bool(st.get("faulted"))
        came_out = faulted and st["res"] in ("xl", "xo", "xb")
        c = st["res"][1] if came_out else None
        if st["res"] == "ig":
            out.append([ev_tok(ev, fi, pre)] if k not in ("I", "E", "Bf", "C2", "Wc") else ["X" if k == "Bf" else "Q"])
            continue
        if k == "E":
            return None
        if k in BODY_OPS and dirty:
            return None
        if k in ("C2", "Wc"):
            if faulted:
                return None         # a stream fault under a second close / a write after close: judged by the oracle only
            m_, cf_ = st["prev"]
            if k == "Wc":
                out.append([f"U{m_}"])
            else:
                ps = {"n": "n", "r": "rT", "e": "eT"}.get(st.get("prev_ps"))
                if ps is None:
                    return None
                out.append([f"R{m_}{tf(cf_)}:{ps}"])
            continue
        if k == "N":
            dirty = False
        if faulted:
            dirty = True
        if k == "O" and came_out:
            out.append([f"O{ev[1]}{tf(ev[2])}{tf(ev[3])}:fault-{c}:{zero}"])
        elif k == "I":
            n = ev[1]
            if n <= 0 or "pr0" not in st or (st["res"] != "ok" and not came_out) or ev_outcome(sc, ev) != "ok":
                return None
            if came_out:
                out.append([f"P{n}"] * ((st["pr1"] - st["pr0"]) // n) + [f"F{c}"])
            else:
                left = max(0, spec[2] - st["pr0"])
                out.append([f"P{n}"] * (-(-left // n) + 1))
        elif k in BODY_OPS and came_out:
            out.append([f"F{c}"])
        elif k in ("X", "C", "B", "Bf", "Wbad", "Sbad") and came_out:
            out.append([f"Y{'c' if k == 'C' else 'x'}0:{c}"])
        elif k == "Bf":
            out.append(["B" + st["res"][1]] if st["res"] != "ok" else ["X"])
        elif k == "L" and came_out:
            out.append([f"M{tf(ev[1])}:{c}:{finfo_tok(fi)}"] if st.get("fault_under_read") else [f"L{tf(ev[1])}:fault-{c}:{zero}"])
        elif k == "D" and came_out:
            out.append([f"Dfault-{c}"])
        else:
            out.append([ev_tok(ev, fi, pre)])
    return out


def ev_outcome(sc, ev):
    """the outcome of the session the event belongs to"""
    evs = sc["events"]
    i = next(j for j, e in enumerate(evs) if e is ev)
    for e in reversed(evs[:i + 1]):
        if e[0] == "O":
            return e[4]
    return "ok"


def res_class(ex):
    import laspy
    if ex is None:
        return "ok"
    if not isinstance(ex, Exception):
        return "xb"
    return "xl" if isinstance(ex, laspy.errors.LaspyException) else "xo"


def ps_tok(handle):
    missing = object()
    ps = getattr(handle, "_point_source", missing)
    if ps is missing:
        return None
    if ps is None:
        return "n"
    return {"UncompressedPointReader": "r", "EmptyPointReader": "e"}.get(type(ps).__name__, "?")


PHASE = {"O": "open", "P": "read_points", "A": "read", "S": "seek", "Q": "point_source", "I": "chunk_iterator", "E": "read_evlrs",
         "W": "write_points", "We": "write_evlrs", "X": "close", "C": "close", "B": "close", "Bf": "close", "Wbad": "close",
         "Sbad": "close", "D": "LasData.write", "L": "laspy.read", "G": "dropping the handle", "C2": "a second close", "Wc": "writing after close"}
BODY_OPS = ("P", "S", "A", "Q", "I", "E", "W", "We")
NEED_HANDLE = BODY_OPS + ("X", "B", "Bf", "Wbad", "Sbad", "C", "G")


def run_impl(scen):
    """Runs the scenario on laspy. Returns (steps, gone, stream_info): steps[i] = dict(res, closed, pos, ps, mode, extra...) after
    event i; gone = list of dict(how, mode, outcome, closefd, was_open, closed, at) for every moment laspy lets go of the stream.
    scen["fault"] = [k, exception class, sticky]: laspy is handed a FaultProxy of the stream (k = 0: operations are only logged)."""
    import laspy
    kind = scen["src"]
    spec = tuple(scen["file"])
    events = scen["events"]
    first = events[0]
    # initial content: what the first session needs
    init = initial_content(spec, events)
    pre = scen.get("pre", 0)
    writable = scen.get("writable", True) or first[0] in ("D",) or (first[0] == "O" and first[1] in "wa")
    stream = make_stream_at(kind, PRE[:pre] + init, writable, pre)
    fault = scen.get("fault")
    lazkw, lazcode = laz_kwargs(scen.get("laz")) or ({}, 1)

    def facts(content_):
        # the facts of the content, and - the file being LAZ-flagged - what building its point reader raises in this environment
        f_ = finfo_of(content_, pre)
        if f_["flagged"]:
            f_["laz"] = lazcode
        return f_
    proxy = FaultProxy(stream, int(fault[0]), fault[1], bool(fault[2])) if fault else None
    given = proxy if proxy is not None else stream      # what laspy gets; the harness itself looks at `stream`
    handle = None
    sess = None          # dict(mode, closefd)
    content = init
    steps, gone = [], []
    pos_valid = True
    fis = []
    last_ex = None       # what the last body operation of the session raised
    rec = las = None
    prev = prev_sess = None     # the object that was closed last (the caller still holds it) and its session
    fault_phase = None   # the public operation under which the latest injected fault was raised
    for i, ev in enumerate(events):
        k = ev[0]
        ex = None
        info = {}
        fi = ZERO_FI
        was_open = not is_closed(stream)
        if k in ("O", "N", "D", "L", "G"):
            prev = prev_sess = None
        if k in ("C2", "Wc") and (prev is None or (k == "Wc" and prev_sess["mode"] == "r")):
            fis.append(fi)
            steps.append({"res": "ig", "exc": None, "closed": is_closed(stream), "pos": None, "ps": None, "handle": False})
            continue
        if handle is None and k in NEED_HANDLE:
            # the open that should have given a handle did not: nothing to operate on (the open itself is what disagrees)
            fis.append(fi)
            steps.append({"res": "ig", "exc": None, "closed": is_closed(stream), "pos": None, "ps": None, "handle": False})
            continue
        raised0 = proxy._raised if proxy is not None else 0
        ngone0 = len(gone)
        if proxy is not None:
            proxy._tag = i
        if k == "N":
            content = content_for_next(spec, events, i)
            try:
                set_content(stream, PRE[:pre] + content, pre)
                pos_valid = True
            except Exception as e:  # noqa
                ex = e
        elif k == "O":
            mode, cf, re, outcome, variant = ev[1], ev[2], ev[3], ev[4], ev[5]
            kw = {}
            if mode == "w":
                hdr, kw = writer_header(spec, outcome, variant)
                kw["header"] = hdr
            else:
                if outcome in ["ok"] + LATE and was_open:
                    fi = facts(content)
                if mode == "r":
                    kw["read_evlrs"] = re
                kw.update(lazkw)
            base = pos_of(stream, kind) if (pos_valid and was_open) else None
            last_ex = None
            try:
                handle = laspy.open(given, mode=mode, closefd=cf, **kw)
                sess = {"mode": mode, "closefd": cf, "first_read": mode == "r" and pos_valid, "re": re, "open0": was_open}
                if mode == "r":
                    info["offset_expected"] = (base or 0) + fi["offset"]
                    info["base"] = base
                    info["pos_checked"] = pos_valid
                else:
                    pos_valid = False
            except CATCH as e:  # noqa
                ex = e
                handle = None
                pos_valid = False
                gone.append({"how": "failed-open", "mode": mode, "outcome": outcome, "closefd": cf, "was_open": was_open,
                             "closed": is_closed(stream), "at": i, "exc": type(e).__name__,
                             "precondition": mode == "w" and was_open and not seekable_kind(kind)})
        elif k in BODY_OPS:
            last_ex = None
            try:
                if k == "P":
                    rec = handle.read_points(ev[1])
                    if sess.get("first_read"):
                        info["re"] = sess["re"]
                        info["first_points"] = lasio.rec_bytes(rec)
                        f0 = finfo_of(content)
                        kpts = f0["count"] if ev[1] < 0 else min(ev[1], f0["count"])
                        info["first_points_expected"] = content[f0["offset"]:f0["offset"] + kpts * f0["psize"]]
                elif k == "S":
                    handle.seek(ev[1], ev[2])
                elif k == "A":
                    handle.read()
                elif k == "Q":
                    handle.point_source
                elif k == "I":
                    info["pr0"] = int(handle.points_read)
                    try:
                        for _ in handle.chunk_iterator(ev[1]):
                            pass
                    finally:
                        info["pr1"] = int(handle.points_read)
                elif k == "E":
                    handle.read_evlrs()
                elif k == "We" and sess["mode"] == "w" and handle.header.version.minor >= 4:
                    handle.write_evlrs(laspy.vlrs.vlrlist.VLRList([laspy.VLR(user_id="late", record_id=9, description="", record_data=b"xyz")]))
                else:
                    pts = laspy.PackedPointRecord.zeros(2, handle.header.point_format)
                    handle.write_points(pts) if sess["mode"] == "w" else handle.append_points(pts)
            except CATCH as e:  # noqa
                ex = e
                last_ex = e
                if k in ("P", "A", "I", "E"):
                    pos_valid = False      # a read that failed leaves the stream wherever the failure happened
            sess["first_read"] = False
        elif k in ("X", "B", "Bf", "Wbad", "Sbad"):
            reraised = k == "Bf" and last_ex is not None
            try:
                with handle:
                    if k == "B":
                        raise (laspy.errors.LaspyException("user") if ev[1] == "l" else UserError("user"))
                    if reraised:
                        raise last_ex          # the exception of the last operation leaves the with block
                    if k == "Wbad":
                        other = laspy.PointFormat(0 if handle.header.point_format.id != 0 else 1)
                        pts = laspy.PackedPointRecord.zeros(1, other)
                        handle.write_points(pts) if sess["mode"] == "w" else handle.append_points(pts)
                    if k == "Sbad":
                        handle.seek(int(handle.header.point_count) + 5)
            except CATCH as e:  # noqa
                ex = e
            plain = k == "X" or (k == "Bf" and not reraised)
            gone.append({"how": "exit" if plain else "body-raised", "mode": sess["mode"], "closefd": sess["closefd"],
                         "was_open": sess["open0"], "closed": is_closed(stream), "at": i,
                         "propagated": None if plain else ex is not None})
            prev, prev_sess = handle, sess
            handle = None
            last_ex = None
        elif k == "C2":
            info["prev_ps"] = ps_tok(prev)
            info["prev"] = [prev_sess["mode"], prev_sess["closefd"]]
            info["res_unmodelled"] = prev_sess["mode"] == "w"      # a writer rewrites its header once more: what that returns is not modelled
            try:
                if ev[1] == "x":
                    with prev:
                        pass
                else:
                    prev.close()
            except CATCH as e:  # noqa
                ex = e
            gone.append({"how": "reclose", "mode": prev_sess["mode"], "closefd": prev_sess["closefd"], "was_open": prev_sess["open0"],
                         "closed": is_closed(stream), "at": i})
        elif k == "Wc":
            info["prev"] = [prev_sess["mode"], prev_sess["closefd"]]
            info["res_unmodelled"] = prev_sess["mode"] == "w"
            try:
                pts = laspy.PackedPointRecord.zeros(2, prev.header.point_format)
                prev.write_points(pts) if prev_sess["mode"] == "w" else prev.append_points(pts)
            except CATCH as e:  # noqa
                ex = e
            gone.append({"how": "use-after-close", "mode": prev_sess["mode"], "closefd": prev_sess["closefd"], "was_open": prev_sess["open0"],
                         "closed": is_closed(stream), "at": i, "raised": type(ex).__name__ if ex is not None else None})
        elif k == "C":
            try:
                handle.close()
            except CATCH as e:  # noqa
                ex = e
            gone.append({"how": "close", "mode": sess["mode"], "closefd": sess["closefd"], "was_open": sess["open0"],
                         "closed": is_closed(stream), "at": i})
            prev, prev_sess = handle, sess
            handle = None
            last_ex = None
        elif k == "G":
            # nothing of the session is kept: the handle, the records it handed out, the exception of its last operation (whose
            # traceback holds the frames of the handle's methods)
            had_ps = ps_tok(handle)
            handle = None
            last_ex = rec = las = None
            try:
                gc.collect()
            except CATCH as e:  # noqa
                ex = e
            gone.append({"how": "dropped", "mode": sess["mode"], "closefd": sess["closefd"], "was_open": sess["open0"],
                         "closed": is_closed(stream), "at": i, "ps": had_ps})
        elif k == "D":
            las, kw = las_data(spec, ev[1], ev[2])
            try:
                las.write(given, **kw)
            except CATCH as e:  # noqa
                ex = e
            pos_valid = False
            gone.append({"how": "lasdata-write", "mode": "w", "outcome": ev[1], "closefd": False, "was_open": was_open,
                         "closed": is_closed(stream), "at": i})
        elif k == "L":
            cf, outcome = ev[1], ev[2]
            if outcome in ["ok"] + LATE and was_open:
                fi = facts(content)
            try:
                prepared = pos_valid
                las = laspy.read(given, closefd=cf, **lazkw)
                if prepared and outcome == "ok":
                    info["points_read"] = len(las.points)
                    info["points_expected"] = fi["count"]
            except CATCH as e:  # noqa
                ex = e
                pos_valid = False
            gone.append({"how": "read-las", "mode": "r", "outcome": outcome, "closefd": cf, "was_open": was_open,
                         "closed": is_closed(stream), "at": i})
        else:
            raise ValueError(ev)
        if proxy is not None:
            proxy._tag = None
            if proxy._raised > raised0:
                info["faulted"] = True
                info["fault_under_read"] = "read" in proxy._stacks[raised0]      # LasReader.read is on the stack
                pos_valid = False
                fault_phase = PHASE[k]
                if k == "W" and sess is not None and sess["mode"] == "a":
                    fault_phase = "append_points"
            for g in gone[ngone0:]:
                g["fault_phase"] = fault_phase
        fis.append(fi)
        st = {"res": res_class(ex), "exc": type(ex).__name__ if ex is not None else None, "closed": is_closed(stream),
              "pos": pos_of(stream, kind) if pos_valid else None, "ps": ps_tok(handle) if handle is not None else None,
              "handle": handle is not None}
        st.update(info)
        steps.append(st)
    # the caller's stream must not be owned by anything laspy created: drop every reference, collect, look again
    after = {"open_before_gc": not is_closed(stream)}
    if proxy is not None:
        if proxy._k == 0:
            after["oplog"] = list(proxy._oplog)
        elif proxy._k <= len(proxy._oplog):
            after["hit"] = proxy._oplog[proxy._k - 1]      # (event index, operation) of the one that failed (first)
        after["faults_raised"] = proxy._raised
    handle = prev = None
    las = None
    ex = last_ex = rec = None
    gc.collect()
    after["open_after_gc"] = not is_closed(stream)
    if after["open_before_gc"] and after["open_after_gc"] and seekable_kind(kind):
        try:
            stream.seek(0)
            stream.read(1)
            after["usable"] = True
        except Exception as e:  # noqa
            after["usable"] = False
            after["usable_exc"] = type(e).__name__
    if isinstance(stream, (StreamDouble, ReadOnlySource)):
        after["close_calls"] = stream.close_calls
    name = getattr(stream, "name", None)
    try:
        stream.close()
    except Exception:  # noqa
        pass
    if isinstance(name, str) and name.startswith(SCRATCH):
        try:
            os.remove(name)
        except OSError:
            pass
    return steps, gone, after, fis


def initial_content(spec, events):
    ev = events[0]
    if ev[0] == "O":
        return content_for(spec, ev[4], ev[5]) if ev[1] in "ra" else (b"" if ev[4] in ("ok", "badvlr", "incompat") else content_for(spec, ev[4], ev[5]))
    if ev[0] == "L":
        return content_for(spec, ev[2], ev[3])
    return b""


def content_for_next(spec, events, i):
    """content the caller puts into the stream at an N event: what the next session needs"""
    for ev in events[i + 1:]:
        if ev[0] == "O":
            return initial_content(spec, [ev])
        if ev[0] == "L":
            return content_for(spec, ev[2], ev[3])
        if ev[0] == "D":
            return b""
    return b""


# ---------------------------------------------------------------------------------
# the matrix (enumerated completely) and random histories
# ---------------------------------------------------------------------------------
READ_BODIES = [[], [["P", 2]], [["A"]], [["Q"]], [["S", 0, 0]], [["P", 1], ["A"]], [["P", -1]], [["S", 1, 0], ["P", 1]]]
WRITE_BODIES = [[], [["W"]], [["W"], ["We"]]]
ENDS = [["X"], ["C"], ["B", "o"], ["B", "l"]]


def matrix(ctx):
    scen = []
    files = FILES[:4]
    v = 0
    for kind in KINDS:
        for spec in files:
            for cf in (True, False):
                # ---- failing and succeeding opens, every mode x outcome
                for mode in "rwa":
                    for outcome in OUTCOMES:
                        v += 1
                        op = ["O", mode, cf, True, outcome, v]
                        ok = expect_open_ok(mode, outcome, kind)
                        scen.append({"src": kind, "file": list(spec), "events": [op] + ([["X"]] if ok else [])})
                # ---- read sessions: bodies x ends x preloading
                for re in (True, False):
                    for bi, body in enumerate(READ_BODIES):
                        for ei, end in enumerate(ENDS + [["Sbad"], ["G"]]):
                            if (bi + ei) % 2 and kind in ("file", "rawfile") + NC_KINDS and not ctx.thorough() and not (end == ["G"] and bi in (1, 7)):
                                continue     # files on disk, doubles without `closed`: half of the body x end grid in the quick tier
                            if body and body[0][0] == "S" and spec[2] == 0:
                                continue     # seeking in an empty file is refused before anything happens: same as no body
                            scen.append({"src": kind, "file": list(spec), "writable": False,
                                         "events": [["O", "r", cf, re, "ok", 0]] + body + [end]})
                # ---- a second close of the same object; points given to a closed writer / appender
                for bi, body in enumerate(([], [["P", 2]], [["A"]])):
                    for ei, end in enumerate((["X"], ["C"], ["B", "o"])):
                        if (bi + ei) % 2 and not ctx.thorough():
                            continue
                        scen.append({"src": kind, "file": list(spec), "writable": False,
                                     "events": [["O", "r", cf, True, "ok", 0]] + body + [end, ["C2", "cx"[(bi + ei) % 2]], ["C2", "c"]]})
                if seekable_kind(kind):
                    for mode in "wa":
                        for ei, end in enumerate((["X"], ["C"], ["B", "l"], ["Wbad"])):
                            scen.append({"src": kind, "file": list(spec),
                                         "events": [["O", mode, cf, True, "ok", 0], ["W"], end, ["C2", "cx"[ei % 2]], ["Wc"], ["C2", "c"]]})
                        scen.append({"src": kind, "file": list(spec), "events": [["O", mode, cf, True, "ok", 0], ["C"], ["Wc"], ["C2", "x"]]})
                # ---- write / append sessions
                if seekable_kind(kind):
                    for mode in "wa":
                        for body in WRITE_BODIES:
                            for end in ENDS + [["Wbad"], ["G"]]:
                                scen.append({"src": kind, "file": list(spec), "events": [["O", mode, cf, True, "ok", 0]] + body + [end]})
                # ---- laspy.read
                for outcome in OUTCOMES:
                    v += 1
                    scen.append({"src": kind, "file": list(spec), "writable": False, "events": [["L", cf, outcome, v]]})
            # ---- failures after a successful open (read sessions, laspy.read), and contents that do not start at byte 0
            for cf in (True, False):
                for outcome in LATE:
                    if not applicable(spec, outcome):
                        continue
                    for re in (True, False):
                        for body in ([], [["A"]], [["P", -1]], [["P", 1], ["A"]], [["Q"], ["A"]]):
                            for end in (["X"], ["C"], ["B", "o"], ["G"]):
                                v += 1
                                if v % 2 and kind in ("file", "rawfile") + NC_KINDS and not ctx.thorough():
                                    continue
                                scen.append({"src": kind, "file": list(spec), "writable": False,
                                             "events": [["O", "r", cf, re, outcome, v]] + body + [end]})
                    v += 1
                    scen.append({"src": kind, "file": list(spec), "writable": False, "events": [["L", cf, outcome, v]]})
                if spec[3] == 0 or not seekable_kind(kind):
                    for pre in (1, 64, 300):
                        for re in (True, False):
                            scen.append({"src": kind, "file": list(spec), "writable": False, "pre": pre,
                                         "events": [["O", "r", cf, re, "ok", 0], ["P", 2], ["A"], ["X"]]})
                            scen.append({"src": kind, "file": list(spec), "writable": False, "pre": pre,
                                         "events": [["O", "r", cf, re, "ok", 0], ["C"]]})
                        scen.append({"src": kind, "file": list(spec), "writable": False, "pre": pre, "events": [["L", cf, "ok", 0]]})
                        for outcome in OUTCOMES[1:] + LATE:
                            if applicable(spec, outcome):
                                v += 1
                                scen.append({"src": kind, "file": list(spec), "writable": False, "pre": pre,
                                             "events": [["L", cf, outcome, v]]})
            # ---- LasData.write
            if seekable_kind(kind):
                for outcome in ("ok", "incompat", "badvlr"):
                    v += 1
                    scen.append({"src": kind, "file": list(spec), "events": [["D", outcome, v]]})
                    scen.append({"src": kind, "file": list(spec), "events": [["D", outcome, v], ["N"], ["L", False, "ok", 0], ["D", "ok", 0]]})
    return scen


# ---- LAZ-flagged files in an environment where the LAZ point reader cannot be built: the open succeeds (the point source is
# lazy), whatever needs the points raises, and every way of ending the session must honour closefd
LAZ_FILES = [("1.2", 3, 5, 0, "laz"), ("1.4", 6, 3, 1, "laz"), ("1.2", 1, 0, 0, "laz"), ("1.4", 7, 0, 1, "laz")]
LAZ_BODIES = [[], [["P", 2]], [["A"]], [["Q"]], [["S", 1, 0]], [["P", 1], ["A"]], [["P", -1], ["Q"], ["P", 1]], [["I", 2]], [["P", 0]],
              [["S", 0, 2], ["A"]]]
LAZ_ENDS = ENDS + [["Bf"], ["Sbad"], ["G"]]     # Bf: what the last operation raised leaves the with block; G: the handle is only dropped


def laz_matrix(ctx):
    envs = [e for e in LAZ_ENVS if laz_kwargs(e) is not None]
    scen = []
    v = 0
    for ki, kind in enumerate(KINDS):
        for fi_, spec in enumerate(LAZ_FILES):
            for cf in (True, False):
                for ei_, env in enumerate(envs):
                    if not ctx.thorough() and ei_ and (ei_ - 1) != (ki + fi_ + cf) % (len(envs) - 1):
                        continue      # quick tier: the argument left out, and one of the other environments in turn
                    base = {"src": kind, "file": list(spec), "writable": False}
                    if env is not None:
                        base["laz"] = env
                    for re in ((True, False) if spec[3] else (True,)):
                        for bi, body in enumerate(LAZ_BODIES):
                            for ni, end in enumerate(LAZ_ENDS):
                                v += 1
                                if not ctx.thorough() and (bi + ni + v // 61) % (2 if kind == "bytesio" else 4):
                                    continue
                                if body and body[0][0] == "S" and spec[2] == 0:
                                    continue
                                scen.append(dict(base, events=[["O", "r", cf, re, "ok", 0]] + body + [end]))
                    scen.append(dict(base, events=[["L", cf, "ok", 0]]))
                    if seekable_kind(kind):
                        # an appender refuses the file while it is constructed; the same stream is then read (closefd=False left it open)
                        scen.append(dict(base, writable=True, events=[["O", "a", cf, True, "ok", 0]]))
                        if not cf:
                            scen.append(dict(base, writable=True, events=[["O", "a", False, True, "ok", 0], ["N"], ["O", "r", True, True, "ok", 0],
                                                                          ["P", 1], ["X"]]))
                        # two sessions on one stream: the first leaves it open
                        scen.append(dict(base, writable=True, events=[["O", "r", False, True, "ok", 0], ["P", 1], ["X"], ["N"], ["O", "r", cf, False, "ok", 0], ["A"], ["C"]]))
    return scen


# ---- position after open on files whose header + VLR block (what the second read of the header prefetch fetches) crosses the sizes
# at which buffered readers and read-ahead limits change behaviour: unused bytes before the first point record, many / large VLRs
MIB = 1 << 20
# in every run: one byte more than 227 + 1 MiB, one more than 64 KiB, and rests of the header (offset - 227) that are EXACT multiples of 64 KiB
OFFSETS_ALWAYS = [MIB + 228, (64 << 10) + 1, MIB + 227, (64 << 10) + 227]
OFFSETS = [(64 << 10) - 1, 64 << 10, (64 << 10) + 228, MIB - 1, MIB, MIB + 1, MIB + 226, MIB + 229, MIB + 375, MIB + 376, 2 * MIB + 227,
           MIB + 8192, 2 * MIB + 5, 2 * MIB + 228, 4 * MIB + 1, 8 * MIB + 229, io.DEFAULT_BUFFER_SIZE + 1, 16 * io.DEFAULT_BUFFER_SIZE + 227, 3 * MIB - 1]
VLRS_ALWAYS = ["vlrs17x65535"]                               # 17 x (54 + 65535) bytes: more than 1 MiB of VLRs
VLRS = ["vlrs1x65535", "vlrs2x65535", "vlrs40x1600", "vlrs300x3500", "vlrs1200x900", "vlrs33x65535", "vlrs16x65481", "vlrs130x8138"]
BIG_BASES = [("1.2", 1, 3, 0), ("1.4", 7, 3, 2)]


def big_specs(ctx):
    rng = random.Random(ctx.seed * 7907 + 11)
    offs = OFFSETS_ALWAYS + (OFFSETS if ctx.thorough() else rng.sample(OFFSETS, 4))
    vl = VLRS_ALWAYS + (VLRS if ctx.thorough() else rng.sample(VLRS, 2))
    out = []
    for i, t in enumerate(offs):
        for b in (BIG_BASES if ctx.thorough() or i < 2 else [BIG_BASES[(i + ctx.seed) % 2]]):
            out.append(b + (f"off{t}",))
    for i, t in enumerate(vl):
        for b in (BIG_BASES if ctx.thorough() or i < 1 else [BIG_BASES[(i + ctx.seed) % 2]]):
            out.append(b + (t,))
    return out


def big_matrix(ctx):
    scen = []
    specs = big_specs(ctx)
    for si, spec in enumerate(specs):
        kinds = KINDS if ctx.thorough() else ["bytesio", "double_ns", "double_ro", ["file", "rawfile", "double"][(si + ctx.seed) % 3],
                                              NC_KINDS[(si + ctx.seed) % 3]]
        for kind in kinds:
            for cf in (True, False):
                for re in ((True, False) if spec[3] else (True,)):
                    base = {"src": kind, "file": list(spec), "writable": False}
                    scen.append(dict(base, events=[["O", "r", cf, re, "ok", 0], ["P", 2], ["A"], ["X"]]))
                    scen.append(dict(base, events=[["O", "r", cf, re, "ok", 0], ["C"]]))
                    scen.append(dict(base, events=[["O", "r", cf, re, "ok", 0], ["Q"], ["B", "o"]]))
                    scen.append(dict(base, events=[["O", "r", cf, re, "ok", 0], ["P", 2], ["G"]]))
                    if spec[3] == 0 or not seekable_kind(kind):
                        scen.append(dict(base, pre=64, events=[["O", "r", cf, re, "ok", 0], ["P", -1], ["X"]]))
                scen.append({"src": kind, "file": list(spec), "writable": False, "events": [["L", cf, "ok", 0]]})
                for outcome in ("trunc", "badvlr"):
                    scen.append({"src": kind, "file": list(spec), "writable": False, "events": [["O", "r", cf, True, outcome, si]]})
                if seekable_kind(kind):
                    scen.append({"src": kind, "file": list(spec), "events": [["O", "a", cf, True, "ok", 0], ["W"], ["X"]]})
    return scen


def expect_open_ok(mode, outcome, kind, re=True):
    """whether the harness should append an exit after the open (it only decides the shape of the scenario)"""
    if mode == "r" and outcome == "cutrec":
        return True
    if mode == "r" and outcome == "badevlr":
        return not (re and seekable_kind(kind))
    if mode == "w":
        return seekable_kind(kind) and outcome not in ("badvlr", "incompat")
    if mode == "a" and not seekable_kind(kind):
        return False
    return outcome == "ok"


def random_history(rng):
    kind = rng.choice(["bytesio", "double", "file", "rawfile", "bytesio", "double", "double_ns", "double_ro", "nc_double", "nc_double",
                       "nc_double_ns", "nc_ro"])
    spec = rng.choice(FILES)
    env = None
    u0 = rng.random()
    if u0 < 0.12:           # a LAZ-flagged file, in one of the environments in which its point reader cannot be built
        spec = rng.choice(LAZ_FILES)
        env = rng.choice([e for e in LAZ_ENVS if laz_kwargs(e) is not None])
    elif u0 < 0.16:         # the first point record lies beyond 227 + 1 MiB
        spec = rng.choice(BIG_BASES) + (rng.choice(["off1048804", "off1048805", "vlrs17x65535"]),)
    pre = rng.choice([0, 0, 0, 1, 64, 227, 1000])      # > 0: read sessions and laspy.read only, on a content that starts at `pre`
    if pre and seekable_kind(kind) and spec[3]:
        spec = rng.choice([f for f in FILES if f[3] == 0])
        env = None
    events = []
    closed = False
    nsess = rng.randrange(1, 5) if seekable_kind(kind) else 1
    for si in range(nsess):
        if closed:
            # the stream was closed by laspy: whatever is tried next fails and changes nothing
            t = rng.random()
            if t < 0.4:
                events.append(["O", rng.choice("rwa"), rng.random() < 0.5, True, "ok", 0])
            elif t < 0.7:
                events.append(["L", rng.random() < 0.5, "ok", 0])
            else:
                events.append(["D", "ok", 0])
            continue
        if si > 0:
            events.append(["N"])
        t = rng.random()
        v = rng.randrange(1000)
        outcome = "ok" if rng.random() < 0.65 else rng.choice(OUTCOMES[1:] + LATE + LATE)
        if not applicable(spec, outcome):
            outcome = "ok"
        if t < 0.12 and seekable_kind(kind) and not pre:
            if outcome in LATE:
                outcome = "ok"
            events.append(["D", rng.choice(["ok", "ok", "incompat", "badvlr"]), v])
            continue
        if t < 0.27:
            cf = rng.random() < 0.35
            events.append(["L", cf, outcome, v])
            closed = cf
            continue
        mode = "r" if pre else rng.choice("rrrwa") if seekable_kind(kind) else rng.choice("rrra")
        if mode != "r" and outcome in LATE:
            outcome = "ok"
        cf = rng.random() < 0.4
        re = rng.random() < 0.5
        events.append(["O", mode, cf, re, outcome, v])
        if not expect_open_ok(mode, outcome, kind, re) or (mode == "a" and is_laz_spec(spec)):      # (an appender refuses a LAZ-flagged file)
            closed = cf and not (mode == "w" and not seekable_kind(kind))
            continue
        n = spec[2]
        once = outcome == "badevlr" and not seekable_kind(kind)     # see ASSUMPTIONS: no second read() after this one failed
        for _ in range(rng.randrange(0, 5)):
            if mode == "r":
                u = rng.random()
                if u < 0.4:
                    events.append(["P", rng.choice([0, 1, 2, -1, n, n + 3])])
                elif u < 0.65:
                    events.append(["S", rng.choice([0, 1, n - 1, n, -1, n + 2]), rng.choice([0, 0, 1, 2, 3])])
                elif u < 0.85 and not (once and ["A"] in events):
                    events.append(["A"])
                else:
                    events.append(["Q"])
            elif rng.random() < 0.25:
                events.append(["We"])
                break
            else:
                events.append(["W"])
        u = rng.random()
        if u < 0.3:
            events.append(["X"])
        elif u < 0.5:
            events.append(["C"])
        elif u < 0.66:
            events.append(["B", rng.choice("lo")])
        elif u < 0.82:
            events.append(["G"])           # the handle is only dropped: the stream stays as it is, whatever closefd
            continue
        else:
            events.append(["Sbad"] if mode == "r" else ["Wbad"])
        if rng.random() < 0.25:         # the caller closes the same object once more / goes on using it
            if mode != "r" and rng.random() < 0.5:
                events.append(["Wc"])
            events.append(["C2", rng.choice("cx")])
            if rng.random() < 0.3:
                events.append(["Wc"] if mode != "r" else ["C2", "c"])
        closed = cf
    out = {"src": kind, "file": list(spec), "events": events}
    if pre:
        out["pre"] = pre
    if env is not None:
        out["laz"] = env
    return out


_SCEN = None


def scenarios(ctx):
    global _SCEN
    if _SCEN is None:
        _SCEN = matrix(ctx) + [random_history(ctx.rng) for _ in range(ctx.n(600, 6000))] + big_matrix(ctx) + laz_matrix(ctx)
    return _SCEN


# ---------------------------------------------------------------------------------
# correspondence
# ---------------------------------------------------------------------------------
def parse_model(line):
    parts = line.split(" # ")
    steps = []
    for t in parts[0].split():
        r, c, p, h = t.split("/")
        steps.append({"res": r, "closed": c == "T", "pos": int(p), "handle": h})
    log = [] if parts[1].strip() == "-" else [e.split(":") for e in parts[1].strip().split(",")]
    return steps, log, parts[2].strip() == "T"


def register(ctx, sc, steps):
    evs = sc["events"]
    kinds = [e[0] for e in evs]
    trivial = kinds == ["O", "X"] and evs[0][4] == "ok"
    ctx.case((sc["src"], tuple(sc["file"]), repr(evs)), nontrivial=not trivial,
             sample={"src": sc["src"], "file": sc["file"], "events": evs, "closed_after_each": [s["closed"] for s in steps]})
    ctx.count("src:" + sc["src"])
    ctx.count("content starts at byte " + ("0" if not sc.get("pre") else "> 0") + " of the stream")
    ctx.count("file:" + "/".join(map(str, sc["file"])))
    for e, s in zip(evs, steps):
        if e[0] in ("P", "A") and s["res"] != "ok" and s["res"] != "ig":
            ctx.count("read fails after a successful open")
        if e[0] == "O":
            ctx.count(f"open:{e[1]}:closefd={e[2]}:{e[4]}")
        elif e[0] in ("L", "D"):
            ctx.count(f"{e[0]}:{e[-2]}")
        else:
            ctx.count("ev:" + e[0])
        ctx.count("res:" + s["res"])


def correspond(ctx):
    ctx.extra["rule"] = (
        "complete matrix: source kinds {BytesIO, buffered file, unbuffered raw file, stream double, non-seekable stream double, source "
        "that offers only read() (no seekable/seek/tell attribute), and the three doubles again without a `closed` attribute (judged by "
        "their close counter)} x files "
        "{1.2 empty, 1.2 with points, 1.4 empty with an EVLR, 1.4 with points and EVLRs} x closefd x [every mode x outcome {ok, empty, bad "
        "signature, truncated header, undecodable VLR / unencodable header (non-Laspy exception), incompatible header}; read sessions: "
        "EVLR preloading on/off x bodies {none, read_points, read, .point_source, seek, combinations} x {with-exit, close(), user "
        "RuntimeError, user LaspyException, IndexError from seek, handle DROPPED without close + gc.collect()}; write/append sessions x {.., "
        "LaspyException from write_points with another format, handle dropped}; laspy.read x outcomes; LasData.write x outcomes]; contents that fail after a successful open {point area cut "
        "inside a record, undecodable EVLR user id} x preloading x bodies x ends and through laspy.read; LAS contents that start at byte "
        "1/64/300 of the stream (read sessions, laspy.read x every outcome); plus random histories of up to 4 sessions on one stream "
        "(the caller refills and rewinds it in between; attempts on a stream laspy already closed; 12% on a LAZ-flagged file, 4% on a file "
        "whose first point record lies beyond 227 + 1 MiB); LAZ-flagged files {1.2 / 1.4, points or none, EVLRs or none} x 5 environments "
        "without a usable backend x source kinds x closefd x EVLR preloading x bodies {none, read_points(2 / 0 / -1), read, .point_source, "
        "seek (valid / out of range), chunk iterator, combinations} x ends {with-exit, close(), user exceptions, the failed read's exception "
        "leaving the block, IndexError}, laspy.read, refused appender, two sessions; files with offset_to_point_data at 64 KiB / 1 MiB / 227 + "
        "1 MiB +- k / 2-8 MiB or with 1-33 x 65535 / 1200 x 900 bytes of VLRs x source kinds x closefd x preloading x {read_points + read + "
        "exit, close(), .point_source + user exception, content at byte 64, laspy.read, truncated / undecodable VLR opens, append}. non-trivial = anything but 'open ok; "
        "exit'; distinct by (source kind, file, events); plus the stream-fault scenarios of `fault_rule` (every one the model has words "
        "for is compared with it; all are judged by the oracle)")
    scs = scenarios(ctx)
    fscs = fault_scenario_list(ctx)
    impl = []
    cmds = []
    import laspy  # noqa: F401
    gc.collect()
    gc.freeze()       # what exists now is not rescanned by the per-scenario gc.collect()
    compared = []
    for n, sc in enumerate(scs + fscs):
        if n % 256 == 255:
            gc.freeze()       # neither are the results kept so far
        steps, gone, after, fis = run_impl(sc)
        _RUNS[run_key(sc)] = (steps, gone, after)
        groups = model_tokens(sc, steps, fis)
        if groups is None:
            ctx.count("fault scenario the model has no words for (oracle only)")
            continue
        compared.append(sc)
        impl.append((steps, gone, after, groups))
        cmds.append("run " + cap_tok(sc["src"]) + f" {sc.get('pre', 0)} " + " ".join(t for g in groups for t in g))
    gc.unfreeze()
    outs = common.run_model(cmds, name=DRIVER)
    dis = []
    for sc, (steps, gone, after, groups), line, cmd in zip(compared, impl, outs, cmds):
        if "fault" in sc:
            ctx.count("fault scenario compared with the model")
        else:
            register(ctx, sc, steps)
        ctx.traces += 1
        if line.startswith("driver-error") or line.startswith("unknown"):
            dis.append({"kind": "model driver error", "input": sc, "model": line, "impl": None})
            continue
        allsteps, mlog, mok = parse_model(line)
        msteps, at = [], 0
        for g in groups:         # the model's step after the last token of each event's group
            at += len(g)
            msteps.append(allsteps[at - 1])
        bad = None
        for i, (ms, st) in enumerate(zip(msteps, steps)):
            ev = sc["events"][i]
            if ms["res"] != st["res"] and not st.get("res_unmodelled"):
                bad = (i, "result", ms["res"], f"{st['res']} ({st['exc']})")
            elif ms["closed"] != st["closed"]:
                bad = (i, "closed", ms["closed"], st["closed"])
            elif st["pos"] is not None and not st["closed"] and ms["pos"] != st["pos"]:
                bad = (i, "position", ms["pos"], st["pos"])
            elif (ms["handle"] != "-") != st["handle"]:
                bad = (i, "handle", ms["handle"], st["handle"])
            elif st["ps"] is not None and ms["handle"] != "-" and ms["handle"][2] != st["ps"]:
                bad = (i, "point source", ms["handle"][2:], st["ps"])
            if bad:
                break
        if bad is None and not mok:
            bad = (len(steps) - 1, "model log violates obs_okb", mlog, None)
        let_go = [g for g in gone if g["how"] not in ("dropped", "reclose", "use-after-close")]      # (not moments at which laspy lets go: no log entry)
        if bad is None and len(mlog) != len(let_go):
            bad = (len(steps) - 1, "number of let-go moments", len(mlog), len(let_go))
        if bad is not None:
            i, what, m, im = bad
            dis.append({"kind": f"{what} after {sc['events'][i][0]}" + (" (stream fault injected)" if sc.get("fault") and sc["fault"][0] else ""),
                        "input": dict(sc, at=i, model_cmd=cmd), "model": m, "impl": im})
    shutil.rmtree(SCRATCH, ignore_errors=True)
    return dis


# ---------------------------------------------------------------------------------
# the property on the implementation (no model)
# ---------------------------------------------------------------------------------
_RUNS = {}
SC_KEYS = ("src", "file", "events", "writable", "pre", "fault", "laz")


def run_key(sc):
    return repr((sc["src"], sc["file"], sc["events"], sc.get("writable", True), sc.get("pre", 0), sc.get("fault"), sc.get("laz")))


def oracle(sc):
    """list of (kind, observed) violations of the property's statement on this scenario"""
    key = run_key(sc)
    if key in _RUNS:       # what laspy did on this scenario was already recorded during the correspondence pass
        steps, gone, after = _RUNS[key]
    else:
        steps, gone, after, _ = run_impl(sc)
    out = []
    for g in gone:
        if not g["was_open"]:
            continue
        if g.get("precondition"):
            continue          # mode w on a non-seekable destination: refused before laspy takes the stream (see ASSUMPTIONS)
        if g["how"] == "dropped":
            # the handle was not closed and no with statement was left: laspy was not told to let go. A stream handed over with
            # closefd=False is never closed by laspy - not by a finalizer either; (closefd=True: the property does not say when)
            if g["closed"] and not g["closefd"]:
                out.append((f"handle dropped without close() mode={g['mode']} closefd=False -> closed=True",
                            f"event #{g['at']}: the {'reader' if g['mode'] == 'r' else 'writer' if g['mode'] == 'w' else 'appender'} "
                            f"(point source: {({'n': 'not created', 'r': 'UncompressedPointReader', 'e': 'EmptyPointReader'}).get(g.get('ps'), g.get('ps'))}) "
                            f"became unreachable, gc.collect(): the caller's stream is closed"))
            continue
        if g["how"] == "use-after-close":
            if g["closed"] and not g["closefd"]:
                out.append((f"points given to a closed {'writer' if g['mode'] == 'w' else 'appender'} closefd=False -> closed=True",
                            f"event #{g['at']}: the call raised {g.get('raised')}; the caller's stream is closed"))
            continue
        want = g["closefd"]
        if g["how"] == "reclose" and g["closed"] != want:
            out.append((f"second close mode={g['mode']} closefd={g['closefd']} -> closed={g['closed']}",
                        f"event #{g['at']}: close() / with-exit once more on the object that was closed before: the stream is "
                        f"{'closed' if g['closed'] else 'open'}, expected closed={want}"))
            continue
        if g["closed"] != want:
            what = g["how"] + (":" + g["outcome"] if "outcome" in g and g["how"] != "lasdata-write" else "")
            if g.get("fault_phase"):
                # a stream operation failed under laspy: the class of the failure is where (under which public operation) and
                # what became of the stream, however laspy let go of it afterwards
                f = sc["fault"]
                hit = after.get("hit")
                out.append((f"mode={g['mode']} closefd={g['closefd']} -> closed={g['closed']} after a stream fault in {g['fault_phase']}",
                            f"stream operation #{f[0]} of the session ({hit[1] if hit else '?'}, under event #{hit[0] if hit else '?'}) raised "
                            f"{f[1]}{' and so did every later one' if f[2] else ''}; event #{g['at']} ({what}): laspy has let go of the "
                            f"stream, stream.closed is {g['closed']}, expected {want}"))
            else:
                out.append((f"{g['how']} mode={g['mode']} closefd={g['closefd']} -> closed={g['closed']}",
                            f"event #{g['at']} ({what}): stream.closed is {g['closed']}, expected {want}"
                            + (f" [{g['exc']}]" if g.get("exc") else "")))
        if g["how"] == "body-raised" and g.get("propagated") is False:
            out.append((f"exception of the with-body swallowed mode={g['mode']}", f"event #{g['at']}"))
    for i, st in enumerate(steps):
        ev = sc["events"][i]
        if ev[0] == "O" and ev[1] == "r" and st["res"] == "ok" and st.get("pos_checked") and st["pos"] is not None:
            if st["pos"] != st["offset_expected"]:
                b = st.get("base") or 0
                out.append((f"position after open r read_evlrs={ev[3]} evlrs={sc['file'][3] > 0} content at byte {'0' if b == 0 else '>0'} of the stream",
                            f"the stream was handed over at {b}; after open it stands at {st['pos']}, the first point record is at "
                            f"{st['offset_expected']} (offset_to_point_data {st['offset_expected'] - b})"))
        if "first_points" in st and st["res"] == "ok" and st["first_points"] != st["first_points_expected"]:
            out.append((f"first read_points after open does not return the first records (read_evlrs={st.get('re')})",
                        f"got {len(st['first_points'])} bytes, expected {len(st['first_points_expected'])} bytes equal to the file's"))
        if ev[0] == "L" and st["res"] == "ok" and "points_read" in st and st["points_read"] != st["points_expected"]:
            out.append(("laspy.read returned another number of points", f"{st.get('points_read')} != {st.get('points_expected')}"))
    if after["open_before_gc"] and not after["open_after_gc"]:
        out.append(("stream closed once the handle is garbage collected", "open before gc.collect(), closed after"))
    if after.get("usable") is False:
        out.append(("stream left open is not usable", after.get("usable_exc")))
    return out


# ---- stream faults: sessions through every public operation, every stream operation of the session failing in turn
R_FILES = [("1.4", 7, 3, 2), ("1.2", 1, 3, 0), ("1.4", 6, 0, 1), ("1.2", 3, 0, 0)]
R_BODIES = [[["P", 2]], [["P", 1], ["P", -1]], [["A"]], [["S", 1, 0], ["P", 1]], [["I", 2]], [["Q"], ["A"]], [["E"], ["P", 1]],
            [["P", 1], ["S", 0, 0], ["A"]], []]
W_BODIES = [[], [["W"]], [["W"], ["W"]], [["W"], ["We"]]]


def fault_bases(ctx):
    """fault-free sessions (the faults are put in afterwards): modes r/w/a x closefd x EVLR preloading x bodies through
    read_points, read, seek, chunk_iterator, .point_source, read_evlrs, write_points/append_points, write_evlrs x {with-exit, close()},
    laspy.read, LasData.write, on every source kind. The quick tier takes the whole grid on a BytesIO for the two files that have
    points (all of it for the 1.4 file with EVLRs) and a sample of the rest (70 sessions; 600 in the thorough tier)."""
    grid, rest = [], []
    for kind in KINDS:
        for spec in R_FILES:
            for cf in (True, False):
                main = kind == "bytesio" and (spec == R_FILES[0] or spec == R_FILES[1])
                for re in (True, False):
                    if spec[3] == 0 and not re:
                        continue           # preloading changes nothing without EVLRs
                    for bi, body in enumerate(R_BODIES):
                        for end in (["X"], ["C"]) + ((["G"],) if bi in (0, 3, 4) else ()):
                            sc = {"src": kind, "file": list(spec), "writable": False, "events": [["O", "r", cf, re, "ok", 0]] + body + [end]}
                            (grid if main else rest).append(sc)
                if seekable_kind(kind):
                    for mode in "wa":
                        for bi, body in enumerate(W_BODIES):
                            for end in (["X"], ["C"]) + ((["G"],) if bi == 1 else ()):
                                sc = {"src": kind, "file": list(spec), "events": [["O", mode, cf, True, "ok", 0]] + body + [end]}
                                (grid if main else rest).append(sc)
                sc = {"src": kind, "file": list(spec), "writable": False, "events": [["L", cf, "ok", 0]]}
                (grid if main else rest).append(sc)
                # a second close after the first (stream faults under either)
                rest.append({"src": kind, "file": list(spec), "writable": False, "events": [["O", "r", cf, True, "ok", 0], ["P", 2], ["X"], ["C2", "c"]]})
                if seekable_kind(kind):
                    for mode in "wa":
                        (grid if main and spec == R_FILES[0] else rest).append(
                            {"src": kind, "file": list(spec), "events": [["O", mode, cf, True, "ok", 0], ["W"], ["C"], ["Wc"], ["C2", "c"]]})
                if seekable_kind(kind) and not cf:
                    # a second, healthy session on the stream laspy was told to leave open
                    rest.append({"src": kind, "file": list(spec), "events": [["O", "r", False, True, "ok", 0], ["P", 1], ["X"], ["N"],
                                                                             ["O", "a", False, True, "ok", 0], ["W"], ["C"], ["N"], ["L", False, "ok", 0]]})
            if seekable_kind(kind):
                (grid if kind == "bytesio" else rest).append({"src": kind, "file": list(spec), "events": [["D", "ok", 0]]})
    ctx.rng.shuffle(rest)
    # sessions that write come last (a failing input of a read session is the simpler one to look at)
    return sorted(grid + rest[:ctx.n(70, 600)], key=lambda sc: any(e[0] == "O" and e[1] in "wa" for e in sc["events"]))


def fault_scenarios(ctx):
    """generator of scenarios: for every base session, the k-th stream operation (read/readinto/seek/tell/write/flush/truncate)
    laspy performs on the caller's stream fails, k = 1 .. all of them; what fails is found by running the session once on a
    proxy that only logs. A fault under a body operation is followed (a) by the rest of the session - the caller caught it
    inside the with block and goes on, then leaves normally or closes - and (b) by the exception leaving the with block."""
    ncls = len(FAULT_CLASSES)
    for bi, base in enumerate(fault_bases(ctx)):
        probe = dict(base, fault=[0, "OSError", False])
        yield probe                       # the proxy itself must change nothing
        try:
            oplog = run_impl(probe)[2]["oplog"]
        except Exception:  # noqa  (reported by the oracle on the probe)
            continue
        evs = base["events"]
        for k in range(1, len(oplog) + 1):
            at, name = oplog[k - 1]
            tails = [evs]
            if at is not None and evs[at][0] in BODY_OPS:
                tails.append(evs[:at + 1] + [["Bf"]])
            for ti, tail in enumerate(tails):
                variants = [("OSError", False)]
                if ctx.thorough():
                    variants += [("OSError", True)] + [(FAULT_CLASSES[(bi + k + j) % ncls], (bi + k + j) % 2 == 1) for j in range(1, 4)]
                elif ti == len(tails) - 1:
                    variants.append((FAULT_CLASSES[(bi + k) % ncls], (bi + k) % 3 == 0))
                for cls, sticky in dict.fromkeys(variants):
                    yield dict(base, events=tail, fault=[k, cls, sticky])


# ---- other entry points and the default of closefd (the events above always say closefd and always go through laspy.open)
ENTRIES = ["laspy.open r", "laspy.open w", "laspy.open a", "LasReader", "LasWriter", "LasAppender", "laspy.read", "laspy.open r positional"]


def entry_cases():
    return [{"entry": e, "closefd": cf, "end": end, "src": src} for src in ("bytesio", "nc_double") for e in ENTRIES for cf in ("default", True, False)
            for end in (("exit", "close", "body-raises", "dropped", "used-dropped", "used-exit") if e != "laspy.read" else ("exit",))]


def run_entry(case):
    """the stream (a BytesIO, or a double that has no `closed` attribute) is handed to the entry point (closefd left out, True or
    False), the handle is used as a context manager / closed / left by an exception / only dropped - unused, or after points were
    read from / written through it; -> list of (kind, observed)"""
    import laspy
    raw = base_file(("1.2", 1, 3, 0))
    e, cf, end = case["entry"], case["closefd"], case["end"]
    kw = {} if cf == "default" else {"closefd": cf}
    s = make_stream(case.get("src", "bytesio"), raw if e not in ("laspy.open w", "LasWriter") else b"", True)
    judged = True
    want = cf is not False          # documented default: closefd=True
    ex = None
    try:
        if e == "laspy.read":
            laspy.read(s, **kw)
            h = None
        elif e == "laspy.open r":
            h = laspy.open(s, mode="r", **kw)
        elif e == "laspy.open r positional":
            h = laspy.open(s, "r", *([] if cf == "default" else [cf]))      # open_las(source, mode, closefd)
        elif e == "laspy.open w":
            h = laspy.open(s, mode="w", header=laspy.LasHeader(), **kw)
        elif e == "laspy.open a":
            h = laspy.open(s, mode="a", **kw)
        elif e == "LasReader":
            h = laspy.LasReader(s, **kw)
        elif e == "LasWriter":
            h = laspy.LasWriter(s, laspy.LasHeader(), **kw)
        else:
            from laspy.lasappender import LasAppender
            h = LasAppender(s, **kw)
        if h is not None:
            if end.startswith("used"):
                # the lazily created point source / the point writer exists
                if isinstance(h, laspy.LasReader):
                    h.read_points(1)
                else:
                    pts = laspy.PackedPointRecord.zeros(1, h.header.point_format)
                    h.write_points(pts) if isinstance(h, laspy.LasWriter) else h.append_points(pts)
                    del pts
            if end in ("exit", "used-exit"):
                with h:
                    pass
            elif end == "close":
                h.close()
            elif end == "body-raises":
                try:
                    with h:
                        raise UserError("user")
                except UserError:
                    pass
            else:
                want = False           # a handle that is only dropped has not been told to let go of anything
                judged = end == "dropped" or cf is False     # (used, then dropped, with closefd true: the property does not say when)
                h = None
                gc.collect()
    except Exception as x:  # noqa
        ex = x
    out = []
    src = "" if case.get("src", "bytesio") == "bytesio" else " (source without a `closed` attribute)"
    if ex is not None:
        out.append((f"entry point {e} closefd={cf} fails on a well-formed stream{src}", f"{type(ex).__name__}: {ex}"))
    elif judged and is_closed(s) != want:
        out.append((f"entry point {e} closefd={cf} {end} -> closed={is_closed(s)}{src}", f"the stream is {'closed' if is_closed(s) else 'open'}, expected closed={want}"))
    return out


_FSCEN = None


def fault_scenario_list(ctx):
    global _FSCEN
    if _FSCEN is None:
        gc.collect()
        gc.freeze()
        _FSCEN = list(fault_scenarios(ctx))
        gc.unfreeze()
    return _FSCEN


def search(ctx, seeds):
    scs = scenarios(ctx)
    cand = [d["input"] for d in seeds if isinstance(d.get("input"), dict) and "events" in d["input"]] + scs
    failing = []
    seen = set()
    import laspy  # noqa: F401
    ctx.extra["fault_rule"] = (
        "stream faults (oracle only): sessions in modes r/w/a x closefd x EVLR preloading x bodies {read_points, read, seek, "
        "chunk_iterator, .point_source, read_evlrs, write_points/append_points, write_evlrs, combinations, none} x {with-exit, close()}, "
        "laspy.read, LasData.write, several sessions on one stream, on every source kind; laspy is handed a proxy of the stream on which "
        "the k-th call of read/readinto/seek/tell/write/flush/truncate since it got it raises, for every k of the session (opening, "
        "every body operation, closing), once or from then on, with OSError and with " + ", ".join(FAULT_CLASSES[1:]) + " (StreamAbort "
        "is not an Exception); a fault under a body operation is followed by the rest of the session (caught inside the with block, "
        "then normal exit or close()) and by the exception leaving the with block; judged by the property's iff at every moment "
        "laspy lets go of the stream. Entry points (oracle only): laspy.open r/w/a (keyword and positional closefd), the LasReader / "
        "LasWriter / LasAppender constructors, laspy.read x closefd {left out (documented default True), True, False} x {with-exit, "
        "close(), with-body raises, handle only dropped, points read / written then the handle dropped or the with block left} x {BytesIO, "
        "a double without a `closed` attribute}")
    gc.collect()
    gc.freeze()

    def judge(sc):
        sc = {k: v for k, v in sc.items() if k in SC_KEYS}
        try:
            bad = oracle(sc)
        except Exception as ex:  # the scenario itself could not be run: report it, it is not a verdict on the property
            ctx.notes.append(f"oracle could not run {sc}: {ex!r}")
            return
        for kind, observed in bad:
            if kind in seen:
                continue
            seen.add(kind)
            small = shrink(sc, kind)
            failing.append({"kind": kind, "input": small, "observed": [o for k, o in oracle(small) if k == kind][0]})

    for n, sc in enumerate(cand):
        if n % 256 == 255:
            gc.freeze()
        judge(sc)
        if len(failing) >= 8:
            break
    for case in entry_cases():
        ctx.case(("entry", tuple(case.values())), nontrivial=True)
        ctx.count("entry point:" + case["entry"])
        try:
            bad = run_entry(case)
        except Exception as ex:  # noqa
            ctx.notes.append(f"entry case could not run {case}: {ex!r}")
            continue
        for kind, observed in bad:
            if kind not in seen and len(failing) < 8:
                seen.add(kind)
                failing.append({"kind": kind, "input": case, "observed": observed})
    nf = 0
    if len(failing) < 8:
        for sc in fault_scenario_list(ctx):
            f = sc["fault"]
            nf += 1
            if nf % 256 == 255:
                gc.freeze()
            ctx.case(("fault", sc["src"], tuple(sc["file"]), repr(sc["events"]), tuple(f)), nontrivial=f[0] > 0)
            ctx.count("stream fault: " + ("none (proxy only)" if not f[0] else f[1] + (" from then on" if f[2] else " once")))
            judge(sc)
            if len(failing) >= 8:
                break
    ctx.extra["fault_scenarios"] = nf
    gc.unfreeze()
    shutil.rmtree(SCRATCH, ignore_errors=True)
    return failing


def shrink(sc, kind):
    """drop events (keeping the scenario well formed: never an operation without a handle) while the same failure shows"""
    cur = dict(sc)
    changed = True
    while changed:
        changed = False
        evs = cur["events"]
        for i in range(len(evs)):
            if evs[i][0] in ("O", "X", "C", "G", "B", "Bf", "Wbad", "Sbad", "N"):
                continue
            cand = dict(cur, events=evs[:i] + evs[i + 1:])
            try:
                if any(k == kind for k, _ in oracle(cand)):
                    cur = cand
                    changed = True
                    break
            except Exception:  # noqa
                pass
    # a simpler source kind, if it still fails there
    for kind2 in ("bytesio",):
        if cur["src"] != kind2:
            cand = dict(cur, src=kind2)
            try:
                if any(k == kind for k, _ in oracle(cand)):
                    cur = cand
            except Exception:  # noqa
                pass
    # a simpler fault: once instead of from then on, OSError instead of another class
    if cur.get("fault"):
        f = cur["fault"]
        for f2 in ([f[0], f[1], False], [f[0], "OSError", f[2]], [f[0], "OSError", False]):
            if f2 != cur["fault"]:
                cand = dict(cur, fault=f2)
                try:
                    if any(k == kind for k, _ in oracle(cand)):
                        cur = cand
                except Exception:  # noqa
                    pass
    return cur


def replay(ctx, data):
    inp = data.get("failing_input", {}).get("input")
    if inp and "entry" in inp:
        bad = run_entry(inp)
        for kind, observed in bad:
            print(f"REPRODUCED: {kind}: {observed}")
        if not bad:
            print("not reproduced")
        return 1 if bad else 0
    if not inp or "events" not in inp:
        print("nothing to replay")
        return 0
    sc = {k: v for k, v in inp.items() if k in SC_KEYS}
    bad = oracle(sc)
    shutil.rmtree(SCRATCH, ignore_errors=True)
    for kind, observed in bad:
        print(f"REPRODUCED: {kind}: {observed}")
    if not bad:
        print("not reproduced")
    return 1 if bad else 0
