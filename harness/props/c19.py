"""C19 — interrupted writes and truncated files never yield points that were not written.
Model: read_file of Model/Las.v on crash images / truncations (theorems truncation_safe, crash_safe); the write discipline the
theorems assume (header with count 0 first, points appended in order, EVLRs, in-place header rewrite of identical length) is
checked on the traces recorded from the implementation. Correspondence: read_file vs laspy.read on every image. Search:
laspy.read of each image compared with the intended point sequence."""
import io
import signal

import numpy as np

from harness import common, lasio, sessions

ASSUMPTIONS = ["a write is torn at a byte boundary; bytes beyond the torn point keep their previous content",
               "what EVLRs / statistics a crash image shows is unconstrained by the property"]


class Timeout(Exception):
    pass


def _alarm(signum, frame):
    raise Timeout()


def read_image(img, limit=10):
    """('ok', point bytes, psize) | ('err', kind) | ('hang',)"""
    import laspy
    signal.signal(signal.SIGALRM, _alarm)
    signal.alarm(limit)
    try:
        las = laspy.read(io.BytesIO(img))
        return ("ok", lasio.rec_bytes(las.points), las.header.point_format.size)
    except Timeout:
        return ("hang",)
    except Exception as ex:
        return ("err", common.exc_kind(ex))
    finally:
        signal.alarm(0)


def apply_trace(base, trace, k, j):
    buf = bytearray(base)
    def wr(pos, bs):
        if pos > len(buf):
            buf.extend(b"\0" * (pos - len(buf)))
        buf[pos:pos + len(bs)] = bs
    for pos, bs in trace[:k]:
        wr(pos, bs)
    if k < len(trace):
        pos, bs = trace[k]
        wr(pos, bs[:j])
    return bytes(buf)


TEMPLATES = [("write", None, None), ("chunked", None, None), ("append", None, None), ("append", "1.4", True), ("chunked", "1.4", True),
             ("write", "1.4", True), ("append", "1.4", True), ("chunked", "1.2", False), ("append", "1.1", False), ("write", "1.3", False)]


def gen_session(ctx, template=None):
    """returns dict(kind, base, trace, intended point bytes, psize, desc)"""
    import laspy
    from laspy.lasappender import LasAppender
    rng = ctx.rng
    kind, ver, want_evl = template or (rng.choice(["write", "chunked", "chunked", "append"]), None, None)
    h = lasio.rand_header(rng, version=ver)
    if rng.random() < 0.25:
        lasio.add_extra_dims(rng, h, 1)
    ps = h.point_format.size
    evl = None
    if h.version.minor >= 4 and (want_evl or (want_evl is None and rng.random() < 0.6)):
        evl = laspy.vlrs.vlrlist.VLRList([lasio.rand_vlr(rng, 120) for _ in range(rng.choice([1, 2]))])
    desc = {"kind": kind, "version": str(h.version), "format": h.point_format.id, "evlrs": len(evl or []), "vlrs": len(h.vlrs), "stale_count": int(h.point_count)}
    if kind == "write":
        n = rng.choice([0, 1, 3, 9])
        las = laspy.LasData(header=h, points=lasio.rand_points(rng, h, n, "random"))
        if evl is not None:
            las.evlrs = evl
        st = sessions.LogStream()
        las.write(st)
        return dict(kind=kind, base=b"", trace=st.trace, intended=lasio.rec_bytes(las.points), ps=ps, desc=dict(desc, points=n), final=st.getvalue())
    if kind == "chunked":
        st = sessions.LogStream()
        w = laspy.LasWriter(st, h, closefd=False)
        pts = b""
        sizes = []
        for _ in range(rng.randrange(1, 5)):
            c = lasio.rand_points(rng, h, rng.choice([0, 1, 2, 5]), "random")
            w.write_points(c)
            pts += lasio.rec_bytes(c)
            sizes.append(len(c))
        if evl is not None:
            w.write_evlrs(evl)
        w.close()
        return dict(kind=kind, base=b"", trace=st.trace, intended=pts, ps=ps, desc=dict(desc, chunks=sizes), final=st.getvalue())
    # append
    A = lasio.rand_points(rng, h, rng.choice([0, 1, 4]), "random")
    if rng.random() < 0.2:
        # a legal file laspy did not write: a WKT record padded with several NULs, which laspy re-serialises SHORTER (one NUL).
        # The in-place header rewrite of the append then cannot keep its size: whatever the appender does, the points must stay readable
        h.vlrs.append(laspy.VLR("LASF_Projection", 2112, "", b'GEOGCS["WGS 84"]' + bytes(rng.choice([2, 4, 7]))))
        desc["padded_wkt_vlr"] = True
    raw0 = lasio.write_las(h, A, evl)
    if evl and rng.random() < 0.5:
        gp = rng.choice([1, ps, 2 * ps + 3])
        raw0 = lasio.with_gap(raw0, gp, fill=rng.choice([0x00, 0xAA])) or raw0
        desc["gap"] = gp
    st = sessions.LogStream(raw0)
    ap = LasAppender(st, closefd=False)
    st.trace.clear()
    pts = lasio.rec_bytes(A)
    sizes = []
    for ci in range(rng.randrange(1 if template else 0, 4)):
        c = lasio.rand_points(rng, h, rng.choice([0, 1, 3]) if ci else rng.choice([1, 3, 6]), "random")
        ap.append_points(c)
        pts += lasio.rec_bytes(c)
        sizes.append(len(c))
    try:
        ap.close()
    except Exception as ex:
        desc["close_raised"] = type(ex).__name__
    return dict(kind=kind, base=raw0, trace=st.trace, intended=pts, ps=ps, desc=dict(desc, orig=len(A), chunks=sizes), final=st.getvalue())


def images_of(ctx, s):
    """(label, image) for crash points at every write-call boundary and torn inside every write (every byte for writes of at
    most 48 bytes - the header is written field by field -, a dense sample otherwise), and truncations of the complete file"""
    tr = s["trace"]
    out = []
    for k in range(len(tr) + 1):
        out.append((f"after {k} writes", apply_trace(s["base"], tr, k, 0)))
    for k, (pos, bs) in enumerate(tr):
        n = len(bs)
        if n <= 1:
            continue
        if n <= 48 or ctx.thorough():
            js = range(1, n)
        else:
            js = sorted(set(list(range(1, 12)) + list(range(n - 11, n)) + [ctx.rng.randrange(1, n) for _ in range(12)]))
        for j in js:
            out.append((f"write {k} torn at {j}", apply_trace(s["base"], tr, k, j)))
    fin = s["final"]
    lens = range(len(fin)) if (ctx.thorough() or len(fin) <= 700) else sorted(set(list(range(0, 420)) + [ctx.rng.randrange(len(fin)) for _ in range(200)] + list(range(len(fin) - 70, len(fin)))))
    for n in lens:
        out.append((f"truncated to {n}", fin[:n]))
    return out


def _gather_from_zero(tr, start):
    """contiguous writes starting at position 0 from index `start`: returns (bytes, next index)"""
    buf = b""
    i = start
    while i < len(tr) and tr[i][0] == len(buf):
        buf += tr[i][1]
        i += 1
        if len(buf) >= 100 and len(buf) >= int.from_bytes(buf[96:100], "little"):
            break
    while i < len(tr) and len(tr[i][1]) == 0:      # empty writes (e.g. no padding bytes) carry nothing
        i += 1
    return buf, i


def check_discipline(s):
    """the write discipline the theorems assume, checked on the recorded trace: the header (+VLRs) first, announcing zero points;
    then only appends; last, the header again, contiguously from 0, exactly up to the first point (never beyond)"""
    tr = s["trace"]
    if not tr:
        return "no writes recorded"
    if s["kind"] != "append":
        if tr[0][0] != 0:
            return "first write is not at position 0"
        hdr0, i = _gather_from_zero(tr, 0)
        if len(hdr0) < 227:
            return "initial header writes are not contiguous"
        off = int.from_bytes(hdr0[96:100], "little")
        if len(hdr0) != off:
            return f"initial header writes cover {len(hdr0)} bytes, offset_to_point_data is {off}"
        minor = hdr0[25]
        cnt = int.from_bytes(hdr0[247:255], "little") if minor >= 4 else int.from_bytes(hdr0[107:111], "little")
        if cnt != 0:
            return f"the header first put on disk announces {cnt} points before any point is written"
        j = next((k for k in range(i, len(tr)) if tr[k][0] == 0), None)
        if j is None:
            return "no final header rewrite"
        pos = off
        for p, b in tr[i:j]:
            if p != pos:
                return f"a data write at {p}, expected an append at {pos}"
            pos += len(b)
        hdr1, e = _gather_from_zero(tr, j)
        if e != len(tr) or len(hdr1) != off:
            return f"final header rewrite covers {len(hdr1)} bytes (the points start at {off}) or is followed by other writes"
    else:
        base = s["base"]
        off = int.from_bytes(base[96:100], "little")
        j = next((k for k in range(len(tr)) if tr[k][0] < off), None)
        # append_trace of Proofs/CrashAppendProofs.v: the data writes start where the old points end (over the old EVLRs) and are contiguous
        cnt0 = int.from_bytes(base[247:255], "little") if base[25] >= 4 else int.from_bytes(base[107:111], "little")
        pos = off + cnt0 * int.from_bytes(base[105:107], "little")
        for p_, b_ in tr[:len(tr) if j is None else j]:
            if p_ != pos:
                return f"an append session writes at {p_}, expected the end of the stored data at {pos}"
            pos += len(b_)
        if j is not None:
            if tr[j][0] != 0:
                return "the header area is touched not starting at 0"
            hdr1, e = _gather_from_zero(tr, j)
            if e != len(tr) or len(hdr1) != off:
                return f"header rewrite of the append covers {len(hdr1)} bytes (points start at {off}) or is not the last thing written"
    return None


def nonascii_user_id(img):
    """True when some VLR/EVLR user id of the image (decoded leniently, as the reader does) holds a byte >= 128. The Coq
    model treats every such id as undecodable (ASSUMPTION: 'decodable' = ASCII); CPython accepts it when the bytes happen to be valid
    UTF-8. Such images are compared on the property only, not model-vs-implementation."""
    try:
        if len(img) < 227:
            return False
        off = int.from_bytes(img[96:100], "little")
        hs = int.from_bytes(img[94:96], "little")
        nv = min(int.from_bytes(img[100:104], "little"), 1000)
        minor = img[25]
        pos = hs
        stream = img[:max(off, 227)]
        for _ in range(nv):
            uid = stream[pos + 2:pos + 18].split(b"\0")[0]
            if any(b >= 128 for b in uid):
                return True
            ln = int.from_bytes(stream[pos + 20:pos + 22], "little")
            pos += 54 + ln
        if minor >= 4:
            st = int.from_bytes(img[235:243], "little")
            ne = min(int.from_bytes(img[243:247], "little"), 1000)
            pos = st
            for _ in range(ne):
                uid = img[pos + 2:pos + 18].split(b"\0")[0]
                if any(b >= 128 for b in uid):
                    return True
                ln = int.from_bytes(img[pos + 20:pos + 28], "little")
                pos += 60 + ln
                if pos > len(img):
                    break
    except Exception:
        return False
    return False


_DATA = None


def data(ctx):
    global _DATA
    if _DATA is None:
        _DATA = []
        for si in range(ctx.n(30, 300)):
            try:
                s = gen_session(ctx, TEMPLATES[si % len(TEMPLATES)])
            except Exception as ex:
                _DATA.append({"error": repr(ex)})
                continue
            s["images"] = images_of(ctx, s)
            _DATA.append(s)
    return _DATA


def correspond(ctx):
    ctx.extra["rule"] = ("sessions: LasData.write, chunked LasWriter (1-4 chunks incl. empty), LasAppender on existing files; every version, +-VLRs, "
                         "+-EVLRs, headers with stale statistics; low-level writes recorded by a logging stream; crash images after every write call, "
                         "at every byte inside the header (re)writes and the write before the last, and truncations of the complete file (all lengths "
                         "for files <= 700 bytes, dense around the header otherwise). non-trivial = image length > 227; distinct by image bytes")
    dis = []
    cmds, meta = [], []
    for s in data(ctx):
        if "error" in s:
            continue
        for label, img in s["images"]:
            cmds.append("read_file " + common.hexb(img))
            meta.append((s, label, img))
    outs = common.run_model(cmds)
    for (s, label, img), mo in zip(meta, outs):
        im = read_image(img)
        ctx.traces += 1
        ctx.case(img, nontrivial=len(img) > 227, sample={"session": s["desc"], "image": label, "len": len(img), "impl": im[0] if im[0] != "ok" else f"ok {len(im[1]) // max(im[2], 1)} points"})
        ctx.count("image:" + label.split(" ")[0] + ":" + im[0])
        t = mo.split(" ")
        if im[0] == "ok":
            good = t[0] == "ok" and common.unhex(t[7]) == im[1]
        elif im[0] == "err":
            good = t[0] == "err"
        else:
            good = False
        if not good and t[0] == "err" and im[0] == "ok" and nonascii_user_id(img):
            ctx.count("outside-model:non-ascii-user-id-valid-utf8")
            continue
        if not good:
            dis.append({"kind": f"read of crash image ({s['kind']}, {label.split(' ')[0]})", "input": {"session": s["desc"], "image": label, "image_hex": img.hex() if len(img) < 3000 else img[:3000].hex()},
                        "model": mo[:60], "impl": im[0] + (" " + im[1] if im[0] == "err" else "")})
    return dis


def search(ctx, seeds):
    failing, seen = [], set()

    def add(kind, inp, why):
        if kind not in seen:
            seen.add(kind)
            failing.append({"kind": kind, "input": inp, "observed": why})
    for s in data(ctx):
        if "error" in s:
            add("session failed", {}, s["error"])
            continue
        why = check_discipline(s)
        if why:
            add("write discipline: " + why.split(",")[0][:60], {"session": s["desc"], "trace": [(p, len(b)) for p, b in s["trace"]]}, why)
        intended = s["intended"]
        for label, img in s["images"]:
            im = read_image(img)
            if im[0] == "hang":
                add("reader does not terminate", {"session": s["desc"], "image": label, "image_hex": img.hex()[:6000]}, "laspy.read still running after 10 s")
            elif im[0] == "ok":
                got = im[1]
                if intended[:len(got)] != got or (im[2] and len(got) % im[2]):
                    n = len(got) // max(im[2], 1)
                    add(f"{s['kind']}: image '{label.split(' ')[0]}' yields points that were not written", {"session": s["desc"], "image": label, "image_hex": img.hex()[:6000]},
                        f"{n} records returned; they are not a prefix of the {len(intended) // max(s['ps'], 1)} records being stored")
    return failing[:8]


def replay(ctx, data_):
    inp = data_.get("failing_input", {}).get("input", {})
    if "image_hex" not in inp:
        print("nothing to replay")
        return 0
    im = read_image(bytes.fromhex(inp["image_hex"]))
    print("laspy.read of the image:", im[0], (len(im[1]) if im[0] == "ok" else im[1:]))
    return 0
