"""C19 — interrupted writes and truncated files never yield points that were not written.
Model: read_file of Model/Las.v on crash images / truncations (theorems truncation_safe, crash_safe, crash_safe_append, fault_safe); the
write discipline the theorems assume (header with count 0 first, points appended in order, EVLRs, in-place header rewrite of identical
length; after a failed low-level write the next write starts where the failed one started) is checked on the traces recorded from the
implementation. Correspondence: read_file vs laspy.read on every distinct image. Search: laspy.read (under a timeout: reading must TERMINATE)
of each image compared with the point sequence the session accepted; a sample of the images is also read through the other public routes
(laspy.open with read_evlrs=False / laz_backend=() / chunk_iterator / a file on disk).
Round 5: (1) destinations that ALREADY hold a LAS file (Model/LasDest.v: writes and truncations on a destination holding `old`; theorems
C19_overwrite_*: emptied first, every image is an image of the session on an empty destination) - LasData.write(path) / laspy.open(path, 'w') on
paths holding longer / shorter / same-size files of the same or another version, complete sessions and sessions whose header cannot be written
completely; (2) two-level histories (Proofs/HistoryProofs.v): append sessions on the images interrupted sessions left, interrupted in turn;
(3) faults raising every errno class / BlockingIOError / non-OSError exceptions, followed by with-exit, close only, or continued use (nothing
stored); the library itself must issue no data write after a torn one.
Round 6: RICH sessions (lasio.rs_session) of writers and appenders - chunks selected in every way from every record class, the source's PointFormat object changed in
place between chunks, other files read / written meanwhile, the writer's / appender's OWN header edited between chunks (a VLR of a whole number of records appended, VLRs
removed / grown, extra bytes, an extra dimension), every way of ending (close twice, close inside the with-block, close then with, chunks after close; closefd False /
True) - with every low-level write and truncation recorded: the image after every operation, torn inside every write (every byte of the writes that touch the header
size / offset to the points / counts), and the final file are read back: an exception or a prefix of what the session accepted."""
import io
import os
import signal
import tempfile

import numpy as np

from harness import common, lasio

ASSUMPTIONS = ["a write is torn at a byte boundary; bytes beyond the torn point keep their previous content",
               "what EVLRs / statistics a crash image shows is unconstrained by the property",
               "destinations given as a PATH are observed at the boundary between laspy and the operating system (the builtin open() is wrapped while the "
               "session runs: mode, contents right after the open, every write / truncate); the image BEFORE the first byte of a session is written is the "
               "old file and is not judged",
               "two-level histories: proved for first sessions interrupted before or after (not inside) their header rewrite (C19_two_level_safe_partial, "
               "C19_history_safe_append); images torn inside the header rewrite of the first session are continued on the implementation only",
               "fault sequences judged: ONE low-level write of the session fails (raising any errno class of OSError, BlockingIOError with characters_written, "
               "ValueError, MemoryError), every later write succeeds, and either (a) the failed "
               "write stored NO byte - then the session may go on in any way (the exception leaves the with-block, or the caller catches it and issues "
               "more chunks / the same chunk again, then closes) - or (b) it stored a prefix of its bytes (torn) and the session performs no further "
               "point write: only close() / __exit__ (which re-emit the EVLRs and rewrite the header) or nothing at all (a crash image). A torn write "
               "that stored bytes FOLLOWED BY MORE POINT WRITES of the same session is outside the property as stated (an interrupted session is a "
               "prefix of the write trace; laspy does not seek back over the bytes a failed write left) and is not judged",
               "round 6: rich sessions (chunks selected in every way, the session's own header edited between chunks, every way of ending) are judged on the images "
               "after every low-level operation, torn inside every write (at every byte of the writes that touch header size / offset / counts) and on the file "
               "afterwards: an exception or a prefix of the chunks the session ACCEPTED (a call issued after close() that returns normally counts as accepted); "
               "the model side is the guarded in-place rewrite (Model/LasEnd.v guarded_rewrite, C19_own_header_*), compared with the first close of every session",
               "round 7: 'the points that were being stored' are real-world points when the caller hands over scale-aware records: sessions whose chunks carry "
               "their own scales / offsets (equal to or different from the destination's: a header with laspy's default scaling, a random one; an EMPTY or non-empty "
               "original for an appender) are judged on x / y / z as laspy.read of the image reports them (within half a grid step of the destination of X * scale + "
               "offset of the record given) and on every byte behind X/Y/Z; this part is on the implementation only (the Coq reader returns record bytes, scaling "
               "is not modelled); the discipline that makes it hold (the rewrite never changes version / sizes / format / scales / offsets) is checked on the recorded operations"]

READ_LIMIT = 4.0          # seconds granted to one laspy.read of an image of a few KB (a normal read takes < 1 ms)


class Timeout(Exception):
    pass


def _alarm(signum, frame):
    raise Timeout()


_HANGS = [0]


def _with_timeout(fn, limit):
    """('ok', value) | ('err', kind) | ('hang',). After the first hang the remaining reads get a short limit: the verdict is already
    a failing input, the run must not take hours."""
    if _HANGS[0] >= 6:
        return ("skipped",)
    lim = limit if _HANGS[0] == 0 else 0.4
    old = signal.signal(signal.SIGALRM, _alarm)
    signal.setitimer(signal.ITIMER_REAL, lim)
    try:
        return ("ok", fn())
    except Timeout:
        _HANGS[0] += 1
        return ("hang",)
    except Exception as ex:
        return ("err", common.exc_kind(ex))
    finally:
        signal.setitimer(signal.ITIMER_REAL, 0)
        signal.signal(signal.SIGALRM, old)


def _read_plain(img):
    import laspy
    las = laspy.read(io.BytesIO(img))
    return (lasio.rec_bytes(las.points), las.header.point_format.size)


def _read_route(img, route):
    """the other public ways of reading the same bytes: they must obey the same rule"""
    import laspy
    if route == "open(read_evlrs=False)":
        with laspy.open(io.BytesIO(img), read_evlrs=False) as rd:
            las = rd.read()
            return (lasio.rec_bytes(las.points), rd.header.point_format.size)
    if route == "open(laz_backend=())":
        with laspy.open(io.BytesIO(img), laz_backend=(), closefd=False) as rd:
            las = rd.read()
            return (lasio.rec_bytes(las.points), rd.header.point_format.size)
    if route == "open(bytes)":
        with laspy.open(bytes(img)) as rd:
            las = rd.read()
            return (lasio.rec_bytes(las.points), rd.header.point_format.size)
    if route == "chunk_iterator":
        with laspy.open(io.BytesIO(img)) as rd:
            ps = rd.header.point_format.size
            return (b"".join(lasio.rec_bytes(c) for c in rd.chunk_iterator(3)), ps)
    if route == "path":
        fd, p = tempfile.mkstemp(suffix=".las", dir="/var/tmp")
        try:
            with os.fdopen(fd, "wb") as f:
                f.write(img)
            las = laspy.read(p)
            return (lasio.rec_bytes(las.points), las.header.point_format.size)
        finally:
            os.unlink(p)
    raise ValueError(route)


ROUTES = ["open(read_evlrs=False)", "chunk_iterator", "open(laz_backend=())", "open(bytes)", "path"]
_CACHE = {}


def read_image(img, limit=READ_LIMIT):
    """('ok', point bytes, psize) | ('err', kind) | ('hang',) | ('skipped',) - cached by image bytes"""
    r = _CACHE.get(img)
    if r is None:
        t = _with_timeout(lambda: _read_plain(img), limit)
        r = ("ok", t[1][0], t[1][1]) if t[0] == "ok" else t
        _CACHE[img] = r
    return r


def apply_trace(base, trace, k, j):
    buf = bytearray(base)

    def wr(pos, bs):
        if pos > len(buf):
            buf.extend(b"\0" * (pos - len(buf)))
        buf[pos:pos + len(bs)] = bs
    for pos, bs in trace[:k]:
        wr(pos, bs)
    if k < len(trace):
        pos, bs = trace[k]
        wr(pos, bs[:j])
    return bytes(buf)


# (kind, version, EVLRs wanted (None = random), VLRs forced)
TEMPLATES = [(k, v, None, True) for v in lasio.VERSIONS for k in ("write", "chunked", "append")] + \
            [("chunked", "1.4", True, False), ("append", "1.4", True, False), ("write", "1.4", True, True), ("append", None, None, False), ("chunked", None, None, False)]


def gen_session(ctx, template=None):
    """returns dict(kind, base, trace, intended point bytes (what the session accepted), psize, desc, final)"""
    import laspy
    from laspy.lasappender import LasAppender
    from laspy.vlrs.vlrlist import VLRList
    rng = ctx.rng
    kind, ver, want_evl, want_vlrs = template or (rng.choice(["write", "chunked", "chunked", "append"]), None, None, False)
    h = lasio.rand_header(rng, version=ver, nvlrs=rng.choice([1, 2, 3]) if want_vlrs else None)
    if rng.random() < 0.25:
        lasio.add_extra_dims(rng, h, 1)
    enc = {}
    if rng.random() < 0.25:
        # header strings / VLR descriptions that are not ASCII (laspy hands them back as bytes); they can only be written with a lenient
        # encoding_errors, which must change nothing else
        lasio.make_nonascii(rng, h)
        enc = {"encoding_errors": rng.choice(["ignore", "replace"])}
    ps = h.point_format.size
    evl = None
    if h.version.minor >= 4 and (want_evl or (want_evl is None and rng.random() < 0.6)):
        evl = VLRList([lasio.rand_vlr(rng, 120) for _ in range(rng.choice([1, 2]))])
    desc = dict(lasio.describe_header(h), kind=kind, evlrs=len(evl or []), stale_count=int(h.point_count), open_kwargs=dict(enc))
    if kind == "write" and not enc:
        n = rng.choice([0, 1, 3, 9])
        las = laspy.LasData(header=h, points=lasio.sweep_points(rng, h, n))
        if evl is not None:
            las.evlrs = evl
        st = lasio.LogStream3()
        las.write(st)
        return dict(kind=kind, base=b"", trace=st.trace, ops=st.ops, intended=lasio.rec_bytes(las.points), ps=ps, desc=dict(desc, points=n), final=st.getvalue())
    if kind in ("chunked", "write"):
        # any order of calls the API accepts or refuses: chunks (also empty), the EVLRs, chunks AFTER the EVLRs and after close (refused: they
        # must leave no trace), close; what counts is what write_points accepted
        st = lasio.LogStream3()
        via = rng.choice(["class", "open"])
        w = lasio.open_writer(st, h, via, enc)
        pts, shape = b"", []
        state = "open"
        for _ in range(rng.randrange(1, 7)):
            r = rng.random()
            if r < 0.7 or (state != "open" and r < 0.9):
                c = lasio.sweep_points(rng, h, rng.choice([0, 1, 2, 5]), start=rng.randrange(16))
                try:
                    w.write_points(c)
                    if len(c):
                        pts += lasio.rec_bytes(c)
                    shape.append(f"P{len(c)}")
                except Exception as ex:
                    shape.append(f"P{len(c)}!{common.exc_kind(ex)}")
            elif r < 0.85 and state == "open" and evl is not None:
                w.write_evlrs(evl)
                shape.append(f"E{len(evl)}")
                state = "evlrs"
            elif r >= 0.9 and state != "closed":
                w.close()
                shape.append("C")
                state = "closed"
        if state == "open" and evl is not None and rng.random() < 0.7:
            w.write_evlrs(evl)
            shape.append(f"E{len(evl)}")
            if rng.random() < 0.5:
                c = lasio.sweep_points(rng, h, rng.choice([1, 3]))
                try:
                    w.write_points(c)
                    pts += lasio.rec_bytes(c)
                    shape.append(f"P{len(c)}")
                except Exception as ex:
                    shape.append(f"P{len(c)}!{common.exc_kind(ex)}")
        if state != "closed":
            w.close()
            shape.append("C")
        return dict(kind="chunked", base=b"", trace=st.trace, ops=st.ops, intended=pts, ps=ps, desc=dict(desc, kind="chunked", via=via, ops=shape), final=st.getvalue())
    # append
    A = lasio.sweep_points(rng, h, rng.choice([0, 1, 4]))
    if rng.random() < 0.2 and not enc:
        # a legal file laspy did not write: a WKT record padded with several NULs, which laspy re-serialises SHORTER (one NUL).
        # The in-place header rewrite of the append then cannot keep its size: whatever the appender does, the points must stay readable
        h.vlrs.append(laspy.VLR("LASF_Projection", 2112, "", b'GEOGCS["WGS 84"]' + bytes(rng.choice([2, 4, 7]))))
        desc["padded_wkt_vlr"] = True
    b0 = io.BytesIO()
    with lasio.open_writer(b0, h, "class", enc) as w0:
        if len(A):
            w0.write_points(A)
        if evl:
            w0.write_evlrs(evl)
    raw0 = b0.getvalue()
    if evl and rng.random() < 0.5:
        gp = rng.choice([1, ps, 2 * ps + 3])
        raw0 = lasio.with_gap(raw0, gp, fill=rng.choice([0x00, 0xAA])) or raw0
        desc["gap"] = gp
    st = lasio.LogStream3(raw0)
    via = rng.choice(["class", "open"])
    akw = dict(enc)
    if via == "open" and rng.random() < 0.5:
        akw["laz_backend"] = rng.choice([None, ()])
    try:
        ap = laspy.open(st, mode="a", closefd=False, **akw) if via == "open" else LasAppender(st, closefd=False, **akw)
    except Exception as ex:
        if st.getvalue() != raw0 or st.trace:
            raise
        # an original the appender cannot re-write (padded WKT record) refused before anything was touched: nothing to interrupt
        return dict(kind=kind, base=raw0, trace=[], intended=lasio.rec_bytes(A), ps=ps, desc=dict(desc, refused_at_open=type(ex).__name__), final=raw0, refused=True)
    st.trace.clear()
    st.ops.clear()
    pts = lasio.rec_bytes(A)
    sizes = []
    for ci in range(rng.randrange(1 if template else 0, 4)):
        c = lasio.sweep_points(rng, h, rng.choice([0, 1, 3]) if ci else rng.choice([1, 3, 6]), start=rng.randrange(16))
        ap.append_points(c)
        pts += lasio.rec_bytes(c)
        sizes.append(len(c))
    try:
        ap.close()
    except Exception as ex:
        desc["close_raised"] = type(ex).__name__
    return dict(kind=kind, base=raw0, trace=st.trace, ops=st.ops, intended=pts, ps=ps, desc=dict(desc, via=via, open_kwargs={k: repr(v) for k, v in akw.items()}, orig=len(A), chunks=sizes), final=st.getvalue())


def images_of(ctx, s):
    """(label, image) for crash points at every write-call boundary and torn inside every write (every byte for writes of at
    most 48 bytes - the header is written field by field -, a dense sample otherwise), and truncations of the complete file: EVERY length
    from 0 to offset_to_point_data + 2 records and from the last 2 records to the end (EVLR area included), a sample in between"""
    tr = s.get("ops") or [("W", p_, b_) for p_, b_ in s["trace"]]      # writes and truncations, in the order issued
    out = []
    for k in range(len(tr) + 1):
        out.append((f"after {k} writes", lasio.apply_ops(s["base"], tr, k, 0)))
    for k, op in enumerate(tr):
        if op[0] != "W":
            continue
        n = len(op[2])
        if n <= 1:
            continue
        if n <= 48 or ctx.thorough():
            js = range(1, n)
        else:
            js = sorted(set(list(range(1, 12)) + list(range(n - 11, n)) + [ctx.rng.randrange(1, n) for _ in range(12)]))
        for j in js:
            out.append((f"write {k} torn at {j}", lasio.apply_ops(s["base"], tr, k, j)))
    fin = s["final"]
    ps = s["ps"]
    try:
        d = lasio.parse_raw(fin)
        off, endp = d["offset"], d["offset"] + d["count"] * d["psize"]
    except ValueError:
        off, endp = 420, len(fin)
    if ctx.thorough() or len(fin) <= 900:
        lens = range(len(fin) + 1)
    else:
        lens = sorted(set(list(range(0, min(len(fin), off + 2 * ps + 2))) + [ctx.rng.randrange(len(fin)) for _ in range(150)]
                          + list(range(max(0, min(endp, len(fin)) - 2 * ps - 1), len(fin) + 1))))
    for n in lens:
        out.append((f"truncated to {n}", fin[:n]))
    return out


def _gather_from_zero(tr, start):
    """contiguous writes starting at position 0 from index `start`: returns (bytes, next index)"""
    buf = b""
    i = start
    while i < len(tr) and tr[i][0] == len(buf):
        buf += tr[i][1]
        i += 1
        if len(buf) >= 100 and len(buf) >= int.from_bytes(buf[96:100], "little"):
            break
    while i < len(tr) and len(tr[i][1]) == 0:      # empty writes (e.g. no padding bytes) carry nothing
        i += 1
    return buf, i


def check_discipline(s):
    """the write discipline the theorems assume, checked on the recorded trace: the header (+VLRs) first, announcing zero points;
    then only appends; last, the header again, contiguously from 0, exactly up to the first point (never beyond)"""
    tr = s["trace"]
    if not tr:
        return "no writes recorded"
    if s["kind"] != "append":
        if tr[0][0] != 0:
            return "first write is not at position 0"
        hdr0, i = _gather_from_zero(tr, 0)
        if len(hdr0) < 227:
            return "initial header writes are not contiguous"
        off = int.from_bytes(hdr0[96:100], "little")
        if len(hdr0) != off:
            return f"initial header writes cover {len(hdr0)} bytes, offset_to_point_data is {off}"
        minor = hdr0[25]
        cnt = int.from_bytes(hdr0[247:255], "little") if minor >= 4 else int.from_bytes(hdr0[107:111], "little")
        if cnt != 0:
            return f"the header first put on disk announces {cnt} points before any point is written"
        j = next((k for k in range(i, len(tr)) if tr[k][0] == 0), None)
        if j is None:
            return "no final header rewrite"
        pos = off
        for p, b in tr[i:j]:
            if p != pos:
                return f"a data write at {p}, expected an append at {pos}"
            pos += len(b)
        hdr1, e = _gather_from_zero(tr, j)
        if e != len(tr) or len(hdr1) != off:
            return f"final header rewrite covers {len(hdr1)} bytes (the points start at {off}) or is followed by other writes"
    else:
        base = s["base"]
        off = int.from_bytes(base[96:100], "little")
        j = next((k for k in range(len(tr)) if tr[k][0] < off), None)
        # append_trace of Proofs/CrashAppendProofs.v: the data writes start where the old points end (over the old EVLRs) and are contiguous
        cnt0 = int.from_bytes(base[247:255], "little") if base[25] >= 4 else int.from_bytes(base[107:111], "little")
        pos = off + cnt0 * int.from_bytes(base[105:107], "little")
        for p_, b_ in tr[:len(tr) if j is None else j]:
            if p_ != pos:
                return f"an append session writes at {p_}, expected the end of the stored data at {pos}"
            pos += len(b_)
        if j is not None:
            if tr[j][0] != 0:
                return "the header area is touched not starting at 0"
            hdr1, e = _gather_from_zero(tr, j)
            if e != len(tr) or len(hdr1) != off:
                return f"header rewrite of the append covers {len(hdr1)} bytes (points start at {off}) or is not the last thing written"
    return None


def nonascii_user_id(img):
    """True when some VLR/EVLR user id of the image (decoded leniently, as the reader does) holds a byte >= 128. The Coq
    model treats every such id as undecodable (ASSUMPTION: 'decodable' = ASCII); CPython accepts it when the bytes happen to be valid
    UTF-8. Such images are compared on the property only, not model-vs-implementation."""
    try:
        if len(img) < 227:
            return False
        off = int.from_bytes(img[96:100], "little")
        hs = int.from_bytes(img[94:96], "little")
        nv = min(int.from_bytes(img[100:104], "little"), 1000)
        minor = img[25]
        pos = hs
        stream = img[:max(off, 227)]
        for _ in range(nv):
            uid = stream[pos + 2:pos + 18].split(b"\0")[0]
            if any(b >= 128 for b in uid):
                return True
            ln = int.from_bytes(stream[pos + 20:pos + 22], "little")
            pos += 54 + ln
        if minor >= 4:
            st = int.from_bytes(img[235:243], "little")
            ne = min(int.from_bytes(img[243:247], "little"), 1000)
            pos = st
            for _ in range(ne):
                uid = img[pos + 2:pos + 18].split(b"\0")[0]
                if any(b >= 128 for b in uid):
                    return True
                ln = int.from_bytes(img[pos + 20:pos + 28], "little")
                pos += 60 + ln
                if pos > len(img):
                    break
    except Exception:
        return False
    return False


def huge_evlr_length(img):
    """True when an EVLR length field the reader will meet (header pointer followed leniently) is >= 2**63: CPython's read() refuses
    such a size with OverflowError where the model (unbounded integers, lengths clamped to the bytes available) reads on. Raising is
    within the property; such images are compared on the property only."""
    try:
        if len(img) < 375 or img[25] < 4:
            return False
        pos = int.from_bytes(img[235:243], "little")
        ne = min(int.from_bytes(img[243:247], "little"), 1000)
        for _ in range(ne):
            if pos + 28 > len(img):
                return False
            ln = int.from_bytes(img[pos + 20:pos + 28], "little")
            if ln >= 2 ** 63:
                return True
            pos += 60 + ln
    except Exception:
        return False
    return False


# ---------------------------------------------------------------------------------
# fault sequences: one low-level write fails (torn), the session goes on and is closed normally
# ---------------------------------------------------------------------------------
def _fault_plan(ctx, kind, volume, empty_original=False):
    """a session description: header, chunks (total size about `volume` bytes), EVLRs, original file for an appender"""
    from laspy.vlrs.vlrlist import VLRList
    rng = ctx.rng
    h = lasio.rand_header(rng, version=rng.choice(lasio.VERSIONS), nvlrs=rng.choice([0, 1, 2]))
    ps = h.point_format.size
    k = rng.choice([1, 2, 3, 5, 8]) if volume < 20000 else rng.choice([5, 9, 23, 47])
    per = max(1, volume // (k * ps))
    sizes = [max(1, per + rng.choice([-1, 0, 0, 1, 3]) * rng.randrange(1, max(2, per // 3 + 1))) for _ in range(k)]
    if volume < 20000 and rng.random() < 0.3:
        sizes[rng.randrange(k)] = 0
    chunks = [lasio.sweep_points(rng, h, n, start=rng.randrange(16)) if n <= 64 else _bulk_points(rng, h, n) for n in sizes]
    evl = VLRList([lasio.rand_vlr(rng, 80) for _ in range(rng.choice([1, 2]))]) if (h.version.minor >= 4 and rng.random() < 0.6) else None
    plan = {"kind": kind, "header": h, "chunks": chunks, "evl": evl, "sizes": sizes}
    if kind == "appender":
        plan["orig"] = lasio.sweep_points(rng, h, 0 if empty_original else rng.choice([0, 2, 5]))
        plan["base"] = lasio.write_las(h, plan["orig"], evl)
    return plan


def _bulk_points(rng, h, n):
    """n records, all distinct (a counter in X, random other bytes), cheap to build for large n"""
    import laspy
    rec = laspy.PackedPointRecord.zeros(n, h.point_format)
    ps = rec.array.dtype.itemsize
    raw = np.frombuffer(rng.randbytes(n * ps), dtype=np.uint8).copy().reshape(n, ps)
    rec.array = raw.reshape(-1).view(rec.array.dtype).copy()
    rec.array["X"] = np.arange(n, dtype=np.int32) + rng.randrange(1 << 20)
    return rec


class _Len:
    """stands for a long run of bytes of which only the length matters"""

    def __init__(self, n):
        self.n = n

    def __len__(self):
        return self.n


def _fault_run(plan, policy, fail_at, keep, exc=None):
    """executes the plan on laspy with the fail_at-th low-level write after the open torn (keep bytes stored, then the exception class `exc`
    of lasio.FAULT_EXCS is raised: every errno class, BlockingIOError, exceptions that are not OSErrors) - fail_at None: no fault.
    policy 'with': the exception leaves the with-block; 'close': the caller catches it, issues nothing more and closes; 'continue': the caller
    catches it and goes on with the next operation; 'retry': the caller repeats the refused write_points once, then goes on.
    Returns dict(final, accepted, fault, where, trace, nwrites, base)."""
    import laspy
    kind, h = plan["kind"], plan["header"]
    base = plan.get("base", b"")
    st = lasio.LogStream3(base)
    if kind == "writer":
        w = laspy.open(st, mode="w", header=h, closefd=False)
        put = w.write_points
    else:
        st.seek(0)
        w = laspy.open(st, mode="a", closefd=False)
        put = w.append_points
    n_open = len(st.trace)
    if fail_at is not None:
        st.arm(fail_at, keep, exc=exc)
    accepted = lasio.rec_bytes(plan["orig"]) if kind == "appender" else b""
    where, log = None, []

    def guarded(name, fn, *a):
        """True when the call returned; a call that raises counts as failed - it must be the injected fault (or follow it)"""
        nonlocal where
        try:
            fn(*a)
            return True
        except Exception as ex:
            if st.raised is None:
                raise              # no fault was injected yet: the session itself cannot be run
            if where is None:
                where = name
            log.append(name + "!" + type(ex).__name__)
            return False
    if policy == "with":
        try:
            with w:
                for c in plan["chunks"]:
                    try:
                        put(c)
                    except Exception:
                        where = "write_points"
                        raise
                    accepted += lasio.rec_bytes(c)
                if kind == "writer" and plan["evl"]:
                    try:
                        w.write_evlrs(plan["evl"])
                    except Exception:
                        where = where or "write_evlrs"
                        raise
        except Exception:
            if st.raised is None:
                raise
            where = where or "close"
    elif policy == "close":
        failed = False
        for c in plan["chunks"]:
            if guarded("write_points", put, c):
                accepted += lasio.rec_bytes(c)
            else:
                failed = True
                break
        if not failed and kind == "writer" and plan["evl"]:
            failed = not guarded("write_evlrs", w.write_evlrs, plan["evl"])
        guarded("close", w.close)
    else:
        for c in plan["chunks"]:
            if guarded("write_points", put, c):
                accepted += lasio.rec_bytes(c)
            elif policy == "retry" and guarded("write_points(retry)", put, c):
                accepted += lasio.rec_bytes(c)
        if kind == "writer" and plan["evl"]:
            guarded("write_evlrs", w.write_evlrs, plan["evl"])
        guarded("close", w.close)
    # long data writes are kept as lengths only (the discipline check needs positions and lengths; the header fields are short)
    slim = [(p_, b_ if len(b_) <= 4096 else _Len(len(b_))) for p_, b_ in st.trace[n_open:]]
    return {"final": st.getvalue(), "accepted": accepted, "fault": st.fault, "where": where, "trace": slim, "nwrites": len(st.trace) - n_open,
            "base": base, "open_trace": st.trace[:n_open], "exc": exc, "raised": type(st.raised).__name__ if st.raised is not None else None}


def fault_discipline(plan, run):
    """the shape of a faulted trace the theorems C19_fault_safe / C19_fault_safe_append assume (fault_trace / fault_append_trace of
    Proofs/FaultProofs.v), checked on the recorded writes of a session whose failed write was a POINT write: every point write starts at the
    end of the data accepted so far, the failed one too; what follows a write that stored bytes (only the closing writes: the EVLRs) lies
    behind the accepted data; then the header, contiguously from 0, exactly up to the first point, last"""
    f = run["fault"]
    if f is None or not str(run["where"]).startswith("write_points"):
        return None
    tr = run["trace"]
    fi = f[0] - len(run["open_trace"])
    stored = f[3]
    if plan["kind"] == "writer":
        hdr0 = b"".join(b for _, b in run["open_trace"])
        off = int.from_bytes(hdr0[96:100], "little")
        pos = off
    else:
        base = run["base"]
        d = lasio.parse_raw(base)
        off = d["offset"]
        pos = off + d["count"] * d["psize"]
    for i, (p, b) in enumerate(tr):
        if len(b) == 0 and i != fi:
            continue
        if p < off:
            if p != 0:
                return f"the header area is touched at {p}, not from 0"
            hdr1, e = _gather_from_zero(tr, i)
            if e != len(tr) or len(hdr1) != off:
                return f"final header rewrite covers {len(hdr1)} bytes (the points start at {off}) or is followed by other writes"
            return None
        if i <= fi or stored == 0:
            if p != pos:
                return f"a data write at {p}, expected at the end of the accepted data {pos}"
            if i != fi:
                pos += len(b)
        elif p < pos:
            return f"after a torn write a write at {p} goes INTO the accepted data, which ends at {pos}"
    return None


def library_writes_after_torn(plan, run, policy):
    """a torn write (bytes stored, the call raised) followed only by close / __exit__: the CALLER issues no further data write, so the only
    bytes the library may still put behind the header are the EVLRs an appender re-emits when it is closed (a writer's EVLRs are written by
    the caller's write_evlrs, which is not called). Returns a description of what was written beyond that, or None."""
    f = run["fault"]
    if f is None or f[3] == 0 or policy not in ("with", "close") or not str(run["where"]).startswith("write_points"):
        return None
    fi = f[0] - len(run["open_trace"])
    if plan["kind"] == "writer":
        off = int.from_bytes(b"".join(b for _, b in run["open_trace"])[96:100], "little")
        allowed = 0
    else:
        d = lasio.parse_raw(run["base"])
        off = d["offset"]
        try:
            allowed = lasio.raw_walk_vlrs(run["base"], d["evlr_start"], d["nevlrs"], True)[1] - d["evlr_start"] if d["nevlrs"] else 0
        except ValueError:
            return None
    extra = [(p, len(b)) for p, b in run["trace"][fi + 1:] if p >= off and len(b)]
    if sum(n for _, n in extra) != allowed:
        return (f"after the torn write (call raised {run.get('raised')}) the library itself wrote {sum(n for _, n in extra)} more bytes behind the header "
                f"{extra[:4]}; only the {allowed} bytes of the re-emitted EVLRs may follow when the caller issues nothing but close")
    return None


def fault_cases(ctx):
    """(plan, policy, run) over writer and appender sessions of several volumes (a few KB to beyond 1 MB: writers that gather chunks into
    blocks only show their state when a block fills up), every policy, fault positions spread over the writes of the session, torn
    lengths 0 / 1 / a third / all but one byte"""
    out = []
    rng = ctx.rng
    volumes = [600, 3000, 9000, 70000, 150000, 300000] + ([1200000] if not ctx.thorough() else [1200000, 2500000, 5000000])
    keeps = [lambda n: 0, lambda n: min(1, n), lambda n: n // 3, lambda n: max(n - 1, 0), lambda n: n // 2 + 1]
    reps = ctx.n(2, 8)
    nexc = [ctx.seed]
    for rep in range(reps):
        for kind in ("writer", "appender"):
            for vol in volumes + (["empty"] if kind == "appender" else []):
                # "empty": an appender on a file that holds no point yet (its header has the zero extrema of an empty cloud), in every run
                empty, vol = (vol == "empty"), (900 if vol == "empty" else vol)
                if vol >= 1000000 and rep > 0:
                    continue          # the largest sessions once per kind
                try:
                    plan = _fault_plan(ctx, kind, vol, empty_original=empty)
                    dry = _fault_run(plan, "continue", None, None)
                except Exception as ex:
                    # the fault-free session itself cannot be run on this tree: reported by search as a failing input
                    import traceback
                    out.append(({"kind": kind, "header": None, "chunks": [], "evl": None, "sizes": [], "volume": vol}, "none", None,
                                {"error": f"fault-free {kind} session of about {vol} bytes raised {type(ex).__name__}: {ex} | " + traceback.format_exc()[-300:]}))
                    continue
                nw = dry["nwrites"]
                if nw == 0:
                    continue
                # candidate positions: the point writes are the first ones after the open; the EVLRs and the header fields follow
                data_writes = [i for i, (p, b) in enumerate(dry["trace"]) if p != 0 and len(b) >= plan["header"].point_format.size]
                picks = set()
                if data_writes:
                    picks.update([data_writes[0], data_writes[-1], rng.choice(data_writes), rng.choice(data_writes)])
                    if len(data_writes) > 2:
                        picks.add(data_writes[len(data_writes) // 2])
                picks.add(rng.randrange(nw))
                for fa in sorted(picks):
                    for policy in ("with", "continue", "retry", "close"):
                        # (a) nothing stored: any continuation; (b) torn (bytes stored): only close / __exit__ follows.
                        # The exception class rotates through lasio.FAULT_EXCS: every errno class with every policy over a run
                        keep = rng.choice(keeps[1:] if rng.random() < 0.8 else keeps) if policy in ("with", "close") else keeps[0]
                        exc = lasio.FAULT_EXC_NAMES[nexc[0] % len(lasio.FAULT_EXC_NAMES)]
                        nexc[0] += 1 if policy != "retry" else 3
                        try:
                            run = _fault_run(plan, policy, fa, keep, exc)
                        except Exception as ex:
                            run = {"error": f"{type(ex).__name__}: {ex}"}
                        out.append((plan, policy, fa, run))
    return out


def describe_fault(plan, policy, fa, run):
    if plan.get("header") is None:
        return {"kind": plan["kind"], "volume": plan.get("volume")}
    d = dict(lasio.describe_header(plan["header"]), kind=plan["kind"], chunks=plan["sizes"], evlrs=len(plan["evl"] or []), policy=policy,
             failing_write=fa)
    if plan["kind"] == "appender":
        d["orig_points"] = len(plan["orig"])
    if run.get("fault"):
        d["fault"] = {"position": run["fault"][1], "bytes_asked": run["fault"][2], "bytes_stored": run["fault"][3], "raised_in": run["where"],
                      "raises": f"{run.get('exc')} ({run.get('raised')})"}
    return d


# ---------------------------------------------------------------------------------
# (1) destinations that ALREADY hold a LAS file when the write starts
# ---------------------------------------------------------------------------------
UNWRITABLE = ["system_identifier", "generating_software", "vlr description", "vlr payload too long", "none", "none", "none"]


def _make_unwritable(rng, h, what):
    """a header laspy starts to write and then cannot finish (public behaviour: the exception leaves LasData.write / laspy.open after some
    bytes of the new header reached the destination)"""
    import laspy
    if what == "system_identifier":
        h.system_identifier = "Café " + lasio.rand_ascii(rng, 5)          # cannot be encoded as ASCII (strict)
    elif what == "generating_software":
        h.generating_software = "schön " + lasio.rand_ascii(rng, 3)
    elif what == "vlr description":
        h.vlrs.append(laspy.VLR("Harness", 7, "déscription", b"\x01\x02"))
    elif what == "vlr payload too long":
        h.vlrs.append(laspy.VLR("Harness", 8, "too long for a VLR", bytes(65536 + rng.randrange(5))))


def overwrite_cases(ctx):
    """sessions writing to a PATH that already holds a LAS file (longer / shorter / same size, same or another version and format):
    LasData.write(path), laspy.open(path, mode='w') + chunks, and the same with a header that cannot be written completely (a string that
    cannot be encoded, a VLR that is too long: the call raises after some bytes). Returns dicts(desc, initial, ops, new point bytes, ps,
    old point bytes, on_disk (what the path holds afterwards), raised)"""
    import copy
    import shutil
    import laspy
    from laspy.vlrs.vlrlist import VLRList
    rng = ctx.rng
    out = []
    tmpd = tempfile.mkdtemp(dir="/var/tmp", prefix="c19_over_")
    try:
        for it in range(ctx.n(26, 220)):
            ver = rng.choice(lasio.VERSIONS)
            h_old = lasio.rand_header(rng, version=ver, nvlrs=rng.choice([0, 1, 2]))
            n_old = rng.choice([1, 3, 12, 40])
            old_pts = lasio.sweep_points(rng, h_old, n_old)
            evl_old = VLRList([lasio.rand_vlr(rng, 60)]) if (h_old.version.minor >= 4 and rng.random() < 0.4) else None
            old = lasio.write_las(h_old, old_pts, evl_old)
            rel = rng.choice(["same header", "same header", "same version and format", "other"])
            if rel == "same header":
                h = copy.deepcopy(h_old)          # the first bytes of the new file agree with the old one as long as possible
            elif rel == "same version and format":
                h = lasio.rand_header(rng, version=ver, fmt=h_old.point_format.id)
            else:
                h = lasio.rand_header(rng)
            n_new = rng.choice([0, 1, 5, n_old, n_old, 2 * n_old + 3])
            route = rng.choice(["LasData.write(path)", "LasData.write(path)", "laspy.open(path, mode=w)"])
            what = UNWRITABLE[it % len(UNWRITABLE)]
            _make_unwritable(rng, h, what)
            evl = VLRList([lasio.rand_vlr(rng, 60)]) if (h.version.minor >= 4 and rng.random() < 0.4) else None
            path = os.path.join(tmpd, f"f{it}.las")
            with open(path, "wb") as f:
                f.write(old)
            chunks = []
            left = n_new
            while left > 0:
                k = min(left, rng.choice([1, 2, 5, 40]))
                chunks.append(lasio.sweep_points(rng, h, k, start=rng.randrange(16)))
                left -= k
            new_pts = b"".join(lasio.rec_bytes(c) for c in chunks)
            desc = dict(lasio.describe_header(h), route=route, old_file=dict(lasio.describe_header(h_old), points=n_old, bytes=len(old)), new_points=n_new,
                        relation=rel, unwritable=what, evlrs=len(evl or []))
            raised = None
            with lasio.intercept_open(path) as made:
                try:
                    if route.startswith("LasData"):
                        las = laspy.LasData(header=h)
                        las.points = laspy.PackedPointRecord.from_buffer(bytearray(new_pts), h.point_format) if n_new else laspy.PackedPointRecord.zeros(0, h.point_format)
                        if evl:
                            las.evlrs = evl
                        las.write(path)
                    else:
                        with laspy.open(path, mode="w", header=h) as w:
                            for c in chunks:
                                w.write_points(c)
                            if evl:
                                w.write_evlrs(evl)
                except Exception as ex:
                    raised = f"{type(ex).__name__}: {ex}"[:200]
            with open(path, "rb") as f:
                on_disk = f.read()
            os.unlink(path)
            if not made:
                out.append({"error": f"{route}: the path was never opened for writing ({raised})", "desc": desc})
                continue
            lf = made[0]
            out.append({"desc": dict(desc, open_mode=lf.mode, raised=raised), "initial": lf.initial, "ops": lf.ops, "new": new_pts, "ps": h.point_format.size,
                        "old": lasio.rec_bytes(old_pts), "old_file": old, "on_disk": on_disk, "raised": raised, "what": what})
    finally:
        shutil.rmtree(tmpd, ignore_errors=True)
    return out


def overwrite_images(ctx, c):
    """crash images of one overwrite session: after every operation; at EVERY byte of the writes of the first header (that is where what the
    path held before can still show), a sample of the bytes of the later writes"""
    ops = c["ops"]
    out = []
    first_hdr = True
    pos_seen = 0
    for k in range(len(ops) + 1):
        if k > 0:
            out.append((f"after {k} operations", lasio.apply_ops(c["initial"], ops, k, 0)))
        if k == len(ops) or ops[k][0] != "W":
            continue
        _, pos, bs = ops[k]
        if k > 0 and pos == 0:
            first_hdr = False
        if pos < pos_seen:
            first_hdr = False
        pos_seen = max(pos_seen, pos + len(bs))
        n = len(bs)
        if first_hdr and (n <= 64 or ctx.thorough()):
            js = range(1, n)
        elif n <= 8:
            js = range(1, n)
        else:
            js = sorted(set([1, n // 2, n - 1] + ([ctx.rng.randrange(1, n)] if n > 3 else [])))
        for j in js:
            if 0 < j < n:
                out.append((f"operation {k} (a write of {n} bytes at {pos}) torn at {j}", lasio.apply_ops(c["initial"], ops, k, j)))
    return out


# ---------------------------------------------------------------------------------
# (2) two-level histories: the image an interrupted session left is the original of a second (append) session
# ---------------------------------------------------------------------------------
def _count_field_ops(ops, base):
    """indices of the writes that touch the point-count fields of the header rewrite"""
    minor = base[25] if len(base) > 25 else 2
    spans = [(107, 111)] + ([(247, 255)] if minor >= 4 else [])
    return [k for k, op in enumerate(ops) if op[0] == "W" and any(op[1] < b and op[1] + len(op[2]) > a for a, b in spans)]


def level1_points(rng, ops, base):
    """crash points (k, j) of a first session worth continuing from: inside and at the end of the point writes, around the EVLR rewrite,
    around and inside the rewrite of the point count, the complete session"""
    off = int.from_bytes(base[96:100], "little") if len(base) >= 100 else 227
    data = [k for k, op in enumerate(ops) if op[0] == "W" and op[1] >= off and len(op[2])]
    pts = set()
    for k in data[:3] + data[-2:]:
        n = len(ops[k][2])
        pts.update([(k, max(1, n // 3)), (k, n - 1), (k + 1, 0)])
        if n > 40:
            pts.add((k, rng.randrange(1, n)))
    hdr = [k for k, op in enumerate(ops) if op[0] == "W" and op[1] < off]
    if hdr:
        pts.add((hdr[0], 0))
    for k in _count_field_ops(ops, base):
        n = len(ops[k][2])
        pts.update([(k, 0), (k + 1, 0)] + [(k, j) for j in range(1, n)])
    pts.add((len(ops), 0))
    return sorted(p for p in pts if p[0] <= len(ops))


def history_cases(ctx):
    """dicts(desc, base (image left by session 1), expected (what that image reads as ++ what session 2 appends), ops2, level-2 images ...).
    Session 1: an append session on a clean file interrupted at a crash point (write call or byte), or a writer session one of whose chunk
    writes was refused half way and which was then closed by its context manager (bytes are left behind the last counted point).
    Session 2: laspy.open(image, mode='a'), chunks, close - recorded, and interrupted in turn at every operation and inside the header rewrite."""
    import laspy
    from laspy.vlrs.vlrlist import VLRList
    rng = ctx.rng
    out = []
    for it in range(ctx.n(16, 140)):
        h = lasio.rand_header(rng, version=rng.choice(lasio.VERSIONS), nvlrs=rng.choice([0, 1, 2]))
        ps = h.point_format.size
        evl = VLRList([lasio.rand_vlr(rng, 60) for _ in range(rng.choice([1, 2]))]) if (h.version.minor >= 4 and rng.random() < 0.45) else None
        A = lasio.sweep_points(rng, h, rng.choice([0, 2, 5]))
        first = "appender" if it % 4 else "writer with a chunk refused half way"
        desc0 = dict(lasio.describe_header(h), evlrs=len(evl or []), first_session=first)
        try:
            if first == "appender":
                base0 = lasio.write_las(h, A, evl)
                st = lasio.LogStream3(base0)
                ap = laspy.open(st, mode="a", closefd=False)
                st.ops.clear()
                B = [lasio.sweep_points(rng, h, rng.choice([1, 3, 6]), start=rng.randrange(16)) for _ in range(rng.choice([1, 2, 3]))]
                for c in B:
                    ap.append_points(c)
                ap.close()
                seq1 = lasio.rec_bytes(A) + b"".join(lasio.rec_bytes(c) for c in B)
                ops1 = list(st.ops)
                l1 = [(k, j, lasio.apply_ops(base0, ops1, k, j)) for k, j in level1_points(rng, ops1, base0)]
                desc0["first_chunks"] = [len(c) for c in B]
                desc0["orig_points"] = len(A)
            else:
                plan = {"kind": "writer", "header": h, "chunks": [lasio.sweep_points(rng, h, rng.choice([1, 2, 4]), start=rng.randrange(16)) for _ in range(rng.choice([2, 3]))],
                        "evl": None, "sizes": None}
                l1 = []
                nchunks = len(plan["chunks"])
                for fa in sorted(set([rng.randrange(nchunks), nchunks - 1])):
                    keep = rng.choice([lambda n: 1, lambda n: n // 2, lambda n: n - 1, lambda n: max(1, n - ps)])
                    run = _fault_run(plan, rng.choice(["with", "close"]), fa, keep, rng.choice(lasio.FAULT_EXC_NAMES))
                    # (the open of a writer issues many small writes; fail_at counts writes after the open: chunk number fa)
                    l1.append((fa, run["fault"][3] if run["fault"] else 0, run["final"]))
                    seq1 = run["accepted"]
                seq1 = None
                desc0["first_chunks"] = [len(c) for c in plan["chunks"]]
        except Exception as ex:
            import traceback
            out.append({"error": f"first session raised {type(ex).__name__}: {ex} | " + traceback.format_exc()[-400:], "desc": desc0})
            continue
        for k1, j1, img1 in l1:
            d = dict(desc0, first_interrupted=f"operation {k1}, {j1} bytes of it" if first == "appender" else f"chunk {k1} torn after {j1} bytes, then closed")
            r1 = read_image(img1)
            if r1[0] != "ok":
                ctx.count("history:image-1 refused by the reader")
                continue
            P1 = r1[1]
            if seq1 is not None and seq1[:len(P1)] != P1:
                out.append({"level1": True, "desc": d, "img": img1, "why": judge(P1, ps, seq1)})
                continue
            st2 = lasio.LogStream3(img1)
            try:
                ap2 = laspy.open(st2, mode="a", closefd=False)
            except Exception as ex:
                ctx.count("history:image-1 refused by the appender")
                continue
            if st2.ops:
                out.append({"error": f"opening an appender wrote to the file: {[(o[0], o[1]) for o in st2.ops[:4]]}", "desc": d})
            st2.ops.clear()
            st2.trace.clear()
            C = [lasio.sweep_points(rng, h, rng.choice([1, 2, 5]), start=rng.randrange(16)) for _ in range(rng.choice([1, 1, 2]))]
            expected = P1
            closed = None
            try:
                for c in C:
                    ap2.append_points(c)
                    expected += lasio.rec_bytes(c)
                ap2.close()
            except Exception as ex:
                closed = f"{type(ex).__name__}: {ex}"[:200]
            out.append({"desc": dict(d, second_chunks=[len(c) for c in C], image1_points=len(P1) // ps, image1_bytes=len(img1), second_raised=closed),
                        "base": img1, "ops": list(st2.ops), "trace": list(st2.trace), "expected": expected, "ps": ps, "final": st2.getvalue(), "closed": closed})
    return out


def history_images(ctx, c):
    ops = c["ops"]
    out = []
    cf = set(_count_field_ops(ops, c["base"]))
    for k in range(len(ops) + 1):
        out.append((f"second session after {k} operations", lasio.apply_ops(c["base"], ops, k, 0)))
        if k == len(ops) or ops[k][0] != "W":
            continue
        n = len(ops[k][2])
        if k in cf or ctx.thorough():
            js = range(1, n)
        elif n > 8:
            js = sorted(set([1, n // 2, n - 1]))
        else:
            js = []
        for j in js:
            if 0 < j < n:
                out.append((f"second session operation {k} torn at {j}", lasio.apply_ops(c["base"], ops, k, j)))
    return out


# ---------------------------------------------------------------------------------
# round 7: SCALE-AWARE sessions - the chunks are records carrying their own scales / offsets (points read from another file), equal to or different
# from the scaling of the header the writer was given / of the file appended to. What was written is a sequence of points with REAL-WORLD
# coordinates: a crash image that announces the points under a scaling other than the one their raw integers are expressed in returns points that
# were not written. Judged on x / y / z = X * scale + offset as laspy.read of the image reports them, and on every other byte of the records.
# ---------------------------------------------------------------------------------
def _read_world(img):
    import laspy
    las = laspy.read(io.BytesIO(img))
    return (lasio.rec_bytes(las.points), las.header.point_format.size, [np.array(las.x, dtype=np.float64), np.array(las.y, dtype=np.float64), np.array(las.z, dtype=np.float64)],
            [float(v) for v in las.header.scales], [float(v) for v in las.header.offsets])


def _behind_xyz(recs, ps):
    return b"".join(recs[i * ps + 12:(i + 1) * ps] for i in range(len(recs) // ps))


def scaled_cases(ctx):
    """dicts(kind, desc, base, ops, ps, other (the bytes of the accepted records behind X/Y/Z), world (3 arrays: the real-world coordinates of
    original ++ accepted points), tol (3 floats: half a grid step of the destination + of the source), final, images)"""
    import laspy
    from laspy.lasappender import LasAppender
    rng = ctx.rng
    out = []
    for it in range(ctx.n(36, 300)):
        kind = ("writer", "appender")[it % 2]
        ver = lasio.VERSIONS[(it // 2) % len(lasio.VERSIONS)]
        try:
            how_h = rng.choice(["default scaling", "default scaling", "random", "small"])
            if how_h == "default scaling":
                # a header created without saying anything about the scaling (laspy's defaults)
                h = laspy.LasHeader(version=ver, point_format=rng.choice(lasio.COMPAT[ver]))
            elif how_h == "small":
                h = lasio.small_header(rng, ver)
            else:
                h = lasio.rand_header(rng, version=ver, nvlrs=rng.choice([0, 1]))
            hs, ho = np.array(h.scales, dtype=np.float64), np.array(h.offsets, dtype=np.float64)
            ps = h.point_format.size
            rel = rng.choice(["same", "other", "other", "other scales", "other offsets"])
            ss = hs * (rng.choice([0.1, 0.5, 2.0, 10.0]) if rel in ("other", "other scales") else 1.0)
            so = ho + (np.array([rng.choice([1000.0, -250.0, 5000.0, 100000.0]) for _ in range(3)]) * hs if rel in ("other", "other offsets") else 0.0)
            n0 = 0
            world = [np.zeros(0), np.zeros(0), np.zeros(0)]
            other = b""
            base = b""
            if kind == "appender":
                n0 = rng.choice([0, 0, 0, 2, 5])       # an EMPTY original (no stored point depends on its scaling) in most sessions
                A = lasio.sweep_points(rng, h, n0)
                base = lasio.write_las(h, A)
                world = [A.array[kx].astype(np.float64) * hs[j] + ho[j] for j, kx in enumerate("XYZ")]
                other = _behind_xyz(lasio.rec_bytes(A), ps)
            st = lasio.LogStream3(base)
            via = rng.choice(["class", "open"])
            if kind == "writer":
                w = lasio.open_writer(st, h, via, {})
                put = w.write_points
            else:
                st.seek(0)
                w = laspy.open(st, mode="a", closefd=False) if via == "open" else LasAppender(st, closefd=False)
                put = w.append_points
                st.ops.clear()
                st.trace.clear()
            sizes = []
            for ci in range(rng.choice([1, 2, 3])):
                k = rng.choice([1, 2, 3, 7]) if ci == 0 else rng.choice([0, 1, 4])
                c0 = lasio.sweep_points(rng, h, k, start=rng.randrange(16))
                for kx in "XYZ":
                    c0.array[kx] = np.array([rng.randrange(-30000, 30001) for _ in range(k)], dtype=np.int32)
                first_same = rel != "same" and ci > 0 and rng.random() < 0.3     # a later chunk in the destination's own scaling
                cs, co = (hs, ho) if first_same else (ss, so)
                rec = laspy.ScaleAwarePointRecord(c0.array.copy(), c0.point_format, cs.copy(), co.copy())
                want = [c0.array[kx].astype(np.float64) * cs[j] + co[j] for j, kx in enumerate("XYZ")]
                put(rec)
                world = [np.concatenate([a_, b_]) for a_, b_ in zip(world, want)]
                other += _behind_xyz(lasio.rec_bytes(c0), ps)
                sizes.append(k)
            w.close()
            tol = [0.5 * abs(hs[j]) * (1 + 1e-9) + 0.5 * abs(ss[j]) * (1e-9) for j in range(3)]
            c = dict(kind=kind, base=base, ops=list(st.ops), ps=ps, other=other, world=world, tol=tol, final=st.getvalue(),
                     desc=dict(lasio.describe_header(h), kind=kind, via=via, header_scaling=how_h, destination_scales=hs.tolist(), destination_offsets=ho.tolist(),
                               chunk_scaling=rel, chunk_scales=ss.tolist(), chunk_offsets=so.tolist(), orig_points=n0, chunks=sizes))
            c["images"] = scaled_images(ctx, c)
            out.append(c)
        except Exception as ex:
            import traceback
            out.append({"error": f"{type(ex).__name__}: {ex} | " + traceback.format_exc()[-500:], "desc": {"generator": f"scale-aware {kind} session", "version": ver}})
    return out


def scaled_images(ctx, c):
    """after every operation; torn at EVERY byte of the writes of the in-place header rewrite (everything written below the first point after the
    first data write) and of short writes, at 1 / half / all but one byte of the others"""
    ops, base = c["ops"], c["base"]
    out = []
    data_seen = False
    off = int.from_bytes(c["final"][96:100], "little") if len(c["final"]) >= 100 else 227
    for k in range(len(ops) + 1):
        out.append((f"after {k} operations", lasio.apply_ops(base, ops, k, 0)))
        if k == len(ops) or ops[k][0] != "W":
            continue
        pos, n = ops[k][1], len(ops[k][2])
        if pos >= off and n:
            data_seen = True
        rewrite = data_seen and pos < off
        if (rewrite and n <= 64) or n <= 8 or ctx.thorough():
            js = range(1, n)
        else:
            js = sorted(set([1, n // 2, n - 1]))
        for j in js:
            if 0 < j < n:
                out.append((f"operation {k} (a write of {n} bytes at {pos}) torn at {j}", lasio.apply_ops(base, ops, k, j)))
    return out


def judge_world(r, c):
    """the property on one reading of an image of a scale-aware session: a prefix of the points the session accepted - every byte behind X/Y/Z
    as given, x / y / z within half a grid step of the destination of the real-world coordinates given"""
    recs, ps, xyz, isc, iof = r
    if ps != c["ps"] or len(recs) % ps:
        return f"{len(recs)} bytes of records of {ps} bytes (the session writes records of {c['ps']} bytes)"
    n = len(recs) // ps
    total = len(c["world"][0])
    if n > total:
        return f"{n} records returned, the session accepted {total}"
    got_other = _behind_xyz(recs, ps)
    if got_other != c["other"][:len(got_other)]:
        return f"{n} records returned; their bytes behind X/Y/Z are not those of the first {n} points the session accepted"
    for j, kx in enumerate("xyz"):
        want = c["world"][j][:n]
        have = xyz[j]
        tol = c["tol"][j] + 8 * np.spacing(np.maximum(np.maximum(np.abs(want), np.abs(have)), 1e-300))
        with np.errstate(invalid="ignore"):
            bad = np.flatnonzero(~(np.abs(want - have) <= tol))
        if len(bad):
            i = int(bad[0])
            return (f"{n} records returned; {kx} of point {i} reads {have[i]!r}, the point written there has {kx} = {want[i]!r} (the image announces scales {isc} offsets {iof}; "
                    f"the destination was given {c['desc']['destination_scales']} / {c['desc']['destination_offsets']}, the chunks came with {c['desc']['chunk_scales']} / {c['desc']['chunk_offsets']})")
    return None


_SCALED = None


def scaled(ctx):
    global _SCALED
    if _SCALED is None:
        _SCALED = scaled_cases(ctx)
    return _SCALED


_OVER = None
_HIST = None
_RICH = None


def rich_cases(ctx):
    """round 6: rich writer / appender sessions (no rescaled chunks: what is stored is known byte for byte) with their images"""
    global _RICH
    if _RICH is None:
        _RICH = []
        for i in range(ctx.n(110, 500)):
            kind = ("writer", "appender")[i % 2]
            try:
                s_ = lasio.rs_session(ctx.rng, kind, ctx.thorough(), rescale=False, version="1.4" if i % 6 == 1 else None)
                s_["images"] = rich_images(ctx, s_)
                _RICH.append(s_)
            except Exception as ex:
                import traceback
                _RICH.append({"error": f"{type(ex).__name__}: {ex} | " + traceback.format_exc()[-600:], "desc": {"generator": f"rich {kind} session"}})
    return _RICH


def rich_images(ctx, s_):
    """images of a rich session: after every operation; torn at 1 / half / all but one byte of every write, at EVERY byte of the writes that
    touch the header size, the offset to the points, the number of VLRs or the point counts (bytes 94..104, 107..111, 247..255)"""
    ops, base = s_["ops"], s_["base"]
    spans = [(94, 104), (107, 111), (247, 255)]
    out = []
    for k in range(len(ops) + 1):
        out.append((f"after {k} operations", lasio.apply_ops(base, ops, k, 0)))
        if k == len(ops) or ops[k][0] != "W":
            continue
        n = len(ops[k][2])
        pos = ops[k][1]
        if any(pos < b and pos + n > a for a, b in spans) or ctx.thorough():
            js = range(1, n)
        elif n > 3:
            js = sorted(set([1, n // 2, n - 1]))
        else:
            js = []
        for j in js:
            out.append((f"operation {k} (a write of {n} bytes at {pos}) torn at {j}", lasio.apply_ops(base, ops, k, j)))
    return out


def overwrites(ctx):
    global _OVER
    if _OVER is None:
        _OVER = overwrite_cases(ctx)
    return _OVER


def histories(ctx):
    global _HIST
    if _HIST is None:
        _HIST = history_cases(ctx)
    return _HIST


_DATA = None
_FAULTS = None


def data(ctx):
    global _DATA
    if _DATA is None:
        _DATA = []
        for si in range(ctx.n(40, 340)):
            try:
                s = gen_session(ctx, TEMPLATES[si % len(TEMPLATES)])
            except Exception as ex:
                import traceback
                _DATA.append({"error": repr(ex) + " " + traceback.format_exc()[-400:]})
                continue
            s["images"] = images_of(ctx, s)
            _DATA.append(s)
    return _DATA


def faults(ctx):
    global _FAULTS
    if _FAULTS is None:
        _FAULTS = fault_cases(ctx)
    return _FAULTS


def dest_image_correspondence(ctx):
    """dest_image (Model/LasDest.v: positioned writes and truncations on a destination that already holds bytes - the object the theorems
    C19_overwrite_* speak about) computed by the extracted model on the operations recorded from the implementation, against the images the
    harness judges (lasio.apply_ops)"""
    ok, log = common.build_driver("c06")
    if not ok:
        return [{"kind": "dest_image: driver could not be built", "input": None, "model": log[-400:], "impl": None}]
    rng = ctx.rng
    lines, want, meta = [], [], []
    srcs = [(c["initial"], c["ops"], c["desc"]) for c in overwrites(ctx) if "error" not in c and c["ops"]]
    srcs += [(c["base"], c["ops"], c["desc"]) for c in histories(ctx) if "error" not in c and not c.get("level1") and c["ops"]][:40]
    # sessions that truncate in the middle (an appender on a file with unused bytes before its EVLRs) come from the crash-image sessions
    srcs += [(s["base"], s["ops"], s["desc"]) for s in data(ctx) if "error" not in s and s.get("ops") and any(o[0] == "T" for o in s["ops"])][:30]
    for base, ops, desc in srcs:
        if len(base) > 6000 or sum(len(o[2]) for o in ops if o[0] == "W") > 12000:
            continue
        toks = " ".join(f"T{o[1]}" if o[0] == "T" else f"W{o[1]}:{common.hexb(o[2])}" for o in ops)
        for _ in range(3):
            k = rng.randrange(len(ops) + 1)
            j = rng.randrange(len(ops[k][2]) + 1) if k < len(ops) and ops[k][0] == "W" and rng.random() < 0.6 else 0
            lines.append(f"dimg {common.hexb(base)} {k} {j} {toks}")
            want.append(lasio.apply_ops(base, ops, k, j))
            meta.append((desc, k, j))
    out = []
    for (desc, k, j), w, mo in zip(meta, want, common.run_model(lines, name="c06")):
        ctx.traces += 1
        ctx.count("dest_image")
        if mo != common.hexb(w):
            out.append({"kind": "dest_image: the model's image of a recorded operation sequence differs from the harness's", "input": {"session": desc, "k": k, "j": j},
                        "model": mo[:80], "impl": common.hexb(w)[:80]})
    return out


def correspond(ctx):
    ctx.extra["rule"] = ("sessions: LasData.write, LasWriter sessions (class or laspy.open, chunks incl. empty ones, EVLRs, chunks after the EVLRs / after close "
                         "which must be refused), appender sessions (class or laspy.open, laz_backend None/()), every version x kind with VLRs, +-EVLRs, stale "
                         "statistics, 25% with non-ASCII header strings / VLR descriptions written with encoding_errors=ignore/replace; low-level writes "
                         "recorded by a logging stream; crash images after every write call, at every byte inside writes of <= 48 bytes (the header is written "
                         "field by field) and a dense sample of the longer ones, truncations at EVERY length up to offset_to_point_data + 2 records and from "
                         "the last 2 records to the end; final images of fault sequences (one torn write raising every errno class / BlockingIOError / non-OSError "
                         "exceptions, then with-exit, close only, continued use or a retry by the caller). Round 5: writes to a PATH that already holds a LAS file "
                         "(longer / shorter / same size, same or other version; LasData.write(path), laspy.open(path, mode=w), headers that cannot be written "
                         "completely) with the open mode, the contents after the open and every write / truncate recorded at the OS boundary, images at every "
                         "operation and every byte of the first header; two-level histories (an append session on the image an interrupted appender / a writer "
                         "with a half-refused chunk left, interrupted in turn at every operation and every byte of the point count). Round 6: rich writer / appender sessions "
                         "(chunks selected in every way, the source's format object changed in place, other files read / written meanwhile, the session's OWN header edited "
                         "between chunks - VLR of k records appended, VLR removed / grown, extra bytes, extra dimension -, close twice / close inside with / chunks after "
                         "close, closefd False / True): images after every operation, torn inside every write, the file afterwards. Round 7: writer / appender sessions fed with SCALE-AWARE records whose scaling equals / differs from the destination's (default-scaling headers, empty originals), images at every operation and every byte of the header rewrite judged on real-world coordinates. non-trivial = image length "
                         "> 227; distinct by image bytes (each distinct image is evaluated once)")
    dis = []
    cmds, meta, seen = [], [], set()
    for s in data(ctx):
        if "error" in s:
            continue
        for label, img in s["images"]:
            if img in seen:
                continue
            seen.add(img)
            cmds.append("read_file " + common.hexb(img))
            meta.append((s, label, img))
    for plan, policy, fa, run in faults(ctx):
        img = run.get("final")
        if img is None or len(img) > 20000 or img in seen:
            continue
        seen.add(img)
        cmds.append("read_file " + common.hexb(img))
        meta.append(({"kind": "fault-" + plan["kind"], "desc": describe_fault(plan, policy, fa, run)}, "final image of a fault sequence", img))
    # round 5: images of sessions whose destination already held a file, and of append sessions on the image an interrupted session left
    # (a sample of each: the reader of the model against laspy.read); the images themselves are ALSO computed by the model (dest_image of
    # Model/LasDest.v, driver "c06") from the recorded operations and compared with the harness's own apply_ops
    extra = []
    for c in overwrites(ctx):
        if "error" in c or not c["ops"]:
            continue
        imgs = overwrite_images(ctx, c)
        for label, img in imgs[::max(1, len(imgs) // 12)]:
            extra.append(({"kind": "overwrite", "desc": c["desc"]}, label, img))
    for c in histories(ctx):
        if "error" in c or c.get("level1") or not c["ops"]:
            continue
        imgs = history_images(ctx, c)
        for label, img in imgs[::max(1, len(imgs) // 6)]:
            extra.append(({"kind": "history", "desc": c["desc"]}, label, img))
    for c in rich_cases(ctx):
        if "error" in c:
            continue
        # (the model does not parse the extra-bytes record: an image torn INSIDE that record makes laspy raise - which the property allows - where
        # the model reads on; sessions with extra dimensions are compared on the images between operations only)
        imgs = [im_ for im_ in c["images"] if not c["desc"].get("extra_dims") or im_[0].startswith("after")]
        for label, img in imgs[::max(1, len(imgs) // 10)] + [("the file afterwards", c["final"])]:
            extra.append(({"kind": "rich-" + c["kind"], "desc": c["desc"]}, label, img))
    for s_, label, img in extra:
        if img not in seen and len(img) <= 20000:
            seen.add(img)
            cmds.append("read_file " + common.hexb(img))
            meta.append((s_, label, img))
    dis += dest_image_correspondence(ctx)
    # round 6: the in-place header rewrite of the first close of every rich session (the session's own header edited or not) against
    # guarded_rewrite of Model/LasEnd.v (theorems C19_own_header_...): refused leaving the destination alone, or every byte from the first point on kept
    ok_, _log = common.build_driver("c06")
    if ok_:
        rg = [(c, lasio.rs_grw_cmd(c)) for c in rich_cases(ctx)]
        rg = [(c, m) for c, m in rg if m]
        for (c, _), mo in zip(rg, common.run_model([m for _, m in rg], name="c06")):
            ctx.traces += 1
            ctx.count(f"grw:{c['kind']}:{'edited' if c['edited'] else 'plain'}:{mo.split(' ')[0]}")
            why = lasio.rs_grw_problem(c, mo)
            if why:
                dis.append({"kind": f"in-place header rewrite at close ({c['kind']})", "input": c["desc"], "model": mo[:60], "impl": why})
    outs = common.run_model(cmds)
    for (s, label, img), mo in zip(meta, outs):
        im = read_image(img)
        if im[0] == "skipped":
            continue
        ctx.traces += 1
        ctx.case(img, nontrivial=len(img) > 227, sample={"session": s["desc"], "image": label, "len": len(img), "impl": im[0] if im[0] != "ok" else f"ok {len(im[1]) // max(im[2], 1)} points"})
        ctx.count("image:" + label.split(" ")[0] + ":" + im[0])
        t = mo.split(" ")
        if im[0] == "ok":
            good = t[0] == "ok" and common.unhex(t[7]) == im[1]
        elif im[0] == "err":
            good = t[0] == "err"
        else:
            good = False
        if not good and t[0] == "err" and im[0] == "ok" and nonascii_user_id(img):
            ctx.count("outside-model:non-ascii-user-id-valid-utf8")
            continue
        if not good and t[0] == "ok" and im == ("err", "EOverflow") and huge_evlr_length(img):
            ctx.count("outside-model:evlr-length-beyond-2^63")
            continue
        if not good:
            dis.append({"kind": f"read of crash image ({s['kind']}, {label.split(' ')[0]})", "input": {"session": s["desc"], "image": label, "image_hex": img.hex() if len(img) < 3000 else img[:3000].hex()},
                        "model": mo[:60], "impl": im[0] + (" " + im[1] if im[0] == "err" else "")})
    return dis


def judge(got, ps, intended):
    """the property on one reading: whole records, a prefix of what the session accepted"""
    if ps and len(got) % ps:
        return f"{len(got)} bytes of records is not a whole number of {ps}-byte records"
    if intended[:len(got)] != got:
        n = len(got) // max(ps, 1)
        bad = next((i for i in range(n) if got[i * ps:(i + 1) * ps] != intended[i * ps:(i + 1) * ps]), n)
        return (f"{n} records returned; they are not a prefix of the {len(intended) // max(ps, 1)} records the session accepted "
                f"(record {bad} was never written at that position)")
    return None


def _guarded(add, name, fn):
    """runs one section of the search; if the section itself cannot be run on this tree (an exception escaping from laspy where the
    unchanged tree raises none), that is reported as a failing input instead of losing the findings of the other sections"""
    try:
        fn()
    except Exception as ex:
        import traceback
        add(f"search section '{name}' could not be run on this tree", {"section": name}, f"{type(ex).__name__}: {ex} | " + traceback.format_exc()[-700:])


def search(ctx, seeds):
    failing, seen = [], set()

    def add(kind, inp, why):
        if kind not in seen:
            seen.add(kind)
            failing.append({"kind": kind, "input": inp, "observed": why})
    def sec_crash_images_and_truncations():
        done = set()
        nroute = 0
        for s in data(ctx):
            if "error" in s:
                add("session failed", {}, s["error"])
                continue
            why = check_discipline(s) if not s.get("refused") else None
            if why:
                add("write discipline: " + why.split(",")[0][:60], {"session": s["desc"], "trace": [(p, len(b)) for p, b in s["trace"]][:200]}, why)
            intended = s["intended"]
            # the complete file must give back everything the session accepted
            fin = read_image(s["final"])
            if fin[0] == "ok" and fin[1] != intended and "close_raised" not in s["desc"]:
                add(f"{s['kind']}: the complete file does not hold the accepted points", {"session": s["desc"], "image_hex": s["final"].hex()[:6000]},
                    judge(fin[1], fin[2], intended) or f"{len(fin[1]) // max(fin[2], 1)} records read, {len(intended) // max(s['ps'], 1)} accepted")
            elif fin[0] == "err" and "close_raised" not in s["desc"]:
                add(f"{s['kind']}: the complete file cannot be read", {"session": s["desc"], "image_hex": s["final"].hex()[:6000]}, fin[1])
            for label, img in s["images"]:
                key = (img, intended)
                if key in done:
                    continue
                done.add(key)
                im = read_image(img)
                cls = label.split(" ")[0]
                if im[0] == "hang":
                    add("reader does not terminate", {"session": s["desc"], "image": label, "image_len": len(img), "image_hex": img.hex()[:6000]},
                        f"laspy.read of this {len(img)}-byte image was still running after {READ_LIMIT} s")
                elif im[0] == "ok":
                    why = judge(im[1], im[2], intended)
                    if why:
                        add(f"{s['kind']}: image '{cls}' yields points that were not written", {"session": s["desc"], "image": label, "image_hex": img.hex()[:6000]}, why)
                # the other public reading routes, on a sample
                if im[0] != "skipped" and len(done) % 9 == 0 and not (im[0] == "ok" and judge(im[1], im[2], intended)) and im[0] != "hang":
                    route = ROUTES[nroute % len(ROUTES)]
                    nroute += 1
                    r = _with_timeout(lambda: _read_route(img, route), READ_LIMIT)
                    ctx.count("route:" + route + ":" + r[0])
                    if r[0] == "hang":
                        add(f"reader does not terminate ({route})", {"session": s["desc"], "image": label, "route": route, "image_hex": img.hex()[:6000]},
                            f"still running after {READ_LIMIT} s")
                    elif r[0] == "ok":
                        why = judge(r[1][0], r[1][1], intended)
                        if why:
                            add(f"{s['kind']}: image '{cls}' read through {route} yields points that were not written",
                                {"session": s["desc"], "image": label, "route": route, "image_hex": img.hex()[:6000]}, why)
    _guarded(add, 'crash images and truncations', sec_crash_images_and_truncations)
    def sec_destination_holds_a_file():
        for c in overwrites(ctx):
            if "error" in c:
                add("write to a path that holds a file: the session could not be run", c["desc"], c["error"])
                continue
            d = c["desc"]
            ctx.count(f"overwrite:{d['route']}:{d['relation']}:{'raised' if c['raised'] else 'completed'}")
            if c["raised"] and c["what"] == "none":
                add("write to a path that holds a file: the session raised", d, c["raised"])
            new, ps = c["new"], c["ps"]
            # the discipline the theorem (C19_overwrite_safe) assumes: the destination is emptied before the first byte is written
            first_w = next((i for i, op in enumerate(c["ops"]) if op[0] == "W" and len(op[2])), None)
            emptied = len(c["initial"]) == 0 or any(op == ("T", 0) for op in c["ops"][:first_w or 0])
            # what the path really holds afterwards (complete session: exactly the new points; refused half way: raise or a prefix)
            final_imgs = [("the file on disk afterwards", c["on_disk"])]
            imgs = final_imgs + (overwrite_images(ctx, c) if c["ops"] else [])
            bad = None
            for label, img in imgs:
                im = read_image(img)
                ctx.case(("overwrite", img), nontrivial=len(img) > 227)
                if im[0] == "hang":
                    add("reader does not terminate (destination held a file)", dict(d, image=label, image_hex=img.hex()[:6000]), "laspy.read still running")
                elif im[0] == "ok":
                    why = judge(im[1], im[2], new)
                    if why is None and label.startswith("the file on disk") and not c["raised"] and im[1] != new:
                        why = f"the complete file holds {len(im[1]) // max(ps, 1)} of the {len(new) // max(ps, 1)} points written"
                    if why and bad is None:
                        oldp = c["old"]
                        if im[1] and oldp[:len(im[1])] == im[1]:
                            why += f" - they are {len(im[1]) // max(im[2], 1)} points of the file the path held BEFORE"
                        bad = (label, img, why)
            if bad:
                label, img, why = bad
                add("destination already held a LAS file: an interrupted write yields points that were not written (the old ones)" if "BEFORE" in why else
                    "destination already held a LAS file: an interrupted write yields points that were not written",
                    dict(d, image=label, image_hex=img.hex()[:6000], destination_emptied_first=emptied), why)
            elif not emptied and c["ops"]:
                add("write discipline: the destination is not emptied before the new header is written", dict(d, first_operations=[(o[0], o[1]) for o in c["ops"][:6]]),
                    f"the path was opened with mode {d.get('open_mode')!r} and still held {len(c['initial'])} bytes when the first write was issued")
    _guarded(add, 'destination already holds a file', sec_destination_holds_a_file)
    def sec_two_level_histories():
        for c in histories(ctx):
            if "error" in c:
                add("two-level history: a session could not be run", c["desc"], c["error"])
                continue
            if c.get("level1"):
                add("append: image yields points that were not written (first level of a history)", dict(c["desc"], image_hex=c["img"].hex()[:6000]), c["why"])
                continue
            d = c["desc"]
            ctx.count("history:" + d["first_session"].split(" ")[0])
            why = check_discipline({"kind": "append", "base": c["base"], "trace": c["trace"]}) if c["trace"] else None
            if why and not c["closed"]:
                add("append session on the image an interrupted session left: write discipline", dict(d, trace=[(p_, len(b_)) for p_, b_ in c["trace"]][:60]), why)
            fin = read_image(c["final"])
            if not c["closed"]:
                if fin[0] == "ok" and fin[1] != c["expected"]:
                    add("append session on the image an interrupted session left: the complete file does not hold old ++ appended points",
                        dict(d, image_hex=c["final"].hex()[:6000]), judge(fin[1], fin[2], c["expected"]) or f"{len(fin[1]) // max(fin[2], 1)} records read, {len(c['expected']) // c['ps']} expected")
                elif fin[0] == "err":
                    add("append session on the image an interrupted session left: the complete file cannot be read", dict(d, image_hex=c["final"].hex()[:6000]), fin[1])
            for label, img in history_images(ctx, c):
                im = read_image(img)
                ctx.case(("history", img), nontrivial=len(img) > 227)
                if im[0] == "hang":
                    add("reader does not terminate (two-level history)", dict(d, image=label, image_hex=img.hex()[:6000]), "laspy.read still running")
                elif im[0] == "ok":
                    why = judge(im[1], im[2], c["expected"])
                    if why:
                        add("append session on the image an interrupted session left: an image yields points that were not written", dict(d, image=label, image_hex=img.hex()[:6000]), why)
                        break
    _guarded(add, 'two-level histories', sec_two_level_histories)
    def sec_rich_sessions():
        for c in rich_cases(ctx):
            if "error" in c:
                add("rich session could not be run", c["desc"], c["error"])
                continue
            d = c["desc"]
            tag = lasio.rs_tag(c)
            ctx.count("rich:" + tag.split(":")[0])
            for k_, why in lasio.rs_outcome_problems(c):
                add(tag + k_, d, why)
            if any(a is None for a in c["accepted"]):
                continue       # a chunk of another format was accepted (reported above): what the file should hold is not defined
            intended, ps = c["accepted_bytes"], c["ps"]
            closed_ok = bool(c["closes"]) and c["closes"][0] == "ok"
            fin = read_image(c["final"])
            ctx.case(("rich", c["final"]), nontrivial=len(c["final"]) > 227, sample={"session": d, "impl": fin[0]})
            if fin[0] == "hang":
                add(tag + "reader does not terminate", dict(d, image="the file afterwards", image_hex=c["final"].hex()[:6000]), "laspy.read still running")
            elif fin[0] == "ok":
                why = judge(fin[1], fin[2], intended)
                if why is None and closed_ok and fin[1] != intended:
                    why = f"the session was closed normally and accepted {len(intended) // max(ps, 1)} points, the file gives back {len(fin[1]) // max(fin[2], 1)}"
                if why:
                    add(tag + "the file afterwards yields points that were not written" if "prefix" in why or "whole number" in why else tag + "the complete file does not hold the accepted points",
                        dict(d, image="the file afterwards", image_hex=c["final"].hex()[:6000]), why)
                    continue
            elif fin[0] == "err" and closed_ok and not c["edited"]:
                add(tag + "the complete file cannot be read", dict(d, image_hex=c["final"].hex()[:6000]), fin[1])
            for label, img in c["images"]:
                im = read_image(img)
                ctx.case(("rich", img), nontrivial=len(img) > 227)
                if im[0] == "hang":
                    add(tag + "reader does not terminate", dict(d, image=label, image_hex=img.hex()[:6000]), "laspy.read still running")
                    break
                if im[0] == "ok":
                    why = judge(im[1], im[2], intended)
                    if why:
                        add(tag + "an image yields points that were not written", dict(d, image=label, image_hex=img.hex()[:6000]), why)
                        break
    _guarded(add, 'selections / other files / own header edited / endings', sec_rich_sessions)
    def sec_fault_sequences():
        for plan, policy, fa, run in faults(ctx):
            d = describe_fault(plan, policy, fa, run)
            if "error" in run:
                add("fault sequence: the session could not be run", d, run["error"])
                continue
            ctx.case(("fault", run["final"][:4000], len(run["final"])), nontrivial=run["fault"] is not None)
            ctx.count(f"fault:{plan['kind']}:{policy}:{run['where']}")
            why = fault_discipline(plan, run)
            if why:
                add(f"fault sequence ({plan['kind']}): write discipline", d, why)
            why = library_writes_after_torn(plan, run, policy)
            if why:
                add(f"fault sequence ({plan['kind']}): the library issues data writes of its own after a torn write", d, why)
            ctx.count(f"fault-exc:{run.get('exc')}:{'torn' if run['fault'] and run['fault'][3] else 'nothing stored'}")
            img = run["final"]
            r = _with_timeout(lambda: _read_plain(img), READ_LIMIT + len(img) / 2e6)
            if r[0] == "hang":
                add("reader does not terminate (file left by a fault sequence)", d, "laspy.read still running")
            elif r[0] == "ok":
                why = judge(r[1][0], r[1][1], run["accepted"])
                if why:
                    tag = ("exception leaves the with-block" if policy == "with" else ("caller only closes after the failed write" if policy == "close" else
                           f"caller goes on after a write in {run['where']} failed with nothing stored"))
                    add(f"fault sequence ({plan['kind']}, {tag}): points that were not written", dict(d, image_hex=img.hex()[:4000]), why)
    _guarded(add, 'fault sequences', sec_fault_sequences)
    def sec_scale_aware_sessions():
        for c in scaled(ctx):
            if "error" in c:
                add("scale-aware session could not be run", c["desc"], c["error"])
                continue
            d = c["desc"]
            ctx.count(f"scaled:{c['kind']}:{d['header_scaling']}:{d['chunk_scaling']}:{'empty original' if c['kind'] == 'appender' and not d['orig_points'] else 'n'}")
            # the discipline behind it: the in-place header rewrite of close() only brings the counters / statistics / EVLR pointers up to date; the
            # fields the stored records are INTERPRETED with (version, header size, offset to the points, format, record length, scales, offsets) are
            # on disk before the first point and never change afterwards (the session's own header is not edited here)
            first = c["base"] if c["kind"] == "appender" else next((lasio.apply_ops(c["base"], c["ops"], k_, 0) for k_, o_ in enumerate(c["ops"])
                                                                    if o_[0] == "W" and o_[1] >= int.from_bytes(c["final"][96:100], "little") and len(o_[2])), c["final"])
            for a_, b_, what in ((24, 26, "version"), (94, 100, "header size / offset to the points"), (104, 107, "point format / record length"), (131, 155, "scales"), (155, 179, "offsets")):
                if first[a_:b_] != c["final"][a_:b_]:
                    add(f"write discipline ({c['kind']}): the header rewrite at close changes the {what} the records already stored are read with", dict(d, field=what, bytes=[a_, b_]),
                        f"bytes {a_}..{b_} were {first[a_:b_].hex()} when the first point was stored and are {c['final'][a_:b_].hex()} in the closed file: a crash inside the rewrite "
                        "leaves a file that announces points under a scaling / layout they were not written in")
                    break
            fin = _with_timeout(lambda: _read_world(c["final"]), READ_LIMIT)
            if fin[0] == "ok":
                why = judge_world(fin[1], c)
                if why is None and len(fin[1][0]) != len(c["world"][0]) * c["ps"]:
                    why = f"the complete file gives back {len(fin[1][0]) // c['ps']} of the {len(c['world'][0])} points"
                if why:
                    add(f"scale-aware chunks ({c['kind']}): the complete file does not hold the points given (real-world coordinates)", dict(d, image_hex=c["final"].hex()[:6000]), why)
                    continue
            elif fin[0] == "err":
                add(f"scale-aware chunks ({c['kind']}): the complete file cannot be read", dict(d, image_hex=c["final"].hex()[:6000]), fin[1])
                continue
            done = set()
            for label, img in c["images"]:
                if img in done:
                    continue
                done.add(img)
                r = _with_timeout(lambda: _read_world(img), READ_LIMIT)
                ctx.case(("scaled", img), nontrivial=len(img) > 227)
                if r[0] == "hang":
                    add("reader does not terminate (scale-aware session)", dict(d, image=label, image_hex=img.hex()[:6000]), "laspy.read still running")
                    break
                if r[0] == "ok":
                    why = judge_world(r[1], c)
                    if why:
                        add(f"scale-aware chunks ({c['kind']}): an image yields points that were not written (real-world coordinates differ)" if " reads " in why else
                            f"scale-aware chunks ({c['kind']}): an image yields points that were not written", dict(d, image=label, image_hex=img.hex()[:6000]), why)
                        break
    _guarded(add, 'scale-aware sessions', sec_scale_aware_sessions)
    return failing[:10]


def replay(ctx, data_):
    inp = data_.get("failing_input", {}).get("input", {})
    if "image_hex" not in inp:
        print("nothing to replay (re-run ./check C19 with the same VERIF_SEED)")
        return 0
    im = read_image(bytes.fromhex(inp["image_hex"]))
    print("laspy.read of the image:", im[0], (len(im[1]) if im[0] == "ok" else im[1:]))
    return 0
