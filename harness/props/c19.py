"""C19 — interrupted writes and truncated files never yield points that were not written.
Model: read_file of Model/Las.v on crash images / truncations (theorems truncation_safe, crash_safe, crash_safe_append, fault_safe); the
write discipline the theorems assume (header with count 0 first, points appended in order, EVLRs, in-place header rewrite of identical
length; after a failed low-level write the next write starts where the failed one started) is checked on the traces recorded from the
implementation. Correspondence: read_file vs laspy.read on every distinct image. Search: laspy.read (under a timeout: reading must TERMINATE)
of each image compared with the point sequence the session accepted; a sample of the images is also read through the other public routes
(laspy.open with read_evlrs=False / laz_backend=() / chunk_iterator / a file on disk)."""
import io
import os
import signal
import tempfile

import numpy as np

from harness import common, lasio

ASSUMPTIONS = ["a write is torn at a byte boundary; bytes beyond the torn point keep their previous content",
               "what EVLRs / statistics a crash image shows is unconstrained by the property",
               "fault sequences judged: ONE low-level write of the session fails with OSError, every later write succeeds, and either (a) the failed "
               "write stored NO byte - then the session may go on in any way (the exception leaves the with-block, or the caller catches it and issues "
               "more chunks / the same chunk again, then closes) - or (b) it stored a prefix of its bytes (torn) and the session performs no further "
               "point write: only close() / __exit__ (which re-emit the EVLRs and rewrite the header) or nothing at all (a crash image). A torn write "
               "that stored bytes FOLLOWED BY MORE POINT WRITES of the same session is outside the property as stated (an interrupted session is a "
               "prefix of the write trace; laspy does not seek back over the bytes a failed write left) and is not judged"]

READ_LIMIT = 4.0          # seconds granted to one laspy.read of an image of a few KB (a normal read takes < 1 ms)


class Timeout(Exception):
    pass


def _alarm(signum, frame):
    raise Timeout()


_HANGS = [0]


def _with_timeout(fn, limit):
    """('ok', value) | ('err', kind) | ('hang',). After the first hang the remaining reads get a short limit: the verdict is already
    a failing input, the run must not take hours."""
    if _HANGS[0] >= 6:
        return ("skipped",)
    lim = limit if _HANGS[0] == 0 else 0.4
    old = signal.signal(signal.SIGALRM, _alarm)
    signal.setitimer(signal.ITIMER_REAL, lim)
    try:
        return ("ok", fn())
    except Timeout:
        _HANGS[0] += 1
        return ("hang",)
    except Exception as ex:
        return ("err", common.exc_kind(ex))
    finally:
        signal.setitimer(signal.ITIMER_REAL, 0)
        signal.signal(signal.SIGALRM, old)


def _read_plain(img):
    import laspy
    las = laspy.read(io.BytesIO(img))
    return (lasio.rec_bytes(las.points), las.header.point_format.size)


def _read_route(img, route):
    """the other public ways of reading the same bytes: they must obey the same rule"""
    import laspy
    if route == "open(read_evlrs=False)":
        with laspy.open(io.BytesIO(img), read_evlrs=False) as rd:
            las = rd.read()
            return (lasio.rec_bytes(las.points), rd.header.point_format.size)
    if route == "open(laz_backend=())":
        with laspy.open(io.BytesIO(img), laz_backend=(), closefd=False) as rd:
            las = rd.read()
            return (lasio.rec_bytes(las.points), rd.header.point_format.size)
    if route == "open(bytes)":
        with laspy.open(bytes(img)) as rd:
            las = rd.read()
            return (lasio.rec_bytes(las.points), rd.header.point_format.size)
    if route == "chunk_iterator":
        with laspy.open(io.BytesIO(img)) as rd:
            ps = rd.header.point_format.size
            return (b"".join(lasio.rec_bytes(c) for c in rd.chunk_iterator(3)), ps)
    if route == "path":
        fd, p = tempfile.mkstemp(suffix=".las", dir="/var/tmp")
        try:
            with os.fdopen(fd, "wb") as f:
                f.write(img)
            las = laspy.read(p)
            return (lasio.rec_bytes(las.points), las.header.point_format.size)
        finally:
            os.unlink(p)
    raise ValueError(route)


ROUTES = ["open(read_evlrs=False)", "chunk_iterator", "open(laz_backend=())", "open(bytes)", "path"]
_CACHE = {}


def read_image(img, limit=READ_LIMIT):
    """('ok', point bytes, psize) | ('err', kind) | ('hang',) | ('skipped',) - cached by image bytes"""
    r = _CACHE.get(img)
    if r is None:
        t = _with_timeout(lambda: _read_plain(img), limit)
        r = ("ok", t[1][0], t[1][1]) if t[0] == "ok" else t
        _CACHE[img] = r
    return r


def apply_trace(base, trace, k, j):
    buf = bytearray(base)

    def wr(pos, bs):
        if pos > len(buf):
            buf.extend(b"\0" * (pos - len(buf)))
        buf[pos:pos + len(bs)] = bs
    for pos, bs in trace[:k]:
        wr(pos, bs)
    if k < len(trace):
        pos, bs = trace[k]
        wr(pos, bs[:j])
    return bytes(buf)


# (kind, version, EVLRs wanted (None = random), VLRs forced)
TEMPLATES = [(k, v, None, True) for v in lasio.VERSIONS for k in ("write", "chunked", "append")] + \
            [("chunked", "1.4", True, False), ("append", "1.4", True, False), ("write", "1.4", True, True), ("append", None, None, False), ("chunked", None, None, False)]


def gen_session(ctx, template=None):
    """returns dict(kind, base, trace, intended point bytes (what the session accepted), psize, desc, final)"""
    import laspy
    from laspy.lasappender import LasAppender
    from laspy.vlrs.vlrlist import VLRList
    rng = ctx.rng
    kind, ver, want_evl, want_vlrs = template or (rng.choice(["write", "chunked", "chunked", "append"]), None, None, False)
    h = lasio.rand_header(rng, version=ver, nvlrs=rng.choice([1, 2, 3]) if want_vlrs else None)
    if rng.random() < 0.25:
        lasio.add_extra_dims(rng, h, 1)
    enc = {}
    if rng.random() < 0.25:
        # header strings / VLR descriptions that are not ASCII (laspy hands them back as bytes); they can only be written with a lenient
        # encoding_errors, which must change nothing else
        lasio.make_nonascii(rng, h)
        enc = {"encoding_errors": rng.choice(["ignore", "replace"])}
    ps = h.point_format.size
    evl = None
    if h.version.minor >= 4 and (want_evl or (want_evl is None and rng.random() < 0.6)):
        evl = VLRList([lasio.rand_vlr(rng, 120) for _ in range(rng.choice([1, 2]))])
    desc = dict(lasio.describe_header(h), kind=kind, evlrs=len(evl or []), stale_count=int(h.point_count), open_kwargs=dict(enc))
    if kind == "write" and not enc:
        n = rng.choice([0, 1, 3, 9])
        las = laspy.LasData(header=h, points=lasio.sweep_points(rng, h, n))
        if evl is not None:
            las.evlrs = evl
        st = lasio.LogStream2()
        las.write(st)
        return dict(kind=kind, base=b"", trace=st.trace, intended=lasio.rec_bytes(las.points), ps=ps, desc=dict(desc, points=n), final=st.getvalue())
    if kind in ("chunked", "write"):
        # any order of calls the API accepts or refuses: chunks (also empty), the EVLRs, chunks AFTER the EVLRs and after close (refused: they
        # must leave no trace), close; what counts is what write_points accepted
        st = lasio.LogStream2()
        via = rng.choice(["class", "open"])
        w = lasio.open_writer(st, h, via, enc)
        pts, shape = b"", []
        state = "open"
        for _ in range(rng.randrange(1, 7)):
            r = rng.random()
            if r < 0.7 or (state != "open" and r < 0.9):
                c = lasio.sweep_points(rng, h, rng.choice([0, 1, 2, 5]), start=rng.randrange(16))
                try:
                    w.write_points(c)
                    if len(c):
                        pts += lasio.rec_bytes(c)
                    shape.append(f"P{len(c)}")
                except Exception as ex:
                    shape.append(f"P{len(c)}!{common.exc_kind(ex)}")
            elif r < 0.85 and state == "open" and evl is not None:
                w.write_evlrs(evl)
                shape.append(f"E{len(evl)}")
                state = "evlrs"
            elif r >= 0.9 and state != "closed":
                w.close()
                shape.append("C")
                state = "closed"
        if state == "open" and evl is not None and rng.random() < 0.7:
            w.write_evlrs(evl)
            shape.append(f"E{len(evl)}")
            if rng.random() < 0.5:
                c = lasio.sweep_points(rng, h, rng.choice([1, 3]))
                try:
                    w.write_points(c)
                    pts += lasio.rec_bytes(c)
                    shape.append(f"P{len(c)}")
                except Exception as ex:
                    shape.append(f"P{len(c)}!{common.exc_kind(ex)}")
        if state != "closed":
            w.close()
            shape.append("C")
        return dict(kind="chunked", base=b"", trace=st.trace, intended=pts, ps=ps, desc=dict(desc, kind="chunked", via=via, ops=shape), final=st.getvalue())
    # append
    A = lasio.sweep_points(rng, h, rng.choice([0, 1, 4]))
    if rng.random() < 0.2 and not enc:
        # a legal file laspy did not write: a WKT record padded with several NULs, which laspy re-serialises SHORTER (one NUL).
        # The in-place header rewrite of the append then cannot keep its size: whatever the appender does, the points must stay readable
        h.vlrs.append(laspy.VLR("LASF_Projection", 2112, "", b'GEOGCS["WGS 84"]' + bytes(rng.choice([2, 4, 7]))))
        desc["padded_wkt_vlr"] = True
    b0 = io.BytesIO()
    with lasio.open_writer(b0, h, "class", enc) as w0:
        if len(A):
            w0.write_points(A)
        if evl:
            w0.write_evlrs(evl)
    raw0 = b0.getvalue()
    if evl and rng.random() < 0.5:
        gp = rng.choice([1, ps, 2 * ps + 3])
        raw0 = lasio.with_gap(raw0, gp, fill=rng.choice([0x00, 0xAA])) or raw0
        desc["gap"] = gp
    st = lasio.LogStream2(raw0)
    via = rng.choice(["class", "open"])
    akw = dict(enc)
    if via == "open" and rng.random() < 0.5:
        akw["laz_backend"] = rng.choice([None, ()])
    try:
        ap = laspy.open(st, mode="a", closefd=False, **akw) if via == "open" else LasAppender(st, closefd=False, **akw)
    except Exception as ex:
        if st.getvalue() != raw0 or st.trace:
            raise
        # an original the appender cannot re-write (padded WKT record) refused before anything was touched: nothing to interrupt
        return dict(kind=kind, base=raw0, trace=[], intended=lasio.rec_bytes(A), ps=ps, desc=dict(desc, refused_at_open=type(ex).__name__), final=raw0, refused=True)
    st.trace.clear()
    pts = lasio.rec_bytes(A)
    sizes = []
    for ci in range(rng.randrange(1 if template else 0, 4)):
        c = lasio.sweep_points(rng, h, rng.choice([0, 1, 3]) if ci else rng.choice([1, 3, 6]), start=rng.randrange(16))
        ap.append_points(c)
        pts += lasio.rec_bytes(c)
        sizes.append(len(c))
    try:
        ap.close()
    except Exception as ex:
        desc["close_raised"] = type(ex).__name__
    return dict(kind=kind, base=raw0, trace=st.trace, intended=pts, ps=ps, desc=dict(desc, via=via, open_kwargs={k: repr(v) for k, v in akw.items()}, orig=len(A), chunks=sizes), final=st.getvalue())


def images_of(ctx, s):
    """(label, image) for crash points at every write-call boundary and torn inside every write (every byte for writes of at
    most 48 bytes - the header is written field by field -, a dense sample otherwise), and truncations of the complete file: EVERY length
    from 0 to offset_to_point_data + 2 records and from the last 2 records to the end (EVLR area included), a sample in between"""
    tr = s["trace"]
    out = []
    for k in range(len(tr) + 1):
        out.append((f"after {k} writes", apply_trace(s["base"], tr, k, 0)))
    for k, (pos, bs) in enumerate(tr):
        n = len(bs)
        if n <= 1:
            continue
        if n <= 48 or ctx.thorough():
            js = range(1, n)
        else:
            js = sorted(set(list(range(1, 12)) + list(range(n - 11, n)) + [ctx.rng.randrange(1, n) for _ in range(12)]))
        for j in js:
            out.append((f"write {k} torn at {j}", apply_trace(s["base"], tr, k, j)))
    fin = s["final"]
    ps = s["ps"]
    try:
        d = lasio.parse_raw(fin)
        off, endp = d["offset"], d["offset"] + d["count"] * d["psize"]
    except ValueError:
        off, endp = 420, len(fin)
    if ctx.thorough() or len(fin) <= 900:
        lens = range(len(fin) + 1)
    else:
        lens = sorted(set(list(range(0, min(len(fin), off + 2 * ps + 2))) + [ctx.rng.randrange(len(fin)) for _ in range(150)]
                          + list(range(max(0, min(endp, len(fin)) - 2 * ps - 1), len(fin) + 1))))
    for n in lens:
        out.append((f"truncated to {n}", fin[:n]))
    return out


def _gather_from_zero(tr, start):
    """contiguous writes starting at position 0 from index `start`: returns (bytes, next index)"""
    buf = b""
    i = start
    while i < len(tr) and tr[i][0] == len(buf):
        buf += tr[i][1]
        i += 1
        if len(buf) >= 100 and len(buf) >= int.from_bytes(buf[96:100], "little"):
            break
    while i < len(tr) and len(tr[i][1]) == 0:      # empty writes (e.g. no padding bytes) carry nothing
        i += 1
    return buf, i


def check_discipline(s):
    """the write discipline the theorems assume, checked on the recorded trace: the header (+VLRs) first, announcing zero points;
    then only appends; last, the header again, contiguously from 0, exactly up to the first point (never beyond)"""
    tr = s["trace"]
    if not tr:
        return "no writes recorded"
    if s["kind"] != "append":
        if tr[0][0] != 0:
            return "first write is not at position 0"
        hdr0, i = _gather_from_zero(tr, 0)
        if len(hdr0) < 227:
            return "initial header writes are not contiguous"
        off = int.from_bytes(hdr0[96:100], "little")
        if len(hdr0) != off:
            return f"initial header writes cover {len(hdr0)} bytes, offset_to_point_data is {off}"
        minor = hdr0[25]
        cnt = int.from_bytes(hdr0[247:255], "little") if minor >= 4 else int.from_bytes(hdr0[107:111], "little")
        if cnt != 0:
            return f"the header first put on disk announces {cnt} points before any point is written"
        j = next((k for k in range(i, len(tr)) if tr[k][0] == 0), None)
        if j is None:
            return "no final header rewrite"
        pos = off
        for p, b in tr[i:j]:
            if p != pos:
                return f"a data write at {p}, expected an append at {pos}"
            pos += len(b)
        hdr1, e = _gather_from_zero(tr, j)
        if e != len(tr) or len(hdr1) != off:
            return f"final header rewrite covers {len(hdr1)} bytes (the points start at {off}) or is followed by other writes"
    else:
        base = s["base"]
        off = int.from_bytes(base[96:100], "little")
        j = next((k for k in range(len(tr)) if tr[k][0] < off), None)
        # append_trace of Proofs/CrashAppendProofs.v: the data writes start where the old points end (over the old EVLRs) and are contiguous
        cnt0 = int.from_bytes(base[247:255], "little") if base[25] >= 4 else int.from_bytes(base[107:111], "little")
        pos = off + cnt0 * int.from_bytes(base[105:107], "little")
        for p_, b_ in tr[:len(tr) if j is None else j]:
            if p_ != pos:
                return f"an append session writes at {p_}, expected the end of the stored data at {pos}"
            pos += len(b_)
        if j is not None:
            if tr[j][0] != 0:
                return "the header area is touched not starting at 0"
            hdr1, e = _gather_from_zero(tr, j)
            if e != len(tr) or len(hdr1) != off:
                return f"header rewrite of the append covers {len(hdr1)} bytes (points start at {off}) or is not the last thing written"
    return None


def nonascii_user_id(img):
    """True when some VLR/EVLR user id of the image (decoded leniently, as the reader does) holds a byte >= 128. The Coq
    model treats every such id as undecodable (ASSUMPTION: 'decodable' = ASCII); CPython accepts it when the bytes happen to be valid
    UTF-8. Such images are compared on the property only, not model-vs-implementation."""
    try:
        if len(img) < 227:
            return False
        off = int.from_bytes(img[96:100], "little")
        hs = int.from_bytes(img[94:96], "little")
        nv = min(int.from_bytes(img[100:104], "little"), 1000)
        minor = img[25]
        pos = hs
        stream = img[:max(off, 227)]
        for _ in range(nv):
            uid = stream[pos + 2:pos + 18].split(b"\0")[0]
            if any(b >= 128 for b in uid):
                return True
            ln = int.from_bytes(stream[pos + 20:pos + 22], "little")
            pos += 54 + ln
        if minor >= 4:
            st = int.from_bytes(img[235:243], "little")
            ne = min(int.from_bytes(img[243:247], "little"), 1000)
            pos = st
            for _ in range(ne):
                uid = img[pos + 2:pos + 18].split(b"\0")[0]
                if any(b >= 128 for b in uid):
                    return True
                ln = int.from_bytes(img[pos + 20:pos + 28], "little")
                pos += 60 + ln
                if pos > len(img):
                    break
    except Exception:
        return False
    return False


def huge_evlr_length(img):
    """True when an EVLR length field the reader will meet (header pointer followed leniently) is >= 2**63: CPython's read() refuses
    such a size with OverflowError where the model (unbounded integers, lengths clamped to the bytes available) reads on. Raising is
    within the property; such images are compared on the property only."""
    try:
        if len(img) < 375 or img[25] < 4:
            return False
        pos = int.from_bytes(img[235:243], "little")
        ne = min(int.from_bytes(img[243:247], "little"), 1000)
        for _ in range(ne):
            if pos + 28 > len(img):
                return False
            ln = int.from_bytes(img[pos + 20:pos + 28], "little")
            if ln >= 2 ** 63:
                return True
            pos += 60 + ln
    except Exception:
        return False
    return False


# ---------------------------------------------------------------------------------
# fault sequences: one low-level write fails (torn), the session goes on and is closed normally
# ---------------------------------------------------------------------------------
def _fault_plan(ctx, kind, volume, empty_original=False):
    """a session description: header, chunks (total size about `volume` bytes), EVLRs, original file for an appender"""
    from laspy.vlrs.vlrlist import VLRList
    rng = ctx.rng
    h = lasio.rand_header(rng, version=rng.choice(lasio.VERSIONS), nvlrs=rng.choice([0, 1, 2]))
    ps = h.point_format.size
    k = rng.choice([1, 2, 3, 5, 8]) if volume < 20000 else rng.choice([5, 9, 23, 47])
    per = max(1, volume // (k * ps))
    sizes = [max(1, per + rng.choice([-1, 0, 0, 1, 3]) * rng.randrange(1, max(2, per // 3 + 1))) for _ in range(k)]
    if volume < 20000 and rng.random() < 0.3:
        sizes[rng.randrange(k)] = 0
    chunks = [lasio.sweep_points(rng, h, n, start=rng.randrange(16)) if n <= 64 else _bulk_points(rng, h, n) for n in sizes]
    evl = VLRList([lasio.rand_vlr(rng, 80) for _ in range(rng.choice([1, 2]))]) if (h.version.minor >= 4 and rng.random() < 0.6) else None
    plan = {"kind": kind, "header": h, "chunks": chunks, "evl": evl, "sizes": sizes}
    if kind == "appender":
        plan["orig"] = lasio.sweep_points(rng, h, 0 if empty_original else rng.choice([0, 2, 5]))
        plan["base"] = lasio.write_las(h, plan["orig"], evl)
    return plan


def _bulk_points(rng, h, n):
    """n records, all distinct (a counter in X, random other bytes), cheap to build for large n"""
    import laspy
    rec = laspy.PackedPointRecord.zeros(n, h.point_format)
    ps = rec.array.dtype.itemsize
    raw = np.frombuffer(rng.randbytes(n * ps), dtype=np.uint8).copy().reshape(n, ps)
    rec.array = raw.reshape(-1).view(rec.array.dtype).copy()
    rec.array["X"] = np.arange(n, dtype=np.int32) + rng.randrange(1 << 20)
    return rec


class _Len:
    """stands for a long run of bytes of which only the length matters"""

    def __init__(self, n):
        self.n = n

    def __len__(self):
        return self.n


def _fault_run(plan, policy, fail_at, keep):
    """executes the plan on laspy with the fail_at-th low-level write after the open torn (keep bytes stored) - fail_at None: no fault.
    policy 'with': the exception leaves the with-block; 'continue': the caller catches it and goes on with the next operation; 'retry': the
    caller repeats the refused write_points once, then goes on. Returns dict(final, accepted, fault, where, trace, nwrites, base)."""
    import laspy
    kind, h = plan["kind"], plan["header"]
    base = plan.get("base", b"")
    st = lasio.LogStream2(base)
    if kind == "writer":
        w = laspy.open(st, mode="w", header=h, closefd=False)
        put = w.write_points
    else:
        st.seek(0)
        w = laspy.open(st, mode="a", closefd=False)
        put = w.append_points
    n_open = len(st.trace)
    if fail_at is not None:
        st.arm(fail_at, keep)
    accepted = lasio.rec_bytes(plan["orig"]) if kind == "appender" else b""
    where, log = None, []

    def guarded(name, fn, *a):
        nonlocal where
        try:
            fn(*a)
            return True
        except OSError:
            if where is None:
                where = name
            log.append(name + "!OSError")
            return False
    if policy == "with":
        try:
            with w:
                for c in plan["chunks"]:
                    try:
                        put(c)
                    except OSError:
                        where = "write_points"
                        raise
                    accepted += lasio.rec_bytes(c)
                if kind == "writer" and plan["evl"]:
                    try:
                        w.write_evlrs(plan["evl"])
                    except OSError:
                        where = where or "write_evlrs"
                        raise
        except OSError:
            where = where or "close"
    else:
        for c in plan["chunks"]:
            if guarded("write_points", put, c):
                accepted += lasio.rec_bytes(c)
            elif policy == "retry" and guarded("write_points(retry)", put, c):
                accepted += lasio.rec_bytes(c)
        if kind == "writer" and plan["evl"]:
            guarded("write_evlrs", w.write_evlrs, plan["evl"])
        guarded("close", w.close)
    # long data writes are kept as lengths only (the discipline check needs positions and lengths; the header fields are short)
    slim = [(p_, b_ if len(b_) <= 4096 else _Len(len(b_))) for p_, b_ in st.trace[n_open:]]
    return {"final": st.getvalue(), "accepted": accepted, "fault": st.fault, "where": where, "trace": slim, "nwrites": len(st.trace) - n_open,
            "base": base, "open_trace": st.trace[:n_open]}


def fault_discipline(plan, run):
    """the shape of a faulted trace the theorems C19_fault_safe / C19_fault_safe_append assume (fault_trace / fault_append_trace of
    Proofs/FaultProofs.v), checked on the recorded writes of a session whose failed write was a POINT write: every point write starts at the
    end of the data accepted so far, the failed one too; what follows a write that stored bytes (only the closing writes: the EVLRs) lies
    behind the accepted data; then the header, contiguously from 0, exactly up to the first point, last"""
    f = run["fault"]
    if f is None or not str(run["where"]).startswith("write_points"):
        return None
    tr = run["trace"]
    fi = f[0] - len(run["open_trace"])
    stored = f[3]
    if plan["kind"] == "writer":
        hdr0 = b"".join(b for _, b in run["open_trace"])
        off = int.from_bytes(hdr0[96:100], "little")
        pos = off
    else:
        base = run["base"]
        d = lasio.parse_raw(base)
        off = d["offset"]
        pos = off + d["count"] * d["psize"]
    for i, (p, b) in enumerate(tr):
        if len(b) == 0 and i != fi:
            continue
        if p < off:
            if p != 0:
                return f"the header area is touched at {p}, not from 0"
            hdr1, e = _gather_from_zero(tr, i)
            if e != len(tr) or len(hdr1) != off:
                return f"final header rewrite covers {len(hdr1)} bytes (the points start at {off}) or is followed by other writes"
            return None
        if i <= fi or stored == 0:
            if p != pos:
                return f"a data write at {p}, expected at the end of the accepted data {pos}"
            if i != fi:
                pos += len(b)
        elif p < pos:
            return f"after a torn write a write at {p} goes INTO the accepted data, which ends at {pos}"
    return None


def fault_cases(ctx):
    """(plan, policy, run) over writer and appender sessions of several volumes (a few KB to beyond 1 MB: writers that gather chunks into
    blocks only show their state when a block fills up), every policy, fault positions spread over the writes of the session, torn
    lengths 0 / 1 / a third / all but one byte"""
    out = []
    rng = ctx.rng
    volumes = [600, 3000, 9000, 70000, 150000, 300000] + ([1200000] if not ctx.thorough() else [1200000, 2500000, 5000000])
    keeps = [lambda n: 0, lambda n: min(1, n), lambda n: n // 3, lambda n: max(n - 1, 0), lambda n: n // 2 + 1]
    reps = ctx.n(2, 8)
    for rep in range(reps):
        for kind in ("writer", "appender"):
            for vol in volumes + (["empty"] if kind == "appender" else []):
                # "empty": an appender on a file that holds no point yet (its header has the zero extrema of an empty cloud), in every run
                empty, vol = (vol == "empty"), (900 if vol == "empty" else vol)
                if vol >= 1000000 and rep > 0:
                    continue          # the largest sessions once per kind
                try:
                    plan = _fault_plan(ctx, kind, vol, empty_original=empty)
                    dry = _fault_run(plan, "continue", None, None)
                except Exception as ex:
                    # the fault-free session itself cannot be run on this tree: reported by search as a failing input
                    import traceback
                    out.append(({"kind": kind, "header": None, "chunks": [], "evl": None, "sizes": [], "volume": vol}, "none", None,
                                {"error": f"fault-free {kind} session of about {vol} bytes raised {type(ex).__name__}: {ex} | " + traceback.format_exc()[-300:]}))
                    continue
                nw = dry["nwrites"]
                if nw == 0:
                    continue
                # candidate positions: the point writes are the first ones after the open; the EVLRs and the header fields follow
                data_writes = [i for i, (p, b) in enumerate(dry["trace"]) if p != 0 and len(b) >= plan["header"].point_format.size]
                picks = set()
                if data_writes:
                    picks.update([data_writes[0], data_writes[-1], rng.choice(data_writes), rng.choice(data_writes)])
                    if len(data_writes) > 2:
                        picks.add(data_writes[len(data_writes) // 2])
                picks.add(rng.randrange(nw))
                for fa in sorted(picks):
                    for policy in ("with", "continue", "retry"):
                        # (a) nothing stored: any continuation; (b) torn (bytes stored): only close / __exit__ follows
                        keep = rng.choice(keeps) if policy == "with" else keeps[0]
                        try:
                            run = _fault_run(plan, policy, fa, keep)
                        except Exception as ex:
                            run = {"error": f"{type(ex).__name__}: {ex}"}
                        out.append((plan, policy, fa, run))
    return out


def describe_fault(plan, policy, fa, run):
    if plan.get("header") is None:
        return {"kind": plan["kind"], "volume": plan.get("volume")}
    d = dict(lasio.describe_header(plan["header"]), kind=plan["kind"], chunks=plan["sizes"], evlrs=len(plan["evl"] or []), policy=policy,
             failing_write=fa)
    if plan["kind"] == "appender":
        d["orig_points"] = len(plan["orig"])
    if run.get("fault"):
        d["fault"] = {"position": run["fault"][1], "bytes_asked": run["fault"][2], "bytes_stored": run["fault"][3], "raised_in": run["where"]}
    return d


_DATA = None
_FAULTS = None


def data(ctx):
    global _DATA
    if _DATA is None:
        _DATA = []
        for si in range(ctx.n(40, 340)):
            try:
                s = gen_session(ctx, TEMPLATES[si % len(TEMPLATES)])
            except Exception as ex:
                import traceback
                _DATA.append({"error": repr(ex) + " " + traceback.format_exc()[-400:]})
                continue
            s["images"] = images_of(ctx, s)
            _DATA.append(s)
    return _DATA


def faults(ctx):
    global _FAULTS
    if _FAULTS is None:
        _FAULTS = fault_cases(ctx)
    return _FAULTS


def correspond(ctx):
    ctx.extra["rule"] = ("sessions: LasData.write, LasWriter sessions (class or laspy.open, chunks incl. empty ones, EVLRs, chunks after the EVLRs / after close "
                         "which must be refused), appender sessions (class or laspy.open, laz_backend None/()), every version x kind with VLRs, +-EVLRs, stale "
                         "statistics, 25% with non-ASCII header strings / VLR descriptions written with encoding_errors=ignore/replace; low-level writes "
                         "recorded by a logging stream; crash images after every write call, at every byte inside writes of <= 48 bytes (the header is written "
                         "field by field) and a dense sample of the longer ones, truncations at EVERY length up to offset_to_point_data + 2 records and from "
                         "the last 2 records to the end; final images of fault sequences (one torn write, then continued use). non-trivial = image length "
                         "> 227; distinct by image bytes (each distinct image is evaluated once)")
    dis = []
    cmds, meta, seen = [], [], set()
    for s in data(ctx):
        if "error" in s:
            continue
        for label, img in s["images"]:
            if img in seen:
                continue
            seen.add(img)
            cmds.append("read_file " + common.hexb(img))
            meta.append((s, label, img))
    for plan, policy, fa, run in faults(ctx):
        img = run.get("final")
        if img is None or len(img) > 20000 or img in seen:
            continue
        seen.add(img)
        cmds.append("read_file " + common.hexb(img))
        meta.append(({"kind": "fault-" + plan["kind"], "desc": describe_fault(plan, policy, fa, run)}, "final image of a fault sequence", img))
    outs = common.run_model(cmds)
    for (s, label, img), mo in zip(meta, outs):
        im = read_image(img)
        if im[0] == "skipped":
            continue
        ctx.traces += 1
        ctx.case(img, nontrivial=len(img) > 227, sample={"session": s["desc"], "image": label, "len": len(img), "impl": im[0] if im[0] != "ok" else f"ok {len(im[1]) // max(im[2], 1)} points"})
        ctx.count("image:" + label.split(" ")[0] + ":" + im[0])
        t = mo.split(" ")
        if im[0] == "ok":
            good = t[0] == "ok" and common.unhex(t[7]) == im[1]
        elif im[0] == "err":
            good = t[0] == "err"
        else:
            good = False
        if not good and t[0] == "err" and im[0] == "ok" and nonascii_user_id(img):
            ctx.count("outside-model:non-ascii-user-id-valid-utf8")
            continue
        if not good and t[0] == "ok" and im == ("err", "EOverflow") and huge_evlr_length(img):
            ctx.count("outside-model:evlr-length-beyond-2^63")
            continue
        if not good:
            dis.append({"kind": f"read of crash image ({s['kind']}, {label.split(' ')[0]})", "input": {"session": s["desc"], "image": label, "image_hex": img.hex() if len(img) < 3000 else img[:3000].hex()},
                        "model": mo[:60], "impl": im[0] + (" " + im[1] if im[0] == "err" else "")})
    return dis


def judge(got, ps, intended):
    """the property on one reading: whole records, a prefix of what the session accepted"""
    if ps and len(got) % ps:
        return f"{len(got)} bytes of records is not a whole number of {ps}-byte records"
    if intended[:len(got)] != got:
        n = len(got) // max(ps, 1)
        bad = next((i for i in range(n) if got[i * ps:(i + 1) * ps] != intended[i * ps:(i + 1) * ps]), n)
        return (f"{n} records returned; they are not a prefix of the {len(intended) // max(ps, 1)} records the session accepted "
                f"(record {bad} was never written at that position)")
    return None


def _guarded(add, name, fn):
    """runs one section of the search; if the section itself cannot be run on this tree (an exception escaping from laspy where the
    unchanged tree raises none), that is reported as a failing input instead of losing the findings of the other sections"""
    try:
        fn()
    except Exception as ex:
        import traceback
        add(f"search section '{name}' could not be run on this tree", {"section": name}, f"{type(ex).__name__}: {ex} | " + traceback.format_exc()[-700:])


def search(ctx, seeds):
    failing, seen = [], set()

    def add(kind, inp, why):
        if kind not in seen:
            seen.add(kind)
            failing.append({"kind": kind, "input": inp, "observed": why})
    def sec_crash_images_and_truncations():
        done = set()
        nroute = 0
        for s in data(ctx):
            if "error" in s:
                add("session failed", {}, s["error"])
                continue
            why = check_discipline(s) if not s.get("refused") else None
            if why:
                add("write discipline: " + why.split(",")[0][:60], {"session": s["desc"], "trace": [(p, len(b)) for p, b in s["trace"]][:200]}, why)
            intended = s["intended"]
            # the complete file must give back everything the session accepted
            fin = read_image(s["final"])
            if fin[0] == "ok" and fin[1] != intended and "close_raised" not in s["desc"]:
                add(f"{s['kind']}: the complete file does not hold the accepted points", {"session": s["desc"], "image_hex": s["final"].hex()[:6000]},
                    judge(fin[1], fin[2], intended) or f"{len(fin[1]) // max(fin[2], 1)} records read, {len(intended) // max(s['ps'], 1)} accepted")
            elif fin[0] == "err" and "close_raised" not in s["desc"]:
                add(f"{s['kind']}: the complete file cannot be read", {"session": s["desc"], "image_hex": s["final"].hex()[:6000]}, fin[1])
            for label, img in s["images"]:
                key = (img, intended)
                if key in done:
                    continue
                done.add(key)
                im = read_image(img)
                cls = label.split(" ")[0]
                if im[0] == "hang":
                    add("reader does not terminate", {"session": s["desc"], "image": label, "image_len": len(img), "image_hex": img.hex()[:6000]},
                        f"laspy.read of this {len(img)}-byte image was still running after {READ_LIMIT} s")
                elif im[0] == "ok":
                    why = judge(im[1], im[2], intended)
                    if why:
                        add(f"{s['kind']}: image '{cls}' yields points that were not written", {"session": s["desc"], "image": label, "image_hex": img.hex()[:6000]}, why)
                # the other public reading routes, on a sample
                if im[0] != "skipped" and len(done) % 9 == 0 and not (im[0] == "ok" and judge(im[1], im[2], intended)) and im[0] != "hang":
                    route = ROUTES[nroute % len(ROUTES)]
                    nroute += 1
                    r = _with_timeout(lambda: _read_route(img, route), READ_LIMIT)
                    ctx.count("route:" + route + ":" + r[0])
                    if r[0] == "hang":
                        add(f"reader does not terminate ({route})", {"session": s["desc"], "image": label, "route": route, "image_hex": img.hex()[:6000]},
                            f"still running after {READ_LIMIT} s")
                    elif r[0] == "ok":
                        why = judge(r[1][0], r[1][1], intended)
                        if why:
                            add(f"{s['kind']}: image '{cls}' read through {route} yields points that were not written",
                                {"session": s["desc"], "image": label, "route": route, "image_hex": img.hex()[:6000]}, why)
    _guarded(add, 'crash images and truncations', sec_crash_images_and_truncations)
    def sec_fault_sequences():
        for plan, policy, fa, run in faults(ctx):
            d = describe_fault(plan, policy, fa, run)
            if "error" in run:
                add("fault sequence: the session could not be run", d, run["error"])
                continue
            ctx.case(("fault", run["final"][:4000], len(run["final"])), nontrivial=run["fault"] is not None)
            ctx.count(f"fault:{plan['kind']}:{policy}:{run['where']}")
            why = fault_discipline(plan, run)
            if why:
                add(f"fault sequence ({plan['kind']}): write discipline", d, why)
            img = run["final"]
            r = _with_timeout(lambda: _read_plain(img), READ_LIMIT + len(img) / 2e6)
            if r[0] == "hang":
                add("reader does not terminate (file left by a fault sequence)", d, "laspy.read still running")
            elif r[0] == "ok":
                why = judge(r[1][0], r[1][1], run["accepted"])
                if why:
                    tag = "exception leaves the with-block" if policy == "with" else f"caller goes on after a write in {run['where']} failed with nothing stored"
                    add(f"fault sequence ({plan['kind']}, {tag}): points that were not written", dict(d, image_hex=img.hex()[:4000]), why)
    _guarded(add, 'fault sequences', sec_fault_sequences)
    return failing[:8]


def replay(ctx, data_):
    inp = data_.get("failing_input", {}).get("input", {})
    if "image_hex" not in inp:
        print("nothing to replay (re-run ./check C19 with the same VERIF_SEED)")
        return 0
    im = read_image(bytes.fromhex(inp["image_hex"]))
    print("laspy.read of the image:", im[0], (len(im[1]) if im[0] == "ok" else im[1:]))
    return 0
