"""C10 — dimension views compute what numpy computes on the same values.

Model: Model/Views.v over Gen/GenViews.v (structure of ArrayView / SubFieldView / ScaledArrayView read from the AST of
laspy/point/dims.py), masks of Gen/GenDims.v, shift of Gen/GenFormatBits.v.
Correspondence (driver c10): operator routes against the running classes (a spy operand records which numpy operator is
asked and on which array); per (mask, operator, integer operand) the model's column over all 256 composed bytes against
real records of every format; scaled views: model's `view[ix]` (symbolic triples scale index / offset index / grid value,
evaluated in binary64 by the harness) against `np.array(view[ix])`, and the model's numpy indexing against numpy itself;
the model's max/min plan against view.max()/min().
Search (no model): every case is `E(view)` against `E(np.array(view))` — same values, same shape up to length-1 axes,
same kind of values (bool / integer / float); an expression that raises on both sides has no result.

Every case is a JSON-able pair (data, expr) interpreted by run_case, so a failing input replays exactly."""
import operator
import warnings

import numpy as np

from harness import common

DRIVER = "c10"
ASSUMPTIONS = [
    "index expressions are the forms of the property: integer, slice, boolean mask, index list, and for multi-element "
    "dimensions (.., j), (i, ..), (i, j), (rows, cols) with rows/cols an int, slice, list or (rows only) mask; tuples of "
    "another length, None/newaxis and `v[i, j, ...]` are outside the property (coordinator's decision)",
    "scales are positive and finite (the monotonicity hypothesis of C10_scaled_minmax; C11 quantifies the same way)",
    "ordering and equality comparisons of scaled views are defined on the stored integer grid and excluded by the property",
    "indexing a one-element scaled view with a numpy integer returns a view object that cannot be materialised "
    "(np.array raises): counted as no result, as are expressions that raise on the view (reflected operands 1 + v, -v, v.sum())",
    "numpy resolves slices, masks and index lists to positions; the model receives the positions",
    "binary64 evaluation of (x * scale) + offset is numpy's; the model carries (scale index, offset index, x) symbolically",
]

OPS = ["lt", "le", "gt", "ge", "eq", "ne", "add", "sub", "mul", "truediv", "floordiv"]     # order of all_ops in Model/Views.v
SYM = {"lt": "<", "le": "<=", "gt": ">", "ge": ">=", "eq": "==", "ne": "!=", "add": "+", "sub": "-", "mul": "*",
       "truediv": "/", "floordiv": "//"}
CMP = OPS[:6]
ARITH = OPS[6:]
INT_DTYPES = ["int8", "uint8", "int16", "uint16", "int32", "uint32", "int64", "uint64"]


# --------------------------------------------------------------------------------------------
# JSON-able specs -> python objects
# --------------------------------------------------------------------------------------------
def fhex(x):
    return float(x).hex()


def unfhex(s):
    return float.fromhex(s)


def mk_operand(s, env, side):
    t = s[0]
    if t == "int":
        return int(s[1])
    if t == "np":
        return np.dtype(s[1]).type(int(s[2]))
    if t == "bool":
        return bool(s[1])
    if t == "npbool":
        return np.bool_(s[1])
    if t == "float":
        return unfhex(s[1])
    if t == "npfloat":
        return np.dtype(s[1]).type(unfhex(s[2]))
    if t == "arr":       # ["arr", dtype, shape, values]  (floats as hex strings)
        vals = [unfhex(v) if isinstance(v, str) else v for v in s[3]]
        return np.array(vals, dtype=s[1]).reshape(s[2])
    if t == "list":
        return list(s[1])
    if t == "self":
        return env["view"] if side == "view" else env["arr"]
    if t == "view":      # another dimension of the same record, the same object on both sides
        return env["las"][s[1]]
    if t == "none":
        return None
    if t == "str":
        return s[1]
    if t == "complex":
        return complex(s[1], s[2])
    raise ValueError(f"operand {s}")


def mk_index(s):
    t = s[0]
    if t == "int":
        return int(s[1])
    if t == "npint":
        return np.dtype(s[2] if len(s) > 2 else "int64").type(s[1])
    if t == "slice":
        return slice(s[1], s[2], s[3])
    if t == "mask":
        return np.array(s[1], dtype=bool)
    if t == "list":
        return list(s[1])
    if t == "nparr":
        return np.array(s[1], dtype=np.int64)
    if t == "ellipsis":
        return Ellipsis
    if t == "tuple":
        return tuple(mk_index(q) for q in s[1])
    raise ValueError(f"index {s}")


FUNCS = {
    "np.min": lambda x: np.min(x), "np.max": lambda x: np.max(x), "np.sum": lambda x: np.sum(x), "np.mean": lambda x: np.mean(x),
    "np.min0": lambda x: np.min(x, axis=0), "np.max0": lambda x: np.max(x, axis=0), "np.sum0": lambda x: np.sum(x, axis=0),
    "np.mean0": lambda x: np.mean(x, axis=0), "np.max1": lambda x: np.max(x, axis=1), "np.min-1": lambda x: np.min(x, axis=-1),
    "np.sum1": lambda x: np.sum(x, axis=1), "np.mean-1": lambda x: np.mean(x, axis=-1),
    "np.max_keepdims": lambda x: np.max(x, axis=0, keepdims=True), "np.sum_dtype": lambda x: np.sum(x, dtype=np.float64),
    "np.unique": lambda x: np.unique(x), "np.unique_counts": lambda x: np.unique(x, return_counts=True),
    "np.unique_inverse": lambda x: np.unique(x, return_inverse=True), "np.unique_index": lambda x: np.unique(x, return_index=True),
    "np.unique0": lambda x: np.unique(x, axis=0),
    "np.isin": lambda x, o: np.isin(x, o), "np.isin_r": lambda x, o: np.isin(o, x), "np.isin_invert": lambda x, o: np.isin(x, o, invert=True),
    "np.concatenate_self": lambda x: np.concatenate([x, x]), "np.concatenate_tuple": lambda x: np.concatenate((x, x, x)),
    "np.concatenate": lambda x, o: np.concatenate([x, o]), "np.concatenate_r": lambda x, o: np.concatenate((o, x)),
    "np.concatenate1": lambda x: np.concatenate([x, x], axis=-1),
    "np.where_eq": lambda x, o: np.where(x == o), "np.where_ne": lambda x, o: np.where(x != o),
    "np.where_lt": lambda x, o: np.where(x < o), "np.where_ge": lambda x, o: np.where(x >= o),
    "np.where3": lambda x, o: np.where(o, x, 0), "np.where3_r": lambda x, o: np.where(o, -1, x), "np.where_nz": lambda x: np.where(x),
    "np.where_self": lambda x, o: np.where(o, x, x),
    "max()": lambda x: x.max(), "min()": lambda x: x.min(), "max(0)": lambda x: x.max(0), "min(0)": lambda x: x.min(axis=0),
    "max(1)": lambda x: x.max(axis=1), "min(-1)": lambda x: x.min(axis=-1), "max(keepdims)": lambda x: x.max(axis=0, keepdims=True),
    "min(keepdims)": lambda x: x.min(keepdims=True), "max(initial)": lambda x: x.max(initial=3), "min(initial)": lambda x: x.min(initial=3),
    "max(initial f)": lambda x: x.max(initial=0.25), "min(initial f)": lambda x: x.min(initial=-1e300), "max(None)": lambda x: x.max(None),
    "max(where)": lambda x, o: x.max(where=o, initial=-100.0), "min(where)": lambda x, o: x.min(where=o, initial=1e12),
    "max(axis kw)": lambda x: x.max(axis=None), "min(out)": lambda x: x.min(out=None),
    "np.sort": lambda x: np.sort(x), "np.argmax": lambda x: np.argmax(x), "np.argmin": lambda x: np.argmin(x),
    "np.argsort": lambda x: np.argsort(x, kind="stable"), "np.count_nonzero": lambda x: np.count_nonzero(x),
    "np.add.reduce": lambda x: np.add.reduce(x), "np.maximum.reduce": lambda x: np.maximum.reduce(x),
    "np.minimum.accumulate": lambda x: np.minimum.accumulate(x), "np.add.outer": lambda x: np.add.outer(x, [1, 2]),
    "np.add": lambda x, o: np.add(x, o), "np.subtract": lambda x, o: np.subtract(x, o), "np.multiply": lambda x, o: np.multiply(x, o),
    "np.true_divide": lambda x, o: np.true_divide(x, o), "np.floor_divide": lambda x, o: np.floor_divide(x, o),
    "np.less": lambda x, o: np.less(x, o), "np.less_equal": lambda x, o: np.less_equal(x, o), "np.greater": lambda x, o: np.greater(x, o),
    "np.greater_equal": lambda x, o: np.greater_equal(x, o), "np.equal": lambda x, o: np.equal(x, o), "np.not_equal": lambda x, o: np.not_equal(x, o),
    "np.maximum": lambda x, o: np.maximum(x, o), "np.minimum_r": lambda x, o: np.minimum(o, x),
    "np.stack": lambda x: np.stack([x, x]), "np.vstack": lambda x: np.vstack([x, x]), "np.hstack": lambda x: np.hstack((x, x)),
    "np.cumsum": lambda x: np.cumsum(x), "np.nonzero": lambda x: np.nonzero(x), "np.any": lambda x: np.any(x), "np.all": lambda x: np.all(x),
    "np.median": lambda x: np.median(x), "np.ptp": lambda x: np.ptp(x), "np.std": lambda x: np.std(x),
    "np.array": lambda x: np.array(x), "np.asarray": lambda x: np.asarray(x), "np.copy": lambda x: np.copy(x), "copy()": lambda x: x.copy(),
    "np.array_f32": lambda x: np.array(x, dtype=np.float32),
    "len": lambda x: len(x), "shape": lambda x: list(x.shape), "np.shape": lambda x: list(np.shape(x)), "ndim": lambda x: x.ndim,
    "np.ravel": lambda x: np.ravel(x), "np.clip": lambda x: np.clip(x, 1, 3), "np.array_equal": lambda x, o: np.array_equal(x, o),
    "np.diff": lambda x: np.diff(x), "np.round": lambda x: np.round(x, 1), "np.floor": lambda x: np.floor(x), "np.abs": lambda x: np.abs(x),
    "np.histogram": lambda x: np.histogram(x, bins=4)[0], "np.percentile": lambda x: np.percentile(x, 50),
    "np.take": lambda x: np.take(x, [0, -1], axis=0), "np.flip": lambda x: np.flip(x), "np.transpose": lambda x: np.transpose(x),
    "np.isnan": lambda x: np.isnan(x), "np.searchsorted": lambda x: np.searchsorted(np.sort(x), 3),
    "np.mean_where": lambda x, o: np.mean(x, where=o), "np.sum_where": lambda x, o: np.sum(x, where=o),
    "np.select": lambda x, o: np.select([o], [x], default=-1), "np.compress": lambda x, o: np.compress(o, x, axis=0),
    "np.extract": lambda x, o: np.extract(o, x), "np.average": lambda x: np.average(x), "np.bincount": lambda x: np.bincount(x),
    "np.in1d_like": lambda x, o: np.isin(x, o, assume_unique=False), "np.max_out_tuple": lambda x: np.max(x, axis=None),
}


def apply_expr(e, x, env, side):
    t = e[0]
    if t == "op":
        return getattr(operator, e[1])(x, mk_operand(e[2], env, side))
    if t == "rop":       # a plain array / numpy scalar on the left
        return getattr(operator, e[1])(mk_operand(e[2], env, side), x)
    if t == "fn":
        return FUNCS[e[1]](x, *[mk_operand(o, env, side) for o in e[2:]])
    if t == "idx":
        return x[mk_index(e[1])]
    if t == "seq":
        for sub in e[1:]:
            x = apply_expr(sub, x, env, side)
        return x
    raise ValueError(f"expr {e}")


def expr_str(e):
    t = e[0]
    if t == "op":
        return f"v {SYM[e[1]]} {opnd_str(e[2])}"
    if t == "rop":
        return f"{opnd_str(e[2])} {SYM[e[1]]} v"
    if t == "fn":
        return e[1] + "(v" + "".join(", " + opnd_str(o) for o in e[2:]) + ")"
    if t == "idx":
        return f"v[{ix_str(e[1])}]"
    if t == "seq":
        return " |> ".join(expr_str(s) for s in e[1:])
    return str(e)


def opnd_str(s):
    if s[0] == "arr":
        return f"array({s[1]}, shape={s[2]})"
    if s[0] == "np":
        return f"np.{s[1]}({s[2]})"
    if s[0] in ("float", "npfloat"):
        return f"{unfhex(s[-1])!r}" + (f":{s[1]}" if s[0] == "npfloat" else "")
    if s[0] == "list":
        return f"list(len {len(s[1])})"
    return ":".join(str(q) for q in s)[:40]


def ix_str(s):
    t = s[0]
    if t in ("int", "npint"):
        return ("np.int64(%d)" if t == "npint" else "%d") % s[1]
    if t == "slice":
        return ":".join("" if q is None else str(q) for q in s[1:4])
    if t == "mask":
        return "mask"
    if t == "list":
        return str(s[1])
    if t == "nparr":
        return f"array({s[1]})"
    if t == "ellipsis":
        return "..."
    return ", ".join(ix_str(q) for q in s[1])


# --------------------------------------------------------------------------------------------
# data specs -> records and views
# --------------------------------------------------------------------------------------------
def sub_fields():
    import laspy.point.dims as dims
    out = []
    for fmt in sorted(dims.POINT_FORMAT_DIMENSIONS.keys()):
        for composed, subs in dims.COMPOSED_FIELDS[fmt].items():
            for sf in subs:
                out.append((fmt, sf.name, composed, int(sf.mask)))
    return out


def lsb_of(m):
    return (m & -m).bit_length() - 1


def build(data):
    """-> env: las (LasData), get() -> a fresh handle on the view under test, raw() -> its current values computed by the
    harness from the record's memory"""
    import laspy
    import laspy.point.dims as pdims
    if data["kind"] == "subfield":
        fmt, name = data["format"], data["field"]
        composed, mask = [(c, m) for f, n, c, m in sub_fields() if f == fmt and n == name][0]
        col = np.frombuffer(bytes.fromhex(data["bytes"]), dtype=np.uint8)
        n = len(col)
        hdr = laspy.LasHeader(point_format=fmt, version=pdims.preferred_file_version_for_point_format(fmt))
        las = laspy.LasData(hdr)
        rec = laspy.PackedPointRecord.zeros(n, hdr.point_format)
        size = rec.array.dtype.itemsize
        rec.array = ((np.arange(n * size, dtype=np.int64) * 37 + 11) % 251).astype(np.uint8).view(rec.array.dtype).copy()
        rec.array[composed] = col
        las.points = rec
        lsb = lsb_of(mask)
        via = data.get("via", "item")
        get = {"item": lambda: las[name], "attr": lambda: getattr(las, name), "record": lambda: las.points[name]}[via]
        return {"las": las, "get": get, "raw": lambda: (las.points.array[composed] & mask) >> lsb, "composed": composed, "mask": mask,
                "name": name, "kind": "subfield"}
    if data["kind"] == "scaled":
        fmt = data["format"]
        hdr = laspy.LasHeader(point_format=fmt, version=pdims.preferred_file_version_for_point_format(fmt))
        hdr.scales = np.array([unfhex(s) for s in data["scales"]])
        hdr.offsets = np.array([unfhex(s) for s in data["offsets"]])
        ex = data.get("extra")
        if ex:
            hdr.add_extra_dim(laspy.ExtraBytesParams(ex["name"], ex["type"], scales=np.array([unfhex(s) for s in ex["scales"]]),
                                                     offsets=np.array([unfhex(s) for s in ex["offsets"]])))
        las = laspy.LasData(hdr)
        n = len(data["xyz"][0])
        rec = laspy.ScaleAwarePointRecord.zeros(n, header=hdr)
        for nm, vals in zip("XYZ", data["xyz"]):
            rec.array[nm] = np.array(vals, dtype=np.int64).astype(np.int32)
        if ex:
            dt = rec.array.dtype[ex["name"]]
            g = np.array(ex["grid"], dtype=object).reshape((n,) + dt.shape)
            rec.array[ex["name"]] = g.astype(dt.base)
        las.points = rec
        dim = data["dim"]
        via = data.get("via", "item")
        get = {"item": lambda: las[dim], "attr": lambda: getattr(las, dim), "record": lambda: las.points[dim]}[via]
        if dim in ("x", "y", "z"):
            i = "xyz".index(dim)
            sc, of = hdr.scales[i], hdr.offsets[i]
            raw = lambda: (las.points.array[dim.upper()] * sc) + of      # noqa: E731
            grid = lambda: las.points.array[dim.upper()]                  # noqa: E731
            svec, ovec = [float(sc)], [float(of)]
        else:
            sc = np.array([unfhex(s) for s in ex["scales"]])
            of = np.array([unfhex(s) for s in ex["offsets"]])
            raw = lambda: (las.points.array[dim] * sc) + of               # noqa: E731
            grid = lambda: las.points.array[dim]                          # noqa: E731
            svec, ovec = list(sc), list(of)
        return {"las": las, "get": get, "raw": raw, "grid": grid, "name": dim, "kind": "scaled", "svec": svec, "ovec": ovec}
    raise ValueError(data["kind"])


# --------------------------------------------------------------------------------------------
# evaluation and comparison
# --------------------------------------------------------------------------------------------
def is_view(r):
    import laspy.point.dims as dims
    return isinstance(r, dims.ArrayView)


def freeze(r):
    """results are compared as plain arrays; a view result is materialised the way a user would (np.array)"""
    if is_view(r):
        return np.array(r)
    if isinstance(r, tuple):
        return tuple(freeze(q) for q in r)
    if isinstance(r, list) and any(is_view(q) or isinstance(q, np.ndarray) for q in r):
        return tuple(freeze(q) for q in r)
    return r


def ev(f):
    try:
        r = f()
    except Exception as ex:
        return ("err", common.exc_kind(ex), str(ex)[:80])
    try:
        return ("ok", freeze(r))
    except Exception as ex:
        return ("unmat", common.exc_kind(ex), str(ex)[:80])


def kind_class(a):
    k = a.dtype.kind
    return "i" if k in "iu" else k


def squeeze_shape(a):
    return tuple(d for d in a.shape if d != 1)


def same_value(x, y):
    """same values, same shape up to length-1 axes, same kind of values"""
    if isinstance(x, tuple) or isinstance(y, tuple):
        return isinstance(x, tuple) and isinstance(y, tuple) and len(x) == len(y) and all(same_value(p, q) for p, q in zip(x, y))
    if x is None or y is None or isinstance(x, str) or isinstance(y, str):
        return type(x) is type(y) and x == y
    ax, ay = np.asarray(x), np.asarray(y)
    if kind_class(ax) != kind_class(ay) or squeeze_shape(ax) != squeeze_shape(ay):
        return False
    k = kind_class(ax)
    if k == "f":
        bx = np.ascontiguousarray(ax, dtype=np.float64).ravel() + 0.0
        by = np.ascontiguousarray(ay, dtype=np.float64).ravel() + 0.0
        nx, ny = np.isnan(bx), np.isnan(by)
        return bool(np.array_equal(nx, ny) and np.array_equal(bx[~nx].view(np.uint64), by[~ny].view(np.uint64)))
    if k in "bi":
        if ax.dtype == ay.dtype:
            return bool(np.array_equal(ax.ravel(), ay.ravel()))
        return ax.ravel().tolist() == ay.ravel().tolist()
    if k == "c":
        return bool(np.array_equal(ax.ravel(), ay.ravel(), equal_nan=True))
    return ax.ravel().tolist() == ay.ravel().tolist()


def describe(r):
    if r[0] != "ok":
        return f"{r[0]}:{r[1]} {r[2]}"
    v = r[1]
    if isinstance(v, tuple):
        return "(" + ", ".join(describe(("ok", q)) for q in v) + ")"
    a = np.asarray(v)
    return f"{a.dtype}{list(a.shape)} {np.array2string(a.ravel()[:12], separator=',', threshold=12)}"[:160]


def run_case(data, expr, env=None):
    """-> (verdict, detail); verdict: same | noresult (both raise) | viewraises | unmat | differs | npraises"""
    env = env or build(data)
    v = env["get"]()
    env["view"] = v
    env["arr"] = a = np.array(v)
    rv = ev(lambda: apply_expr(expr, v, env, "view"))
    ra = ev(lambda: apply_expr(expr, a, env, "np"))
    if rv[0] == "ok" and ra[0] == "ok":
        if same_value(rv[1], ra[1]):
            return "same", None
        return "differs", f"{expr_str(expr)}: view gives {describe(rv)}, numpy on np.array(view) gives {describe(ra)}"
    if rv[0] == "ok":
        return "npraises", f"{expr_str(expr)}: view gives {describe(rv)}, numpy on np.array(view) raises {ra[1]} ({ra[2]})"
    if rv[0] == "unmat":
        return "unmat", f"{expr_str(expr)}: result of the view cannot be materialised ({rv[1]} {rv[2]}); numpy: {describe(ra)}"
    if ra[0] == "ok":
        return "viewraises", f"{expr_str(expr)}: view raises {rv[1]} ({rv[2]}), numpy gives {describe(ra)}"
    return "noresult", None


# --------------------------------------------------------------------------------------------
# generators
# --------------------------------------------------------------------------------------------
def py_int_operands(mask):
    lsb = lsb_of(mask)
    maxv = mask >> lsb
    s = {-2 ** 70, -2 ** 64, -2 ** 63 - 1, -2 ** 63, -2 ** 31 - 1, -2 ** 31, -257, -256, -255, -129, -128, -127, -2, -1, 0, 1, 2, 3,
         maxv - 1, maxv, maxv + 1, maxv + 2, 2 * maxv + 1, 7, 8, 15, 16, 31, 32, 33, 127, 128, 129, 255, 256, 257, 2 ** 15, 2 ** 16,
         2 ** 31 - 1, 2 ** 31, 2 ** 32, 2 ** 63 - 1, 2 ** 63, 2 ** 64 - 1, 2 ** 64, 2 ** 70}
    for w in (8, 16, 32, 64):        # constants whose shift by lsb wraps to an in-range value in w bits
        for base in (2 ** w >> lsb, 2 ** (w - 1) >> lsb):
            s |= {base, base + 1, base + maxv}
    return sorted(s)


def np_int_operands(mask):
    lsb = lsb_of(mask)
    maxv = mask >> lsb
    out = []
    for dt in INT_DTYPES:
        info = np.iinfo(dt)
        c = {0, 1, maxv, maxv + 1, int(info.max), int(info.min), int(info.max) >> lsb, (int(info.max) >> lsb) + 1,
             (2 ** info.bits >> lsb) + 1, (2 ** (info.bits - 1) >> lsb), (2 ** (info.bits - 1) >> lsb) + maxv, -1, -maxv}
        out += [(dt, v) for v in sorted(c) if info.min <= v <= info.max]
    return out


def operand_class(s, mask=None):
    t = s[0]
    if t == "int":
        v = int(s[1])
        if mask is not None:
            maxv = mask >> lsb_of(mask)
            return "python int negative" if v < 0 else "python int above max" if v > maxv else "python int in range"
        return "python int"
    if t == "np":
        return f"numpy {s[1]}"
    if t in ("bool", "npbool"):
        return "bool"
    if t in ("float", "npfloat"):
        return "float"
    if t == "arr":
        return f"array {np.dtype(s[1]).kind}"
    return {"list": "list", "self": "same view", "view": "other view"}.get(t, "other")


def other_operands(n, mask_or_none, rng, names):
    """floats, bools, arrays, lists, views, junk"""
    maxv = (mask_or_none >> lsb_of(mask_or_none)) if mask_or_none else 7
    out = [["bool", True], ["bool", False], ["npbool", True], ["npbool", False]]
    out += [["float", fhex(x)] for x in (0.0, 0.5, 1.0, float(maxv), maxv + 0.5, -0.5, 2.0 ** 70, float("nan"), float("inf"), float("-inf"))]
    out += [["npfloat", "float32", fhex(1.5)], ["npfloat", "float16", fhex(2.0)], ["npfloat", "float64", fhex(float(maxv))]]
    ints = [(i * 7 + 3) % (maxv + 2) for i in range(n)]
    out += [["arr", "int64", [n], ints], ["arr", "uint8", [n], ints], ["arr", "int8", [n], [v - 1 for v in ints]],
            ["arr", "uint64", [n], [v + (2 ** 63 if i % 5 == 0 else 0) for i, v in enumerate(ints)]],
            ["arr", "float64", [n], [fhex(v + (0.5 if i % 3 == 0 else 0.0)) for i, v in enumerate(ints)]],
            ["arr", "bool", [n], [bool(v & 1) for v in ints]], ["arr", "int64", [], [3]], ["arr", "int64", [1], [1]],
            ["arr", "int64", [2, n], ints + ints[::-1]], ["arr", "int64", [3], [1, 2, 3]], ["list", ints], ["self"],
            ["none"], ["str", "a"], ["complex", 1.0, 2.0]]
    for nm in names[:2]:
        out.append(["view", nm])
    return out


def rand_index_1d(rng, n):
    r = rng.random()
    if r < 0.17:
        return ["int", rng.choice([0, -1, n - 1, -n, n, -n - 1, rng.randrange(-n - 1, n + 2)])], "int"
    if r < 0.22:
        return ["npint", rng.choice([0, n - 1, -1, rng.randrange(-n, n + 1)]), rng.choice(["int64", "uint8", "int32", "intp"])], "numpy int"
    if r < 0.47:
        a = rng.choice([None, 0, 1, -1, n, -n, rng.randrange(-n - 2, n + 3)])
        b = rng.choice([None, 0, 1, -1, n, -n, rng.randrange(-n - 2, n + 3)])
        c = rng.choice([None, 1, 2, 3, -1, -2, n + 1])
        return ["slice", a, b, c], "slice"
    if r < 0.67:
        return ["mask", [rng.random() < rng.choice([0.0, 0.5, 0.5, 1.0]) for _ in range(n)]], "mask"
    if r < 0.85:
        k = rng.choice([0, 1, 2, 5])
        return ["list", [rng.randrange(-n, n) if n else 0 for _ in range(k)]], "index list"
    if r < 0.95:
        k = rng.choice([0, 1, 3])
        return ["nparr", [rng.randrange(-n, n) if n else 0 for _ in range(k)]], "index array"
    return ["slice", None, None, None], "slice"


def rand_axis(rng, n, allow_mask):
    """one axis of a (rows, cols) pair: int, slice, list or mask"""
    r = rng.random()
    if r < 0.3:
        return ["int", rng.choice([0, -1, n - 1, rng.randrange(-n, n) if n else 0, n])], "int"
    if r < 0.6:
        return ["slice", rng.choice([None, 0, 1, -1, rng.randrange(-n - 1, n + 2)]), rng.choice([None, n, -1, rng.randrange(-n - 1, n + 2)]),
                rng.choice([None, 1, -1, 2, -2])], "slice"
    if r < 0.85 or not allow_mask:
        k = rng.choice([0, 1, 2, 3])
        return ["list", [rng.randrange(-n, n) if n else 0 for _ in range(k)]], "list"
    return ["mask", [rng.random() < 0.5 for _ in range(n)]], "mask"


def rand_index_2d(rng, n, k):
    """index forms of the property on a (n, k) view"""
    r = rng.random()
    if r < 0.3:
        ix, cls = rand_index_1d(rng, n)
        return ix, cls
    if r < 0.42:
        j, _ = rand_axis(rng, k, False)
        return ["tuple", [["ellipsis"], j]], "(.., " + _ + ")"
    if r < 0.52:
        i, c = rand_axis(rng, n, True)
        return ["tuple", [i, ["ellipsis"]]], "(" + c + ", ..)"
    if r < 0.6:      # the forms named in the task text
        return rng.choice([(["tuple", [["slice", None, None, None], ["slice", None, None, -1]]], "(slice, slice)"),
                           (["tuple", [["slice", None, None, None], ["list", list(range(k))[::-1][:k]]]], "(slice, list)"),
                           (["tuple", [["slice", None, None, None], ["list", [k - 1, 0, k // 2]]]], "(slice, list)"),
                           (["tuple", [["mask", [i % 2 == 0 for i in range(n)]], ["slice", 1, 3, None]]], "(mask, slice)")])
    i, ci = rand_axis(rng, n, True)
    j, cj = rand_axis(rng, k, False)
    if ci in ("list", "mask") and cj == "list":      # pointwise pairs: lengths must agree most of the time
        cnt = sum(i[1]) if ci == "mask" else len(i[1])
        if rng.random() < 0.85:
            j = ["list", [rng.randrange(-k, k) if k else 0 for _ in range(cnt)]]
    return ["tuple", [i, j]], f"({ci}, {cj})"


SCALES = [1e-9, 1e-3, 0.01, 0.1, 0.25, 0.5, 1.0, 2.0, 1.0 / 3.0, 1234.5678, 0.30000000000000004]
OFFSETS = [0.0, 0.5, -100.25, 1e6, 123456.789, -0.001, 1e9, -7.0]
GRID_TYPES = ["int8", "uint8", "int16", "uint16", "int32", "uint32", "int64", "uint64", "float32", "float64"]


def rand_grid_value(rng, t):
    if t.startswith("float"):
        return rng.choice([0, 1, -1, 2, 1000, -1000, rng.randrange(-10 ** 6, 10 ** 6)])
    info = np.iinfo(t)
    return rng.choice([0, 1, int(info.max), int(info.min), int(info.max) - 1, rng.randrange(int(info.min), int(info.max) + 1),
                       rng.randrange(max(int(info.min), -50), min(int(info.max), 50) + 1),
                       rng.randrange(max(int(info.min), -50), min(int(info.max), 50) + 1)])


PATTERNS = ["all different", "all equal", "two equal"]


def pattern_values(rng, pool, k, pat):
    """k per-element values (scales or offsets) of a multi-element dimension: pairwise different, one common value, or
    (3 elements) two elements sharing a value and one apart, at any position"""
    if pat == "all equal" or k == 1:
        return [rng.choice(pool)] * k
    vals = rng.sample(pool, k)
    if pat == "two equal" and k == 3:
        i, j = rng.sample(range(3), 2)
        vals[j] = vals[i]
    return vals


def rand_scaled_data(rng, dim=None, n=None, k=None, spat=None, opat=None, t=None, grid=None):
    n = rng.choice([0, 1, 2, 3, 7, 12]) if n is None else n
    fmt = rng.choice([0, 1, 3, 6, 7])
    data = {"kind": "scaled", "format": fmt,
            "scales": [fhex(rng.choice(SCALES)) for _ in range(3)], "offsets": [fhex(rng.choice(OFFSETS)) for _ in range(3)],
            "xyz": [[rand_grid_value(rng, "int32") for _ in range(n)] for _ in range(3)],
            "via": rng.choice(["item", "attr", "record"])}
    dim = dim or rng.choice(["x", "y", "z", "e", "e", "e", "e"])
    if dim == "e":
        k = k or rng.choice([1, 2, 3, 3])
        t = t or rng.choice(GRID_TYPES)
        grid = grid or rng.choice(["any", "any", "near"])
        spat = spat or rng.choice(PATTERNS)
        opat = opat or rng.choice(PATTERNS)
        scs = pattern_values(rng, SCALES, k, spat)
        ofs = pattern_values(rng, OFFSETS, k, opat)
        if grid == "near":
            # stored integers of the same small range in every element: which element holds the extreme VALUE is decided by
            # the scales and offsets, which element holds the extreme stored integer is not
            lo, hi = (0, 100) if t.startswith("u") else (-100, 100)
            g = [[rng.randrange(lo, hi + 1) for _ in range(k)] for _ in range(n)]
        else:
            g = [[rand_grid_value(rng, t) for _ in range(k)] for _ in range(n)]
        data["extra"] = {"name": "edim", "type": (str(k) if k > 1 else "") + t, "scales": [fhex(s) for s in scs],
                         "offsets": [fhex(o) for o in ofs], "grid": g, "k": k, "scale_pattern": spat, "offset_pattern": opat}
        data["dim"] = "edim"
    else:
        data["dim"] = dim
    return data


def scaled_operands(rng, shape):
    n = shape[0]
    k = shape[1] if len(shape) > 1 else None
    out = [["int", str(v)] for v in (0, 1, -1, 2, 3, 10 ** 6, 2 ** 70)]
    out += [["float", fhex(v)] for v in (0.0, 0.5, -1.5, 1e-9, 1e300, float("nan"), float("inf"))]
    out += [["np", "int32", "5"], ["np", "uint8", "3"], ["np", "int64", str(2 ** 40)], ["npfloat", "float32", fhex(0.1)], ["bool", True]]
    out += [["arr", "float64", list(shape), [fhex((i * 0.37) - 1.0) for i in range(int(np.prod(shape)))]],
            ["arr", "int64", [n], [i - 2 for i in range(n)]] if k is None else ["arr", "int64", [k], [i + 1 for i in range(k)]],
            ["arr", "int64", [], [3]], ["self"], ["view", "x"], ["view", "intensity"], ["list", [1] * n], ["none"], ["str", "a"]]
    if k is not None:
        out.append(["arr", "float64", [n, 1], [fhex(i + 0.5) for i in range(n)]])
    return out


# --------------------------------------------------------------------------------------------
# the oracle sweep (no model)
# --------------------------------------------------------------------------------------------
class Sweep:
    def __init__(self, ctx):
        self.ctx = ctx
        self.failing = {}          # kind -> failing-input dict
        self.viewraises = {}       # kind -> example (used by correspond: the model predicts a result)

    def check(self, kind, data, expr, env, canon, quiet_viewraises=False):
        verdict, detail = run_case(data, expr, env)
        ctx = self.ctx
        ctx.count(" ".join(kind.split(" ")[:2]))
        if verdict in ("noresult", "viewraises", "unmat"):
            ctx.count("no result: " + {"noresult": "raises on both sides", "viewraises": "view raises", "unmat": "result not materialisable"}[verdict])
        ctx.case(canon, nontrivial=(verdict == "same"),
                 sample={"data": {q: data[q] for q in data if q not in ("bytes", "xyz", "extra")}, "expr": expr_str(expr), "verdict": verdict}
                 if verdict == "same" and ctx.rng.random() < 0.0005 else None)
        if verdict in ("differs", "npraises"):
            k = kind + (" (numpy raises)" if verdict == "npraises" else "")
            if k not in self.failing:
                self.failing[k] = {"kind": k, "input": {"data": data, "expr": expr}, "observed": detail}
        elif verdict == "viewraises" and not quiet_viewraises:
            self.viewraises.setdefault(kind, {"kind": "no result on the view: " + kind, "input": {"data": data, "expr": expr}, "observed": detail})
        return verdict


def arange_data(fmt, name, via="item"):
    return {"kind": "subfield", "format": fmt, "field": name, "bytes": bytes(range(256)).hex(), "via": via}


def sweep_subfield_operators(sw, sfs):
    """every sub-field of every format x 11 operators x operands, on the 256 possible composed bytes"""
    ctx = sw.ctx
    for fmt, name, composed, mask in sfs:
        data = arange_data(fmt, name, via=ctx.rng.choice(["item", "attr", "record"]))
        env = build(data)
        names = [n for f, n, c, m in sfs if f == fmt and n != name]
        ints = [["int", str(v)] for v in py_int_operands(mask)] + [["np", dt, str(v)] for dt, v in np_int_operands(mask)]
        others = other_operands(256, mask, ctx.rng, names)
        for op in OPS:
            if op in CMP:
                operands = ints + others
            else:       # arithmetic is a delegation whatever the operand: a boundary sample of the integers, all the others
                operands = [o for i, o in enumerate(ints) if i % 4 == 0 or ctx.thorough()] + others
            for o in operands:
                kind = f"subfield {SYM[op]} {operand_class(o, mask)}"
                sw.check(kind, data, ["op", op, o], env, ("sf", mask, op, tuple(map(str, o))[:4]))
        # arrays / numpy scalars on the left: numpy's operators handing over to the view (__array_ufunc__)
        for op in OPS:
            for o in (["arr", "int64", [256], [(i * 5) % 9 for i in range(256)]], ["np", "uint8", "3"], ["arr", "float64", [], [fhex(1.5)]]):
                sw.check(f"subfield reflected {SYM[op]}", data, ["rop", op, o], env, ("sfr", mask, op, o[1]))


SF_FUNCS0 = ["np.min", "np.max", "np.sum", "np.mean", "np.min0", "np.max0", "np.sum0", "np.mean0", "np.max_keepdims", "np.sum_dtype",
             "np.unique", "np.unique_counts", "np.unique_inverse", "np.unique_index", "np.concatenate_self", "np.concatenate_tuple",
             "np.where_nz", "max()", "min()", "max(0)", "min(0)", "max(keepdims)", "min(keepdims)", "max(initial)", "min(initial)",
             "np.sort", "np.argmax", "np.argmin", "np.argsort", "np.count_nonzero", "np.add.reduce", "np.maximum.reduce",
             "np.minimum.accumulate", "np.add.outer", "np.stack", "np.vstack", "np.hstack", "np.cumsum", "np.nonzero", "np.any",
             "np.all", "np.median", "np.ptp", "np.std", "np.array", "np.asarray", "np.copy", "copy()", "np.array_f32", "len", "shape",
             "np.shape", "ndim", "np.ravel", "np.clip", "np.diff", "np.histogram", "np.percentile", "np.take", "np.flip",
             "np.transpose", "np.searchsorted", "np.average", "np.bincount", "np.abs"]
FUNCS1 = ["np.isin", "np.isin_r", "np.isin_invert", "np.concatenate", "np.concatenate_r", "np.where_eq", "np.where_ne", "np.where_lt",
          "np.where_ge", "np.add", "np.subtract", "np.multiply", "np.true_divide", "np.floor_divide", "np.less", "np.less_equal",
          "np.greater", "np.greater_equal", "np.equal", "np.not_equal", "np.maximum", "np.minimum_r", "np.array_equal"]
FUNCS_MASK = ["np.where3", "np.where3_r", "np.where_self", "np.mean_where", "np.sum_where", "np.select", "np.compress", "np.extract"]


def sweep_subfield_functions(sw, sfs):
    ctx = sw.ctx
    for fmt, name, composed, mask in sfs:
        maxv = mask >> lsb_of(mask)
        for n in ([0, 9] if not ctx.thorough() else [0, 1, 2, 9, 64]):
            col = bytes(ctx.rng.choice([0, 0xFF, mask, (~mask) & 0xFF, ctx.rng.randrange(256), ctx.rng.randrange(256)]) for _ in range(n))
            data = {"kind": "subfield", "format": fmt, "field": name, "bytes": col.hex(), "via": ctx.rng.choice(["item", "attr", "record"])}
            env = build(data)
            names = [q for f, q, c, m in sfs if f == fmt and q != name]
            for fn in SF_FUNCS0:
                sw.check(f"subfield {fn}", data, ["fn", fn], env, ("sff", mask, fn, col))
            opnds = [["int", str(ctx.rng.randrange(maxv + 2))], ["np", "uint8", str(maxv)], ["list", [0, 1, maxv, maxv + 1]],
                     ["arr", "int64", [n], [ctx.rng.randrange(maxv + 2) for _ in range(n)]], ["float", fhex(1.0)], ["self"],
                     ["view", ctx.rng.choice(names)], ["view", "intensity"]]
            for fn in FUNCS1:
                for o in opnds:
                    sw.check(f"subfield {fn}", data, ["fn", fn, o], env, ("sff", mask, fn, col, tuple(map(str, o))))
            m = ["arr", "bool", [n], [ctx.rng.random() < 0.5 for _ in range(n)]]
            for fn in FUNCS_MASK:
                sw.check(f"subfield {fn}", data, ["fn", fn, m], env, ("sff", mask, fn, col))
            # index expressions, alone and followed by a comparison / reduction
            for _ in range(ctx.n(10, 40)):
                ix, cls = rand_index_1d(ctx.rng, n)
                sw.check(f"subfield index {cls}", data, ["idx", ix], env, ("sfi", mask, col, str(ix)), quiet_viewraises=True)
                c = ctx.rng.choice([["int", str(ctx.rng.choice([0, 1, maxv, maxv + 1, 8, 256 >> lsb_of(mask)]))],
                                    ["np", ctx.rng.choice(INT_DTYPES), str(ctx.rng.choice([1, maxv, (256 >> lsb_of(mask)) + 1]))]])
                follow = ctx.rng.choice([["op", ctx.rng.choice(CMP), c], ["fn", ctx.rng.choice(["np.max", "np.sum", "max()", "np.unique", "min()"])],
                                         ["op", ctx.rng.choice(ARITH), c], ["idx", rand_index_1d(ctx.rng, max(n // 2, 1))[0]]])
                sw.check(f"subfield index {cls} then {follow[0] if follow[0] != 'op' else SYM[follow[1]]}", data, ["seq", ["idx", ix], follow], env,
                         ("sfi2", mask, col, str(ix), str(follow)), quiet_viewraises=True)


SC_FUNCS0 = ["np.min", "np.max", "np.sum", "np.mean", "np.min0", "np.max0", "np.sum0", "np.mean0", "np.max_keepdims", "np.sum_dtype",
             "np.unique", "np.unique_counts", "np.unique_inverse", "np.concatenate_self", "np.concatenate_tuple", "np.where_nz",
             "max()", "min()", "max(0)", "min(0)", "max(keepdims)", "min(keepdims)", "max(initial)", "min(initial)", "max(initial f)",
             "min(initial f)", "max(None)", "max(axis kw)", "min(out)", "np.sort",
             "np.argmax", "np.argmin", "np.count_nonzero", "np.add.reduce", "np.maximum.reduce", "np.stack", "np.vstack", "np.hstack",
             "np.cumsum", "np.nonzero", "np.any", "np.median", "np.ptp", "np.array", "np.asarray", "np.copy", "copy()", "np.array_f32",
             "len", "shape", "np.shape", "ndim", "np.ravel", "np.clip", "np.round", "np.floor", "np.abs", "np.take", "np.flip",
             "np.transpose", "np.isnan", "np.average", "np.percentile", "np.max_out_tuple"]
SC_FUNCS_MULTI = ["np.max1", "np.min-1", "np.sum1", "np.mean-1", "max(1)", "min(-1)", "np.unique0", "np.concatenate1"]
SC_FUNCS1 = ["np.isin", "np.isin_r", "np.concatenate", "np.concatenate_r", "np.add", "np.subtract", "np.multiply", "np.true_divide",
             "np.floor_divide", "np.maximum", "np.minimum_r", "np.less", "np.equal", "np.array_equal"]


def sweep_scaled(sw, count):
    ctx = sw.ctx
    for it in range(count):
        data = rand_scaled_data(ctx.rng)
        env = build(data)
        shape = tuple(env["get"]().shape)
        multi = len(shape) > 1
        tag = "scaled" + ("" if not multi else f" {shape[1]}-element") + (" xyz" if data["dim"] in "xyz" else " extra" if not multi else "")
        opnds = scaled_operands(ctx.rng, shape)
        for op in ARITH:
            for o in opnds:
                sw.check(f"{tag} {SYM[op]} {operand_class(o)}", data, ["op", op, o], env, ("sca", it, op, tuple(map(str, o))[:3]))
            sw.check(f"{tag} reflected {SYM[op]}", data, ["rop", op, ["arr", "float64", [shape[0]] + [1] * (len(shape) - 1), [fhex(i * 1.5) for i in range(shape[0])]]],
                     env, ("scr", it, op))
        for fn in SC_FUNCS0 + (SC_FUNCS_MULTI if multi else []):
            sw.check(f"{tag} {fn}", data, ["fn", fn], env, ("scf", it, fn))
        for fn in SC_FUNCS1:
            for o in ctx.rng.sample(opnds, 6):
                sw.check(f"{tag} {fn}", data, ["fn", fn, o], env, ("scf", it, fn, tuple(map(str, o))[:3]))
        m = ["arr", "bool", [shape[0]] + [1] * (len(shape) - 1), [ctx.rng.random() < 0.5 for _ in range(shape[0])]]
        for fn in ("np.where3", "np.where3_r", "np.where_self", "np.select", "max(where)", "min(where)"):
            sw.check(f"{tag} {fn}", data, ["fn", fn, m], env, ("scf", it, fn))
        for _ in range(ctx.n(12, 30)):
            ix, cls = rand_index_2d(ctx.rng, shape[0], shape[1]) if multi else rand_index_1d(ctx.rng, shape[0])
            sw.check(f"{tag} index {cls}", data, ["idx", ix], env, ("sci", it, str(ix)), quiet_viewraises=True)
            follow = ctx.rng.choice([["op", ctx.rng.choice(ARITH), ctx.rng.choice(opnds[:16])],
                                     ["fn", ctx.rng.choice(["np.max", "np.min", "np.sum", "max()", "min()", "np.mean", "np.unique", "max(0)", "min(-1)",
                                                            "max()", "min()", "max(initial f)", "min(initial)"])],
                                     ["idx", rand_index_1d(ctx.rng, ctx.rng.choice([1, 2, 3, max(1, shape[0])]))[0]],
                                     ["seq", ["idx", rand_index_1d(ctx.rng, ctx.rng.choice([1, 2, 3]))[0]], ["fn", ctx.rng.choice(["max()", "min()"])]]])
            if follow[0] in ("idx", "seq") and not multi and data["dim"] not in "xyz" and cls in ("int", "numpy int"):
                continue    # v[i] of a 1-element extra dimension has shape (1,) where numpy has (): equal up to a length-1 axis, a further index is not
            fname = follow[1] if follow[0] == "fn" else SYM[follow[1]] if follow[0] == "op" else "index" if follow[0] == "idx" else "index then max/min"
            sw.check(f"{tag} index {cls} then {fname}", data, ["seq", ["idx", ix], follow], env,
                     ("sci2", it, str(ix), str(follow)), quiet_viewraises=True)


RED_NOARG = ["max()", "min()", "np.max", "np.min", "np.maximum.reduce", "np.ptp"]
RED_ARG = ["max(0)", "min(0)", "max(1)", "min(-1)", "max(keepdims)", "min(keepdims)", "max(initial)", "min(initial)", "max(initial f)",
           "min(initial f)", "max(None)", "max(axis kw)", "min(out)", "np.max0", "np.min0", "np.max1", "np.min-1", "np.max_keepdims",
           "np.max_out_tuple", "np.sum", "np.mean", "np.sum0", "np.mean-1"]


def multi_selections(rng, n, k):
    """selections of a (n, k) view that keep several points and / or several elements: the result is again a view, of the
    same elements (rows selected) or of a subset / permutation of the elements (columns selected: its own scales and offsets)"""
    full = ["slice", None, None, None]
    mask = [rng.random() < 0.6 for _ in range(n)]
    if n and not any(mask):
        mask[rng.randrange(n)] = True
    cols = rng.sample(range(k), rng.choice([q for q in (1, 2, 3) if q <= k]))
    out = [(["mask", mask], "mask"), (["slice", rng.choice([None, 0, 1]), rng.choice([None, -1, n]), rng.choice([None, 2, -1])], "slice"),
           (["list", [rng.randrange(-n, n) for _ in range(rng.choice([1, 2, 4]))] if n else []], "index list"),
           (["tuple", [["mask", mask], ["ellipsis"]]], "(mask, ..)"),
           (["tuple", [full, ["list", cols]]], "(slice, list)"),
           (["tuple", [full, ["slice", rng.choice([None, 0, 1]), rng.choice([None, k, -1]), rng.choice([None, -1])]]], "(slice, slice)"),
           (["tuple", [["mask", mask], ["list", cols[:1] * sum(mask)]]], "(mask, list)"),
           (["tuple", [["ellipsis"], ["int", rng.randrange(k)]]], "(.., int)"),
           (["tuple", [["list", [rng.randrange(n) for _ in range(2)] if n else []], ["slice", None, None, None]]], "(list, slice)")]
    ix, cls = rand_index_2d(rng, n, k)
    return out + [(ix, cls)]


def sweep_scaled_multi(sw):
    """2- and 3-element scaled dimensions, scales {all different, all equal, two equal} x offsets {idem} x grid types:
    reductions without and with arguments, on the view and on selections of it"""
    ctx = sw.ctx
    rng = ctx.rng
    it = 0
    for k in (2, 3):
        for spat in PATTERNS:
            for opat in PATTERNS:
                if k == 2 and "two equal" in (spat, opat):
                    continue        # the same as all different
                types = GRID_TYPES if ctx.thorough() else rng.sample(GRID_TYPES, 4)
                for t in types:
                    for grid in ("near", "any"):
                        it += 1
                        data = rand_scaled_data(rng, dim="e", n=rng.choice([1, 2, 3, 6, 12]), k=k, spat=spat, opat=opat, t=t, grid=grid)
                        env = build(data)
                        n = env["get"]().shape[0]
                        ctx.count(f"scaled multi: scales {spat} / offsets {opat}")
                        tag = f"scaled {k}-element"
                        why = f" (scales {spat}, offsets {opat})"
                        for fn in RED_NOARG + RED_ARG:
                            sw.check(f"{tag} {fn}{why}", data, ["fn", fn], env, ("scm", it, fn))
                        m = ["arr", "bool", [n, 1], [rng.random() < 0.5 for _ in range(n)]]
                        for fn in ("max(where)", "min(where)"):
                            sw.check(f"{tag} {fn}{why}", data, ["fn", fn, m], env, ("scm", it, fn))
                        for ix, cls in multi_selections(rng, n, k):
                            for fn in RED_NOARG[:4] + rng.sample(RED_ARG, 4):
                                sw.check(f"{tag} index {cls} then {fn}{why}", data, ["seq", ["idx", ix], ["fn", fn]], env,
                                         ("scm2", it, str(ix), fn), quiet_viewraises=True)


# --------------------------------------------------------------------------------------------
# stale views: keep a view, modify the record through another handle, evaluate again
# --------------------------------------------------------------------------------------------
def apply_mutation(env, mut):
    las = env["las"]
    for step in mut:
        t = step[0]
        if t == "raw":          # ["raw", field, index spec, values]
            vals = np.array(step[3], dtype=object)
            arr = las.points.array[step[1]]
            arr[mk_index(step[2])] = vals.astype(arr.dtype)
        elif t == "set":        # ["set", dimension, index spec, values]  through a fresh handle of a dimension
            vals = [unfhex(v) if isinstance(v, str) else v for v in step[3]]
            las[step[1]][mk_index(step[2])] = np.array(vals) if len(vals) != 1 else vals[0]
        elif t == "assign":     # ["assign", dimension, values]   las[dim] = values
            vals = [unfhex(v) if isinstance(v, str) else v for v in step[2]]
            las[step[1]] = np.array(vals)
        elif t == "xor":        # ["xor", field, int]
            las.points.array[step[1]] ^= np.array(step[2]).astype(las.points.array[step[1]].dtype)
        else:
            raise ValueError(step)


def sweep_stale(sw, sfs, count):
    ctx = sw.ctx
    rng = ctx.rng
    for it in range(count):
        if rng.random() < 0.55:
            fmt, name, composed, mask = rng.choice(sfs)
            lsb = lsb_of(mask)
            maxv = mask >> lsb
            n = rng.choice([1, 2, 9])
            data = {"kind": "subfield", "format": fmt, "field": name, "bytes": bytes(rng.randrange(256) for _ in range(n)).hex(),
                    "via": rng.choice(["item", "attr", "record"])}
            sib = [q for f, q, c, m in sfs if f == fmt and c == composed and q != name]
            pos = sorted(set(rng.randrange(n) for _ in range(rng.choice([1, 2]))))
            mut = [rng.choice([["raw", composed, ["list", pos], [rng.randrange(256) for _ in pos]],
                               ["set", name, ["list", pos], [rng.randrange(maxv + 1) for _ in pos]],
                               ["set", name, ["slice", None, None, None], [rng.randrange(maxv + 1)]],
                               ["assign", name, [rng.randrange(maxv + 1) for _ in range(n)]],
                               ["assign", composed, [rng.randrange(256) for _ in range(n)]],
                               ["xor", composed, rng.choice([0xFF, mask, 1 << lsb])]]
                              + ([["set", rng.choice(sib), ["slice", None, None, None], [0]]] if sib else []))]
            c = rng.choice([["int", str(rng.choice([0, 1, maxv, maxv + 1]))], ["np", "uint8", str(rng.randrange(maxv + 1))]])
            expr = rng.choice([["op", rng.choice(CMP), c], ["op", rng.choice(ARITH), c], ["fn", rng.choice(["np.sum", "np.max", "max()", "np.unique", "np.array", "min()"])],
                               ["idx", ["slice", None, None, -1]], ["idx", ["int", rng.randrange(n)]], ["fn", "np.isin", ["list", [0, 1, maxv]]],
                               ["fn", "np.where_eq", c], ["seq", ["idx", ["list", pos]], ["op", "le", c]]])
            kind = "stale subfield view after " + mut[0][0]
        else:
            data = rand_scaled_data(rng, n=rng.choice([1, 2, 5]))
            env0 = build(data)
            shape = tuple(env0["get"]().shape)
            n = shape[0]
            field = data["dim"].upper() if data["dim"] in "xyz" else data["dim"]
            pos = sorted(set(rng.randrange(n) for _ in range(rng.choice([1, 2]))))
            t = "int32" if data["dim"] in "xyz" else data["extra"]["type"].lstrip("123")
            rows = [[rand_grid_value(rng, t) for _ in range(shape[1])] if len(shape) > 1 else rand_grid_value(rng, t) for _ in pos]
            muts = [["raw", field, ["list", pos], rows]]
            if not t.startswith("uint64") and not t.startswith("int64"):
                # through the scaled view of a new handle: values that are exactly representable points of the grid
                small = [[rng.randrange(0, 50) for _ in range(shape[1])] if len(shape) > 1 else rng.randrange(0, 50) for _ in pos]
                g = np.array(small, dtype=np.int64)
                vals = (g * np.array(env0["svec"])) + np.array(env0["ovec"])
                if np.all(np.round((vals - np.array(env0["ovec"])) / np.array(env0["svec"])) == g):
                    muts.append(["setgrid", data["dim"], pos, small])
            mut = [rng.choice(muts)]
            opnds = scaled_operands(rng, shape)
            expr = rng.choice([["op", rng.choice(ARITH), rng.choice(opnds[:14])], ["fn", rng.choice(["np.sum", "np.max", "max()", "min()", "np.mean", "np.array", "np.unique"])],
                               ["idx", ["int", rng.randrange(n)]], ["idx", ["slice", None, None, -1]], ["idx", ["list", pos]],
                               ["seq", ["idx", ["list", pos]], ["fn", "max()"]]])
            kind = "stale scaled view after " + mut[0][0]
        why = run_stale_any(data, expr, mut)
        ctx.count(" ".join(kind.split(" ")[:3]))
        ctx.case(("stale", it, str(expr), str(mut)), nontrivial=True)
        if why and kind not in sw.failing:
            sw.failing[kind] = {"kind": kind, "input": {"data": data, "expr": expr, "mutation": mut}, "observed": why}


def run_stale_any(data, expr, mut):
    """'setgrid' steps assign, through the scaled view of a new handle, the float values of given grid points"""
    env = build(data)
    mut2 = []
    for step in mut:
        if step[0] == "setgrid":
            g = np.array(step[3], dtype=np.int64)
            vals = (g * np.array(env["svec"])) + np.array(env["ovec"])
            mut2.append(["setfloat", step[1], step[2], vals])
        else:
            mut2.append(step)

    def apply(env_, m):
        for step in m:
            if step[0] == "setfloat":
                env_["las"][step[1]][list(step[2])] = step[3]
            else:
                apply_mutation(env_, [step])
    kept = env["get"]()
    env["view"], env["arr"] = kept, np.array(kept)
    before = ev(lambda: apply_expr(expr, kept, env, "view"))
    apply(env, mut2)
    fresh = np.array(env["get"]())
    raw = np.asarray(env["raw"]())
    env["view"], env["arr"] = kept, fresh
    rv = ev(lambda: apply_expr(expr, kept, env, "view"))
    rf = ev(lambda: apply_expr(expr, fresh, env, "np"))
    env["arr"] = raw
    rr = ev(lambda: apply_expr(expr, raw, env, "np"))
    if rv[0] == "ok" and rf[0] == "ok" and not same_value(rv[1], rf[1]):
        return (f"{expr_str(expr)} on a view obtained before the record was modified gives {describe(rv)}; on the current values "
                f"(np.array of a new handle) numpy gives {describe(rf)}; before the modification it gave {describe(before)}")
    if rv[0] == "ok" and rr[0] == "ok" and not same_value(rv[1], rr[1]):
        return (f"{expr_str(expr)} on a view obtained before the record was modified gives {describe(rv)}; on the values in the "
                f"record's memory numpy gives {describe(rr)}")
    if rv[0] != "ok" and rf[0] == "ok" and before[0] == "ok":
        return f"{expr_str(expr)} on a view obtained before the record was modified raises {rv[1]}; it gave {describe(before)} before"
    return None


def run_sweep(ctx):
    sw = Sweep(ctx)
    sfs = sub_fields()
    with warnings.catch_warnings(), np.errstate(all="ignore"):
        warnings.simplefilter("ignore")
        sweep_subfield_operators(sw, sfs)
        sweep_subfield_functions(sw, sfs)
        sweep_scaled(sw, ctx.n(60, 600))
        sweep_scaled_multi(sw)
        sweep_stale(sw, sfs, ctx.n(300, 3000))
    return sw


_SWEEP = {}


def get_sweep(ctx):
    if "sw" not in _SWEEP:
        _SWEEP["sw"] = run_sweep(ctx)
    return _SWEEP["sw"]


# --------------------------------------------------------------------------------------------
# correspondence with the extracted model
# --------------------------------------------------------------------------------------------
class Spy:
    """an operand numpy refuses (__array_ufunc__ = None): the reflected method records the operator numpy was asked to
    evaluate and the array it was asked on"""
    __array_ufunc__ = None

    def __init__(self):
        self.log = None


def _spy_method(name):
    def f(self, other):
        self.log = (name, np.array(other))
        return "spy"
    return f


for _n, _refl in (("add", "__radd__"), ("sub", "__rsub__"), ("mul", "__rmul__"), ("truediv", "__rtruediv__"), ("floordiv", "__rfloordiv__"),
                  ("lt", "__gt__"), ("le", "__ge__"), ("gt", "__lt__"), ("ge", "__le__"), ("eq", "__eq__"), ("ne", "__ne__")):
    setattr(Spy, _refl, _spy_method(_n))
Spy.__hash__ = None


def triples(tok):
    return [] if tok == "-" else [tuple(int(q) for q in t.split(".")) for t in tok.split(",")]


def nd_expected(tok, env):
    """model nd token -> (squeezed shape, float64 array) evaluated as (x * scale[s]) + offset[o] in the grid's dtype"""
    if tok == "none":
        return None
    parts = tok.split(":")
    gdt = env["grid"]().dtype
    if parts[0] == "sc":
        ts, shape = triples(parts[1]), ()
    elif parts[0] == "a1":
        ts, shape = triples(parts[2]), (int(parts[1]),)
    else:
        ts, shape = triples(parts[3]), (int(parts[1]), int(parts[2]))
    xs = np.array([t[2] for t in ts], dtype=object).astype(gdt) if ts else np.zeros(0, dtype=gdt)
    sv = np.array([env["svec"][t[0]] for t in ts], dtype=np.float64)
    ov = np.array([env["ovec"][t[1]] for t in ts], dtype=np.float64)
    return ((xs * sv) + ov).reshape(shape)


def resolve_axis(s, n):
    """numpy's resolution of one axis index to ('i', position) | ('s', positions); None when numpy would raise"""
    t = s[0]
    if t == "int":
        i = s[1] + n if s[1] < 0 else s[1]
        return ("i", i) if 0 <= i < n else None
    if t == "slice":
        return ("s", list(range(n))[slice(s[1], s[2], s[3])], "slice")
    if t in ("list", "nparr"):
        ps = [p + n if p < 0 else p for p in s[1]]
        return ("s", ps, "adv") if all(0 <= p < n for p in ps) else None
    if t == "mask":
        if len(s[1]) != n:
            return None
        return ("s", [i for i, b in enumerate(s[1]) if b], "adv")
    if t == "ellipsis":
        return ("s", list(range(n)), "slice")
    return None


def zl(l):
    l = list(l)
    return ",".join(str(v) for v in l) if l else "-"


def model_ix(ix, n, k):
    """index spec -> token of the model's index language, None when outside the modelled forms / numpy raises"""
    t = ix[0]
    if t == "int":
        r = resolve_axis(ix, n)
        return f"int:{r[1]}" if r else None
    if t in ("slice", "list", "nparr", "mask"):
        r = resolve_axis(ix, n)
        if r is None:
            return None
        return ("slice:" if t == "slice" else "adv:") + zl(r[1])
    if t == "tuple" and len(ix[1]) == 2 and k is not None:
        a, b = ix[1]
        if b[0] == "ellipsis":
            r = resolve_axis(a, n)
            if r is None or a[0] == "ellipsis":
                return None
            return "row:" + ("i%d" % r[1] if r[0] == "i" else "s" + zl(r[1]))
        ra, rb = resolve_axis(a, n), resolve_axis(b, k)
        if ra is None or rb is None:
            return None
        if ra[0] == "s" and rb[0] == "s" and ra[2] == "adv" and rb[2] == "adv":
            if len(ra[1]) != len(rb[1]):
                return None       # broadcasting of index lists of different lengths: not a form of the model
            return f"zip:{zl(ra[1])}:{zl(rb[1])}"
        f = lambda r: ("i%d" % r[1]) if r[0] == "i" else "s" + zl(r[1])     # noqa: E731
        return f"pair:{f(ra)}:{f(rb)}"
    return None


def view_tok(env):
    g = env["grid"]()
    if g.ndim == 1:
        return "1 " + zl(int(v) for v in g.tolist()), len(g), None
    rows = ";".join(zl(int(v) for v in r) for r in g.tolist()) if len(g) else "-"
    return f"2 {g.shape[1]} {rows}", g.shape[0], g.shape[1]


def bits(a):
    a = np.ascontiguousarray(np.asarray(a, dtype=np.float64)) + 0.0
    return [None if np.isnan(v) else int(np.float64(v).view(np.uint64)) for v in a.ravel()]


def correspond(ctx):
    import laspy.point.dims as dims
    ctx.extra["rule"] = (
        "search: every (format, sub-field) x 11 operators x right operands {python ints of any sign/magnitude incl. constants whose "
        "shift wraps in 8/16/32/64 bits, numpy scalars of the 8 integer dtypes at their extremes and wrap points, bools, floats "
        "(nan, inf), arrays of 6 dtypes/shapes, lists, other views, junk} on the 256 possible composed bytes; arrays/numpy scalars "
        "on the left; ~100 numpy functions and view methods (min max sum mean unique isin concatenate where + axis/keepdims "
        "variants) and index expressions (int, numpy int, slice, mask, list, index array), alone and followed by a comparison / "
        "arithmetic / reduction / second index, on random columns of 0..64 points; random scaled x/y/z and scaled extra "
        "dimensions of 1-3 elements of 10 grid types, per-element scales {all different, all equal, two equal} x per-element offsets "
        "{idem}, stored integers over the type's range or of one small range in every element: 5 arithmetic operators x operands, "
        "functions, the index forms of the property ((.., j), (i, ..), (i, j), (rows, cols) with ints, slices, lists, masks, "
        "negative indices, steps, empty selections), each followed by arithmetic, a numpy function, the result's own max()/min() "
        "(also with initial=/where=) or a second index; for every (2|3 elements, scale pattern, offset pattern, grid type): max/min/"
        "np.max/np.min/ptp without arguments and with axis=/keepdims=/initial=/where=/out=, sum, mean, on the view and on 10 "
        "selections of it (mask, slice, list, (mask, ..), (slice, column list/slice) = a view of a subset of the elements, ...); views kept while the record is modified through another handle. "
        "E(view) is compared with E(np.array(view)): kind of values, shape up to length-1 axes, values (binary64 bit patterns). "
        "non-trivial = both sides return a result; distinct by (mask or dataset, expression). Expressions raising on both sides, "
        "raising on the view only, or whose result cannot be materialised are counted as 'no result'. "
        "correspondence: operator routes vs a spy operand on live views; model columns (256 bytes) per (mask, operator, integer "
        "operand) vs every format's records; model view[ix][ix'] (values, and whether the result is plain values or a view) / "
        "numpy[ix][ix'] / max-min plan with and without initial= vs the implementation and numpy.")
    dis = []
    sfs = sub_fields()
    hdr_env = build(arange_data(6, "return_number"))
    sc_env = build(rand_scaled_data(ctx.rng, dim="e", n=5, k=3))
    x_env = build(rand_scaled_data(ctx.rng, dim="x", n=5))
    # ---- routes: generated tables vs the running classes
    classes = {"av": None, "sf": hdr_env, "sc": sc_env}
    lines = [f"route {c} {i}" for c in classes for i in range(len(OPS))]
    outs = dict(zip(lines, common.run_model(lines, name="c10")))
    pycls = {"av": dims.ArrayView, "sf": dims.SubFieldView, "sc": dims.ScaledArrayView}
    for c in classes:
        for i, op in enumerate(OPS):
            mo = outs[f"route {c} {i}"]
            own = ("__%s__" % op) in pycls[c].__dict__
            ctx.traces += 1
            ctx.count("route")
            expect_own = mo.startswith(("DoComparison", "GridComparison")) or c == "av"
            ok = mo != "none" and mo != "Inherited" and (own == expect_own)
            detail = None
            if ok and c != "av":
                for env in ((hdr_env,) if c == "sf" else (sc_env, x_env)):
                    v = env["get"]()
                    spy = Spy()
                    try:
                        r = getattr(operator, op)(v, spy)
                    except Exception as ex:
                        r = repr(ex)
                    want = OPS[int(mo.split()[1])]
                    if r != "spy" or spy.log is None or spy.log[0] != want or not same_value(spy.log[1], np.array(v)):
                        ok, detail = False, f"v {SYM[op]} <spy>: numpy was asked {spy.log[0] if spy.log else r!r}, model route {mo}"
            if not ok:
                dis.append({"kind": f"route {c} {SYM[op]}", "input": {"class": c, "operator": op}, "model": mo,
                            "impl": detail or f"defined by the class itself: {own}"})
    # ---- sub-field comparisons: model column per (mask, op, integer operand) vs every format's record
    cols = {}
    cmds = []
    for fmt, name, composed, mask in sfs:
        for o in [("py", 0, "F", v) for v in py_int_operands(mask)] + [("np", np.iinfo(dt).bits, "T" if np.iinfo(dt).min < 0 else "F", v) for dt, v in np_int_operands(mask)] \
                + [("bool", 0, "F", 1), ("bool", 0, "F", 0)]:
            for i in range(6):
                key = f"cmpcol {mask} {i} {o[0]} {o[1]} {o[2]} {o[3]}"
                if key not in cols:
                    cols[key] = None
                    cmds.append(key)
    for key, out in zip(cmds, common.run_model(cmds, name="c10")):
        cols[key] = out
    with warnings.catch_warnings(), np.errstate(all="ignore"):
        warnings.simplefilter("ignore")
        for fmt, name, composed, mask in sfs:
            env = build(arange_data(fmt, name))
            v = env["get"]()
            opnds = [(("py", 0, "F", c), c) for c in py_int_operands(mask)] \
                + [(("np", np.iinfo(dt).bits, "T" if np.iinfo(dt).min < 0 else "F", c), np.dtype(dt).type(c)) for dt, c in np_int_operands(mask)] \
                + [(("bool", 0, "F", 1), True), (("bool", 0, "F", 0), np.bool_(False))]
            for (o, obj) in opnds:
                for i, op in enumerate(CMP):
                    mo = cols[f"cmpcol {mask} {i} {o[0]} {o[1]} {o[2]} {o[3]}"]
                    try:
                        r = getattr(operator, op)(v, obj)
                        im = "".join("1" if b else "0" for b in np.asarray(r).tolist()) if np.asarray(r).shape == (256,) and np.asarray(r).dtype == bool else f"shape {np.asarray(r).shape} {np.asarray(r).dtype}"
                    except Exception as ex:
                        im = "err " + common.exc_kind(ex)
                    ctx.traces += 1
                    ctx.evaluations += 255
                    ctx.case(("col", mask, op, o), nontrivial=True)
                    ctx.count("model column")
                    if im != mo:
                        cls = operand_class(["int", str(o[3])], mask) if o[0] == "py" else ("bool" if o[0] == "bool" else f"numpy {type(obj).__name__}")
                        dis.append({"kind": f"subfield {SYM[op]} {cls}", "input": {"format": fmt, "field": name, "operator": op, "operand": f"{type(obj).__name__}({int(obj)})"},
                                    "model": mo[:64] + "...", "impl": im[:64] + "..."})
        # ---- sub-field indexing
        cases = []
        for _ in range(ctx.n(150, 1500)):
            fmt, name, composed, mask = ctx.rng.choice(sfs)
            n = ctx.rng.choice([1, 2, 9])
            col = bytes(ctx.rng.randrange(256) for _ in range(n))
            ix, cls = rand_index_1d(ctx.rng, n)
            tok = model_ix(ix, n, None)
            if tok is None or tok.startswith("int:"):
                continue
            env = build({"kind": "subfield", "format": fmt, "field": name, "bytes": col.hex()})
            try:
                im = zl(int(q) for q in np.array(env["get"]()[mk_index(ix)]).ravel().tolist())
            except Exception as ex:
                im = "err " + common.exc_kind(ex)
            cases.append((f"sfidx {mask} x{col.hex()} {tok.split(':')[1]}", im, (fmt, name, ix)))
        for (cmd, im, desc), mo in zip(cases, common.run_model([c[0] for c in cases], name="c10")):
            ctx.traces += 1
            ctx.count("model subfield index")
            ctx.case(cmd, nontrivial=True)
            if im != mo:
                dis.append({"kind": "subfield index", "input": {"format": desc[0], "field": desc[1], "index": desc[2]}, "model": mo, "impl": im})
        # ---- scaled views: indexing (one or two levels), kind of the result (values / view), max/min with and without initial=
        cases = []
        for it in range(ctx.n(1500, 15000)):
            data = rand_scaled_data(ctx.rng)
            env = build(data)
            vt, n, k = view_tok(env)
            v = env["get"]()
            a = np.array(v)
            ixs, toks, cls = [], [], "no index"
            if ctx.rng.random() < 0.8:
                ix, cls = rand_index_2d(ctx.rng, n, k) if k is not None else rand_index_1d(ctx.rng, n)
                tok = model_ix(ix, n, k)
                if tok is None:
                    continue
                ixs, toks = [ix], [tok]
                if ctx.rng.random() < 0.4:
                    try:
                        shp = a[mk_index(ix)].shape
                    except Exception:
                        shp = None
                    if shp is not None and len(shp) >= 1:
                        ix2, cls2 = rand_index_2d(ctx.rng, shp[0], shp[1]) if len(shp) == 2 and ctx.rng.random() < 0.6 else rand_index_1d(ctx.rng, shp[0])
                        tok2 = model_ix(ix2, shp[0], shp[1] if len(shp) == 2 else None)
                        if tok2 is not None:
                            ixs.append(ix2)
                            toks.append(tok2)
                            cls = cls + " then " + cls2

            def walk(x, ixs=ixs):
                for q in ixs:
                    x = x[mk_index(q)]
                return x
            expr = ["seq"] + [["idx", q] for q in ixs] if ixs else ["seq"]
            if ixs and ctx.rng.random() < 0.7:
                try:
                    res = walk(v)
                    iv = ("ok", freeze(res), "view" if is_view(res) else "value")
                except Exception as ex:
                    iv = ("err", common.exc_kind(ex), str(ex)[:60])
                inp = ev(lambda: walk(a))
                cases.append((f"index {vt} " + " ".join(toks), "index", env, data, expr, cls, iv, inp, k))
            else:
                r = ctx.rng.choice(["max", "min"])
                init = ctx.rng.choice([None, None, 0.25, -1e300, 1e300, 3])
                kw = {} if init is None else {"initial": init}
                iv = ev(lambda: getattr(walk(v), r)(**kw))
                inp = ev(lambda: getattr(walk(a), r)(**kw))
                cases.append((f"reduce {r} {'F' if init is None else 'T'} {vt} " + " ".join(toks), "reduce", env, data,
                              expr + [["fn", f"{r}()" if init is None else f"{r}(initial={init})"]], cls, iv, inp, (r, kw)))
        outs = common.run_model([c[0] for c in cases], name="c10")
        for (cmd, what, env, data, expr, cls, iv, inp, extra), mo in zip(cases, outs):
            ctx.traces += 1
            ctx.case(cmd, nontrivial=True)
            ctx.count("model scaled " + what + (" chain" if " then " in cls else ""))

            def agree(exp, got):
                if exp is None:
                    return got[0] != "ok"
                return got[0] == "ok" and squeeze_shape(np.asarray(got[1])) == squeeze_shape(np.asarray(exp)) and bits(got[1]) == bits(exp)
            if mo.startswith("fail"):
                dis.append({"kind": "model driver", "input": {"cmd": cmd[:200]}, "model": mo[:120], "impl": ""})
                continue
            if what == "index":
                mk, mv, mn = mo.split(" ")
                ev_, en_ = nd_expected(mv, env), nd_expected(mn, env)
                if not agree(ev_, iv):
                    dis.append({"kind": f"scaled index {cls}", "input": {"data": data, "expr": expr}, "model": mv[:120], "impl": describe(iv[:2] + ("",))[:160]})
                elif extra is not None and iv[0] == "ok" and mk != iv[2]:
                    dis.append({"kind": f"scaled index {cls}: kind of the result", "input": {"data": data, "expr": expr}, "model": mk, "impl": iv[2]})
                if not agree(en_, inp):
                    dis.append({"kind": f"model of numpy indexing {cls}", "input": {"data": data, "expr": expr}, "model": mn[:120], "impl": describe(inp)})
            else:
                r, kw = extra
                if mo == "nochain":
                    exp = None
                elif mo.startswith("grid:"):
                    exp = nd_expected("sc:" + mo[5:], env) if mo != "grid:none" else None
                elif mo.startswith("mat:"):
                    _, r2, hasinit, ndtok = mo.split(":", 3)
                    arr = nd_expected(ndtok, env)
                    if (hasinit == "init") != bool(kw):
                        exp = "?"
                    else:
                        try:
                            exp = getattr(np.asarray(arr), r2)(**kw)
                        except ValueError:
                            exp = None
                else:
                    exp = "?"
                ok = (not isinstance(exp, str)) and agree(exp, iv)
                if not ok:
                    dis.append({"kind": f"scaled {r}() after {cls}", "input": {"data": data, "expr": expr}, "model": mo[:120], "impl": describe(iv)})
        # ---- the three routes of max/min
        for c in classes:
            for m in "TF":
                for a_ in "TF":
                    for r in ("max", "min"):
                        mo = common.run_model([f"red {c} {m} {a_} {r}"], name="c10")[0]
                        want = f"grid {r}" if (c == "sc" and m == "F" and a_ == "F") else f"mat {r}"
                        ctx.traces += 1
                        if mo != want:
                            dis.append({"kind": f"route {c} {r}()", "input": {"class": c, "multi": m, "args": a_}, "model": mo, "impl": want + " (observed on values above)"})
    # ---- expressions for which the model predicts a result (delegation) and the view raises
    sw = get_sweep(ctx)
    for k, d in sw.viewraises.items():
        dis.append({"kind": d["kind"], "input": d["input"], "model": "a result (what numpy computes on np.array(view))", "impl": d["observed"]})
    return dis


def search(ctx, seeds):
    sw = get_sweep(ctx)
    return list(sw.failing.values())[:8]


def replay(ctx, data):
    inp = data.get("failing_input", {}).get("input")
    if not inp or "data" not in inp:
        print("nothing to replay")
        return 0
    with warnings.catch_warnings(), np.errstate(all="ignore"):
        warnings.simplefilter("ignore")
        if "mutation" in inp:
            why = run_stale_any(inp["data"], inp["expr"], inp["mutation"])
        else:
            verdict, why = run_case(inp["data"], inp["expr"])
            if verdict not in ("differs", "npraises"):
                why = None
    print("REPRODUCED: " + why if why else "not reproduced")
    return 1 if why else 0
